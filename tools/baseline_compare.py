"""Run pynguin's test suite (xdist) on a tree and compare with BASELINE.json stable_pass.
usage: baseline_compare.py <repo-root> [pytest args...]   (uses PYTHONPATH=<root>/src)
"""
import json, os, subprocess, sys, tempfile, xml.etree.ElementTree as ET
root = sys.argv[1]
extra = sys.argv[2:]
base = json.load(open('/root/.vp/BASELINE.json'))
stable = set(base['stable_pass'])
with tempfile.TemporaryDirectory() as td:
    junit = os.path.join(td, 'j.xml')
    env = dict(os.environ, PYTHONPATH=os.path.join(root, 'src'))
    cmd = ['/venv/bin/python', '-m', 'pytest', '-q', '-p', 'no:cacheprovider', '--timeout=900', '--continue-on-collection-errors', '-n', '8', f'--junitxml={junit}', *extra]
    p = subprocess.run(cmd, cwd=root, env=env, capture_output=True, text=True)
    print(p.stdout[-600:])
    passed = set()
    failed = set()
    for tc in ET.parse(junit).getroot().iter('testcase'):
        name = f"{tc.get('classname')}::{tc.get('name')}"
        bad = any(c.tag in ('failure', 'error', 'skipped') for c in tc)
        (failed if bad else passed).add(name)
missing = sorted(stable - passed)
if missing and len(missing) <= 15:
    # load-sensitive tests (subprocess executor timing) are re-run alone, serially
    files = sorted({m.split("::")[0].replace(".", "/") + ".py" for m in missing})
    with tempfile.TemporaryDirectory() as td:
        junit = os.path.join(td, 'j.xml')
        env = dict(os.environ, PYTHONPATH=os.path.join(root, 'src'))
        cmd = ['/venv/bin/python', '-m', 'pytest', '-q', '-p', 'no:cacheprovider', '--timeout=900', f'--junitxml={junit}', *files]
        subprocess.run(cmd, cwd=root, env=env, capture_output=True, text=True)
        for tc in ET.parse(junit).getroot().iter('testcase'):
            name = f"{tc.get('classname')}::{tc.get('name')}"
            if not any(c.tag in ('failure', 'error', 'skipped') for c in tc):
                passed.add(name)
    still = sorted(stable - passed)
    print(f"re-ran {len(files)} file(s) serially for {len(missing)} test(s) not passing under xdist load: {len(still)} still not passing")
    missing = still
print(f"stable_pass={len(stable)} passed_now={len(passed)} stable_not_passing={len(missing)}")
for m in missing[:40]:
    print("  NOT PASSING:", m, "(failed)" if m in failed else "(not run)")
sys.exit(1 if missing else 0)
