"""Run one (possibly unregistered) check against seeded changes: try_seed.py C08 C08-a C08-b ..."""
import shutil, subprocess, sys
from pathlib import Path
VERIF = Path(__file__).resolve().parents[1]
prop, seeds = sys.argv[1], sys.argv[2:]
def sh(c, cwd=None):
    p = subprocess.run(c, shell=True, cwd=cwd, capture_output=True, text=True); return p.returncode, p.stdout + p.stderr
for sid in seeds:
    src = VERIF / "seeded" / sid
    if not src.exists():
        src = Path("/tmp/seeded") / sid
    wt = Path(f"/tmp/wt/try-{sid}")
    sh(f"git -C /repo worktree remove --force {wt}")
    rc, out = sh(f"git -C /repo worktree add -q --detach {wt} HEAD"); assert rc == 0, out
    try:
        rc, out = sh(f"git -C {wt} apply {src/'patch.diff'}")
        if rc: print(sid, "PATCH DOES NOT APPLY", out[-200:]); continue
        rc, out = sh(f"/venv/bin/python -m sa.run {prop} --tier quick --repo {wt} --no-evidence", cwd=str(VERIF))
        print(f"== {sid} vs {prop}: exit {rc}")
        for l in out.splitlines():
            if l.startswith(("FINDING", "ANALYSIS-ERROR", "UNDECIDED")) or "Error" in l: print("   ", l[:300])
    finally:
        sh(f"git -C /repo worktree remove --force {wt}"); shutil.rmtree(wt, ignore_errors=True)
