"""Confirm a seeded change in a scratch worktree and file it under /verif/seeded/<id>/.

usage: seed_confirm.py /tmp/seeded/C05-a [--no-suite] [--no-checks]

Steps (all in a fresh `git worktree` of /repo under /tmp, removed afterwards):
  1. demo on the clean tree must exit 0
  2. patch must apply; package must byte-compile
  3. demo on the patched tree must exit != 0
  4. the pinned suite must still have stable_not_passing=0
Then: run every registered quick check against the patched tree (in-memory: --repo <worktree>) and
record which ones report a VIOLATION.
"""

from __future__ import annotations

import json
import os
import shutil
import subprocess
import sys
from pathlib import Path

VERIF = Path(__file__).resolve().parents[1]


def sh(cmd, cwd=None, env=None, timeout=1800):
    p = subprocess.run(cmd, shell=True, cwd=cwd, env=env, capture_output=True, text=True, timeout=timeout)
    return p.returncode, (p.stdout + p.stderr)


def main():
    src = Path(sys.argv[1])
    no_suite = "--no-suite" in sys.argv
    sid = src.name
    meta = json.loads((src / "meta.json").read_text()) if (src / "meta.json").exists() else {}
    demo = next((p for p in [src / "demo.py", src / "test_demo.py"] if p.exists()), None)
    if demo is None:
        cands = [p for p in src.glob("*.py")]
        demo = cands[0] if cands else None
    wt = Path(f"/tmp/wt/confirm-{sid}")
    sh(f"git -C /repo worktree remove --force {wt}")
    rc, out = sh(f"git -C /repo worktree add -q --detach {wt} HEAD")
    assert rc == 0, out
    result = {"seed": sid}
    try:
        env = dict(os.environ, PYTHONPATH=str(wt / "src"))
        if demo.name.startswith("test_"):
            demo_cmd = f"/venv/bin/python -m pytest -q -p no:cacheprovider {demo}"
        else:
            demo_cmd = f"/venv/bin/python {demo}"
        rc0, out0 = sh(demo_cmd, cwd="/tmp", env=env, timeout=900)
        result["demo_clean_exit"] = rc0
        rc, out = sh(f"git -C {wt} apply {src / 'patch.diff'}")
        result["patch_applies"] = rc == 0
        if rc != 0:
            result["apply_error"] = out[-400:]
        rc, out = sh(f"/venv/bin/python -m compileall -q {wt / 'src' / 'pynguin'}")
        result["compiles"] = rc == 0
        rc1, out1 = sh(demo_cmd, cwd="/tmp", env=env, timeout=900)
        result["demo_patched_exit"] = rc1
        result["demo_patched_tail"] = out1[-500:]
        if not no_suite:
            rc, out = sh(f"/venv/bin/python {VERIF / 'tools' / 'baseline_compare.py'} {wt}", timeout=3000)
            result["suite_stable_not_passing_0"] = rc == 0
            result["suite_tail"] = out[-200:]
        # run all registered quick checks against the patched tree
        man = json.loads((VERIF / "MANIFEST.json").read_text())
        det = {}
        for chk in ([] if "--no-checks" in sys.argv else man["checks"]):
            pid = chk["property_id"]
            rc, out = sh(f"/venv/bin/python -m sa.run {pid} --tier quick --repo {wt} --no-evidence", cwd=str(VERIF))
            lines = [l for l in out.splitlines() if l.startswith(("FINDING", "ANALYSIS-ERROR"))]
            if rc != 0:
                det[pid] = {"exit": rc, "lines": lines[:6]}
        result["detected_by"] = det
    finally:
        sh(f"git -C /repo worktree remove --force {wt}")
        shutil.rmtree(wt, ignore_errors=True)
    ok = result.get("demo_clean_exit") == 0 and result.get("patch_applies") and result.get("compiles") and result.get("demo_patched_exit") not in (0, None) and (no_suite or result.get("suite_stable_not_passing_0"))
    result["confirmed"] = bool(ok)
    print(json.dumps(result, indent=1))
    if ok:
        dst = VERIF / "seeded" / sid
        dst.mkdir(parents=True, exist_ok=True)
        shutil.copy(src / "patch.diff", dst / "patch.diff")
        shutil.copy(demo, dst / demo.name)
        meta.update(
            {
                "property": meta.get("property", sid.split("-")[0]),
                "confirmed_by_me": {
                    "base_commit": subprocess.run("git -C /repo rev-parse --short HEAD", shell=True, capture_output=True, text=True).stdout.strip(),
                    "demo_cmd": demo_cmd.replace(str(src), f"seeded/{sid}"),
                    "demo_clean_exit": result["demo_clean_exit"],
                    "demo_patched_exit": result["demo_patched_exit"],
                    "suite": "stable_not_passing=0"
                    if result.get("suite_stable_not_passing_0")
                    else (json.loads((dst / "meta.json").read_text()).get("confirmed_by_me", {}).get("suite", "not run") if (dst / "meta.json").exists() else "not run"),
                    "ran": "git worktree of /repo HEAD under /tmp; demo before/after `git apply patch.diff`; tools/baseline_compare.py on the patched tree",
                },
                "detected_by_checks": result["detected_by"],
            }
        )
        (dst / "meta.json").write_text(json.dumps(meta, indent=1))
    return 0 if ok else 1


if __name__ == "__main__":
    sys.exit(main())
