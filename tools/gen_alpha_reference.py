"""Regenerate sa/alpha_reference.json from /repo (run after a repair in /repo): python tools/gen_alpha_reference.py [repo]"""
import ast, json, sys
from pathlib import Path
sys.path.insert(0, str(Path(__file__).resolve().parents[1]))
from sa.engine import alpha
root = Path(sys.argv[1] if len(sys.argv) > 1 else "/repo") / "src"
out = {}
n = 0
for path in sorted((root / "pynguin").rglob("*.py")):
    parts = list(path.relative_to(root).with_suffix("").parts)
    if parts[-1] == "__init__":
        parts = parts[:-1]
    tree = ast.parse(path.read_text())
    mod = {}
    for qn, fn in sorted(alpha.functions(tree), key=lambda x: -x[0].count(".<locals>.")):
        h, names = alpha.signature(fn)
        if names:
            mod.setdefault(qn, []).append({"hash": h, "locals": names})
            n += 1
    if mod:
        out[".".join(parts)] = mod
alpha.REFERENCE.write_text(json.dumps(out, indent=0, sort_keys=True))
print(f"{alpha.REFERENCE}: {n} functions with locals in {len(out)} modules")
