"""Print the prompt for a seeded-change sub-agent: python tools/agent_prompt.py C05"""
import json, sys
pid = sys.argv[1]
p = next(json.loads(l) for l in open('/verif/properties.jsonl') if json.loads(l)['id'] == pid)
print(f"""You are helping to evaluate a verification effort for the open-source project se2p/pynguin (a search-based unit-test generator for Python). Your job is to act as a careful "bug seeder": produce realistic code changes that BREAK one stated property of pynguin while the project still compiles and its existing test suite still passes.

## The property (id {pid}): {p['title']}
{p['statement']}

Quantified over: {p['quantifier']['text']}

## Your workspace
- A scratch git worktree of pynguin is at /tmp/wt/{pid} (source in /tmp/wt/{pid}/src/pynguin, tests in /tmp/wt/{pid}/tests). Work ONLY there and under /tmp/seeded/. Never read or modify /repo or /verif (they are off limits), and do not commit anything.
- Python: /venv/bin/python (3.12). Run code against your worktree with `PYTHONPATH=/tmp/wt/{pid}/src /venv/bin/python ...` (PYTHONPATH takes precedence over the installed copy).
- Full existing test suite (about 30 s): `/venv/bin/python /tmp/tools/baseline_compare.py /tmp/wt/{pid}` — it must end with `stable_not_passing=0` (some tests fail at baseline already because optional packages are missing; only the stable set matters). There is no network.

## What to produce: TWO independent changes (variant a and variant b), at different sites / of different kinds
Each change must:
1. be a small, realistic edit to files under src/pynguin (the kind of mistake a maintainer could make in a refactoring or "optimisation": a dropped guard, a restore moved out of a finally, a swapped argument, a wrong comparison, a stale cache, an off-by-one, one of two cooperating sites changed and not the other ...), not a comment or an obviously malicious edit, and not touching tests;
2. still compile and keep the existing suite at `stable_not_passing=0`;
3. genuinely break the property above, in a way that needs something specific to manifest (a particular input, an exception at a particular point, a multi-step sequence of operations, a particular configuration, or two cooperating sites that each look fine alone) rather than something ordinary use would expose at once;
4. come with a demonstration: a small standalone python program (or pytest file) that exits non-zero / fails WITH the change and exits 0 / passes WITHOUT it (on the unmodified worktree). Verify both directions yourself with `git -C /tmp/wt/{pid} diff > /tmp/seeded/{pid}-X/patch.diff; git -C /tmp/wt/{pid} checkout -- .; ...; git -C /tmp/wt/{pid} apply /tmp/seeded/{pid}-X/patch.diff`. NEVER use `git stash` (the stash is shared with other worktrees of the same repository that other people are using concurrently).

For each variant X in {{a, b}} write into /tmp/seeded/{pid}-X/ :
- patch.diff  : `git -C /tmp/wt/{pid} diff -- src` for that variant ALONE (relative to the unmodified worktree HEAD; it must apply with `git apply` on a clean checkout),
- demo.py (or test_demo.py) : the demonstration, runnable as `PYTHONPATH=<tree>/src /venv/bin/python demo.py` (or with `-m pytest test_demo.py`); it must not depend on the worktree path except through PYTHONPATH / imports of pynguin,
- meta.json : {{"property": "{pid}", "variant": "X", "files": [...], "summary": "<what was changed>", "needs_to_manifest": "<what specific input/sequence/fault is required>", "demo_cmd": "<exact command>", "suite": "stable_not_passing=0 confirmed"}}.

Leave the worktree clean (`git -C /tmp/wt/{pid} checkout -- . && git -C /tmp/wt/{pid} status --short` empty) when done. If after honest effort you can only produce one variant, produce one. In your final message give a 5-line summary per variant (site, change, how it manifests). Do not spend effort on anything else.""")
