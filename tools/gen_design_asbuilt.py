"""Regenerate section 10 ("As built") of DESIGN.md from known_findings.json, seeded/*/meta.json and the static text below.
usage: gen_design_asbuilt.py   (rewrites DESIGN.md in place from the heading `## 10. As built` to the end)"""
import json, re
from pathlib import Path
V = Path(__file__).resolve().parents[1]
kf = json.loads((V / "known_findings.json").read_text())
design = (V / "DESIGN.md").read_text()
head = design[: design.index("## 10. As built")]

STATIC_1 = '''## 10. As built (kept current; supersedes the plan above where they differ)

### 10.1 Engine parts that exist
`sa/engine/index.py` (parse, tables, static MRO, constant folding), `cfg.py` (statement CFG with
exceptional edges, finally/with duplication, path queries), `guards.py` (NNF edge formulas,
"edge establishes guard-or-bypass" queries, class-aware call index with dispatch tables,
interprocedural GUARD-DOM), `dataflow.py` (ONCE consumption counting), `prop.py` (truth tables of
small decision functions), `peval.py` (restricted interpreter of function bodies over a partition
of representative values; libcst constructors and bytecode instructions kept symbolic), `cstterm.py`
(libcst token validity rules + source rendering of symbolic terms), `report.py`.
`sa/checks/_instr.py` is the shared model of the bytecode instrumentation: it interprets the
instruction generators of all five supported interpreter versions from source, runs the literal
instruction sequences on a symbolic operand stack, and extracts every splice site of the adapters
(setup action, arguments with their conditions, before/after/override, opcodes of the `case` arm).
`sa/checks/_typemodel.py` is the model of the type system used by C25/C26.
Not built: a mypy fact pass (`typefacts.py`) - the rules that wanted types were expressible on
declared annotations and the static MRO, so the 14 s pass was not worth its cost; `callgraph.py` was
folded into `guards.CallIndex`.

**About `peval`.**  Several properties quantify over runtime values but their implementation is a
handful of small functions (distance helpers, literal renderers, budget arithmetic, the instruction
generators, the slicer's dependency step, the goal-graph builder).  For those the checker interprets
the *source* of these functions itself over a finite partition of the input domain (one
representative per cell: signed zeros, NaN, infinities, ints beyond float range, str/bytes classes,
enum kinds, boundary values; adversarial objects with partial comparison protocols; basic blocks with
pseudo-instructions; representative control-dependence graphs held in networkx graphs) and compares
with an oracle stated in the rule (Python's own operator, token validity, round-trip equality,
`dis.stack_effect`, a gen/kill law, graph reachability).  Pynguin is never imported or run; what is
trusted is the interpreter `sa/engine/peval.py`, Python's behaviour on the representatives and
uniformity of behaviour inside a cell.  Anything outside the interpreted fragment is `undecided`,
never a verdict.  These rules complement the shape rules; every property that uses them also has pure
code-shape rules.

**Interpreter versions.**  The adapters of all five supported versions (3.10-3.14) are analysed.  A
rule whose verdict depends on what a particular interpreter emits or checks (unchecked `LOAD_FAST`,
opcodes instrumented but not listed as traced) is a violation only for the version of the interpreter
that runs the check (3.12 in this sandbox, where a finding can be reproduced against the real code);
for the other versions it is reported as an observation in the evidence.
'''

STATIC_3 = '''### 10.4 Rules that were dropped or narrowed because they demanded more than the property
* `C29.on-success` ("nothing is recorded when the wrapped call raised") was removed: after the
  repair a path is tested by `_is_foreign` *before* the call, so recording in a `finally` is harmless.
* `C08.inclusive` comparisons were narrowed to the two containment shapes (`S <= x <= E`,
  `x < S or E < x`); single comparisons against a bound have no fixed meaning.
* `C20`'s oracle for "the assertion holds" is Python's own `==` on the rendered value (an IntEnum
  member rendered as its integer satisfies the assertion); structural identity is only used where
  `==` cannot hold (NaN).
* `C22.protected` applies to statement-level removers; the SUITE strategy removes whole test cases
  together with their assertions by design.  `C22.stale`: `chop()` at the position returned by
  `get_last_mutatable_statement()` is accepted.
* `C32.early` accepts the inlined form of the ownership check.
* `C04.complement` accepts the containment wrapper `_complement(helper, x, y)` around the distance to
  the outcome that is not evaluated (introduced by a C01 repair) and checks that the wrapper forwards
  its arguments in order and maps a failure to an infinite distance; `C04.one-zero` accepts
  `_positive_distance(...)` as non-zero after checking that function over its partition.
* `C01`: "the tracer receives the k-th operand" is not part of C01 (a wrong operand does not change
  the behaviour of the module under test); it is decided by `C03.operands`.  The tracer still
  evaluates the mirrored and the complementary comparison on the operands (user operators run twice,
  the complementary one runs at all): contained by the repairs, not removed, and not asserted.
* `C02.every-instr` accepts a `continue` for line-less instructions next to the exclusion guard.
* `C09.lines`: the representative for `map_instructions_to_lines` uses one module file plus test
  statements (a slice never mixes two instrumented files).
* `C09` / `C01`: a finding that depends on what another interpreter version emits is an observation.
* Textual shape rules that fired on corrected code were replaced by interpretation or role-based data flow (they would
  have been false alarms on behaviour-preserving edits): `C15.bound-before-use` (was a match on `idx >= position`; now
  `_find_variable_of_type` is interpreted for every position), `C17.reset-first` (was "first statement"; now "nothing before
  the reset is a call on or with the algorithm object"), `C22.restore` (locals by role, not by name), `C27.visibility`
  (the table is interpreted against Python's own name mangling), `C30.sink` (interpreted over sink states),
  `C20.detached` (follows a local that holds the deep copy).
* `C18.public-names` was reduced to what the rendered `from <sut> import ...` line needs (names are attributes of the
  module, the alias is not among them): since repair 952f8fa the enum and exception classes that rendered code names bare
  are imported on their own, so leaving out names the module merely imported is no longer a break (seed C18-c retired).
* `C33.eof` (the master keeps no writer of the result pipe) is applied only while `get_result` relies on EOF: since repair
  ffc6af8 the master watches the worker's liveness, and a leaked sending end no longer hangs it (seed C33-b retired; its two
  self-test variants became silent twins).
* `C12.run`: a suite runner that never clears the changed flag re-executes instead of serving stored results - nothing
  can go stale, so the missing clear is not a C12 finding (it is one of `C35.same-executions`).
* `C26.live-bucket` applies only to a local that receives nothing but the in-place change; a local that is returned or
  passed on is the caller's own working copy (`get_all_generatable_types` extends a copy on purpose).
* Observed on the unchanged tree, outside what the registered rules decide and not repaired (each needs a design decision
  rather than a minimal patch): classes are not filtered by visibility and `ignore_methods` is not applied to constructors
  (C27; the code documents the former as intended); classmethods are never under test (C27); `shutil.rmtree` inside the
  isolation resolves `dir_fd`-relative names against the working directory, and `os.symlink` / `os.link` / `os.truncate`
  are not wrapped (C29); a test case that closes `sys.__stdout__` leaves Pynguin with a closed stream, per-logger levels
  and `disabled` flags are not restored (C30); a mutant registered with `add_mutated_version` is lost after the first
  subprocess run unless re-added, which the mutation analysis does (C31); collections that hold a non-finite float or a
  complex render but are not parsed back by `parse_literal`, they do evaluate (C23); the module's branch-less code object
  is annotated on line 1 even when that line is a comment (C35); further shapes the seed parser drops - lambda statements,
  `pytest.raises` of non-builtin, non-SUT exceptions, repeated assertions on one object that move to the binding statement
  (C24, next to the five listed known findings).
* Session 5: further shape rules that fired on corrected code were replaced.  `C08.sources` [_is_main / _is_type_checking] and
  `C08.priority` [all-enclosing] became cases of `C08.pipeline` (the exclusion pipeline interpreted end to end over small
  modules); the `remaining.remove(element)` part of `C14.front-shape` became `C14.assignment` (the whole ranking assignment
  interpreted over populations with structurally equal individuals); `C18.exc-import` [record] no longer matches
  `cst.Name(<x>.__name__)` but evaluates the writer's own reference / import expressions over a top-level, a nested and a
  function-local exception class; `C22.protected` inlines predicate helpers (a guard that moved into `_is_protected(...)`
  establishes the same literals).  `C04.complement`'s table now demands `_gt` / `_ge` on (value1, value2) for `>` / `>=`:
  the former reflected form is a finding (partial rich-comparison protocols).
* Seed C04-e was retired: after repair 2663f31 every string / bytes distance of a comparison that does not hold is kept
  positive, which makes the seeded lossy decoding harmless.  Seeds C19-d / C19-f were re-targeted after repair 0ec8b5b
  (their assertion is now carried by a later statement).  C22-f was never filed: it makes an existing integration test fail
  in 4 of 6 runs.
* Alpha-equivalence: on load every function whose shape (locals erased) equals the reference recorded in
  `sa/alpha_reference.json` has its locals renamed back to the recorded names, so rules that still name a local are
  immune to pure renamings (metamorphic test: ~3800 locals renamed, all checks silent).  The reference is regenerated
  after every repair (`tools/gen_alpha_reference.py`).
* Observed on the unchanged tree in session 5, outside what the registered rules decide and not repaired: the tracer still
  evaluates user operators in addition to the module under test (`__bool__` twice, `__eq__` up to three times; a
  stateful `__bool__` can make the recorded outcome differ from the one taken) and the `in` fallback iterates arbitrary
  iterables (C01/C03/C04; needs instrumentation that evaluates once and hands the result on); the STORE_NAME / STORE_ATTR
  probes of the CHECKED instrumentation re-read the stored name / attribute (C01); a generator's code object counts as
  executed when the generator is created (C03); `x in <iterator>` records nothing (C03; chosen so as not to consume the
  iterator); MIO's tie rule is `<=` (C13); only-cover of `K.m` also makes the class body lines of K line goals, a marker
  on a decorator line or a `with` header excludes only that line (C08); the slicer's stack simulation loses `__slots__`
  instances, subscript keys, attribute chains and chained comparisons (C09; outside the supported fragment);
  `TestSuiteMutation.mutate` drops empty tests without raising the changed flag (C12; pinned by an existing test);
  `append_test_case_from` does not rename assertion sources and insertion only tests the length before each step (C15;
  assertions do not exist while crossover runs); asserted dicts are rendered in insertion order (C16; the order comes
  from the module under test); expected exceptions count as kills in the mutation summary (C21); `OrderedSet.__eq__` is
  order-sensitive, so merged traces compare unequal although their sets are equal (C11; the join itself commutes).
* Inlined comprehensions and in-place container construction (`LIST_APPEND`, `MAP_ADD`) are outside what
  the slicer's stack simulation models (`ys = [x * k for x in xs]` does not pull in the definitions of
  `xs` and `k`); the property restricts completeness to the supported fragment, so this is recorded
  here and not as a finding.
'''

def fixed_rows():
    rows = []
    for line in kf.get("fixed", []):
        m = re.match(r"fixed: property=(C\d+) (\S+) (.*)", line)
        if m:
            rows.append(m.groups())
    return rows

out = [STATIC_1]
out.append("### 10.2 Genuine defects found on the unchanged tree and repaired (`fix:` commits in /repo)\n"
           "Each was first reproduced with a concrete input against the real code (throw-away scripts, differential runs of\n"
           "instrumented against plain code over 51 stdlib modules, `sys.monitoring` LINE/BRANCH oracles, slices of small\n"
           "programs); the unedited suite passes after each commit; all are listed under `fixed` in `known_findings.json`\n"
           "(a `fixed` entry suppresses nothing).\n\n| property | commit | defect |\n|---|---|---|\n")
for prop, commit, what in sorted(fixed_rows(), key=lambda r: (r[0],)):
    out.append(f"| {prop} | {commit} | {what.replace('|', '/')} |\n")
out.append("\n### 10.3 Genuine defects recorded as known findings (not repaired)\n"
           "Each is printed as `KNOWN-FINDING:` by its check, identified by rule and construct (never by line), so another\n"
           "violation of the same rule is still reported.\n\n| property | what fails | why not repaired |\n|---|---|---|\n")
for k in kf.get("known", []):
    out.append(f"| {k['property']} | {k['what'].replace('|', '/')} | {k.get('not_repaired_because', '').replace('|', '/')} |\n")
out.append("\n" + STATIC_3)
out.append("\n### 10.5 Seeded changes (sub-agents, `/verif/seeded/<id>/`) and which check catches them\n"
           "Each change was produced by a fresh sub-agent that saw only the property text and a scratch worktree; each was\n"
           "confirmed here (applies, suite still `stable_not_passing=0`, its demonstration fails with and passes without the\n"
           "change) and re-confirmed against the current /repo HEAD (`tools/reconfirm_demos.py`).  Detection is by the quick\n"
           "tier on a scratch worktree with the patch applied (`tools/seed_sweep.py`).  `own` = caught by the check of the\n"
           "property the change was written for.\n\n| seed | caught by | first rule | change |\n|---|---|---|---|\n")
n = det = own = 0
for d in sorted((V / "seeded").iterdir()):
    mp = d / "meta.json"
    if not mp.exists() or d.name.startswith("_"):
        continue
    m = json.loads(mp.read_text())
    res = m.get("detected_by_checks", {})
    viol = [p for p, r in res.items() if isinstance(r, dict) and r.get("exit") == 1]
    prop = d.name.split("-")[0]
    first = ""
    if viol:
        pick = prop if prop in viol else viol[0]
        lines = res[pick].get("lines", [])
        first = lines[0].split()[1] if lines else ""
    n += 1
    det += bool(viol)
    own += prop in viol
    by = ", ".join((f"**{p}**" if p == prop else p) for p in viol) or "**not caught**"
    summ = (m.get("summary") or "").replace("|", "/").replace("\n", " ")[:150]
    out.append(f"| {d.name} | {by} | {first} | {summ} |\n")
out.append(f"\n{n} seeded changes, {det} caught by at least one check, {own} caught by the check of their own property.\n\n"
           "Retired seeds (`seeded/_retired/`): written against code that a later repair changed; ported onto the repaired\n"
           "code they no longer break their property (their own demonstrations pass).  Kept for the record only.\n")
import ast as _ast
out.append("\n### 10.6 As-built description of every check (the module docstrings of `sa/checks/cNN.py`; they supersede the plan in section 3)\n")
for f in sorted((V / "sa" / "checks").glob("c[0-9][0-9].py")):
    doc = _ast.get_docstring(_ast.parse(f.read_text())) or ""
    out.append(f"\n**{f.stem.upper()}** (`sa/checks/{f.name}`)\n\n```\n{doc}\n```\n")
(V / "DESIGN.md").write_text(head + "".join(out))
print("section 10 regenerated:", n, "seeds,", det, "caught,", own, "own")
