"""Run every registered quick check against every seeded change in /verif/seeded (in a scratch
worktree under /tmp, removed afterwards) and print / record the detection matrix.

usage: seed_sweep.py [seed-id ...]
"""

from __future__ import annotations

import json
import shutil
import subprocess
import sys
from concurrent.futures import ThreadPoolExecutor
from pathlib import Path

VERIF = Path(__file__).resolve().parents[1]


def sh(cmd, cwd=None):
    p = subprocess.run(cmd, shell=True, cwd=cwd, capture_output=True, text=True)
    return p.returncode, p.stdout + p.stderr


def one(sid: str):
    d = VERIF / "seeded" / sid
    wt = Path(f"/tmp/wt/sweep-{sid}")
    sh(f"git -C /repo worktree remove --force {wt}")
    rc, out = sh(f"git -C /repo worktree add -q --detach {wt} HEAD")
    res = {}
    try:
        rc, out = sh(f"git -C {wt} apply {d / 'patch.diff'}")
        if rc != 0:
            return sid, {"_apply": out[-200:]}
        man = json.loads((VERIF / "MANIFEST.json").read_text())
        for chk in man["checks"]:
            pid = chk["property_id"]
            rc, out = sh(f"/venv/bin/python -m sa.run {pid} --tier quick --repo {wt} --no-evidence", cwd=str(VERIF))
            if rc != 0:
                res[pid] = {"exit": rc, "lines": [l for l in out.splitlines() if l.startswith(("FINDING", "ANALYSIS-ERROR"))][:4]}
    finally:
        sh(f"git -C /repo worktree remove --force {wt}")
        shutil.rmtree(wt, ignore_errors=True)
    meta_p = d / "meta.json"
    meta = json.loads(meta_p.read_text())
    meta["detected_by_checks"] = res
    meta_p.write_text(json.dumps(meta, indent=1))
    return sid, res


def main():
    ids = sys.argv[1:] or sorted(p.name for p in (VERIF / "seeded").iterdir() if (p / "patch.diff").exists())
    with ThreadPoolExecutor(12) as ex:
        results = list(ex.map(one, ids))
    missed = 0
    for sid, res in results:
        prop = sid.split("-")[0]
        viol = [p for p, r in res.items() if isinstance(r, dict) and r.get("exit") == 1]
        err = [p for p, r in res.items() if isinstance(r, dict) and r.get("exit") == 2]
        status = "DETECTED" if viol else ("ANALYSIS-ERROR only" if err else "missed")
        if not viol:
            missed += 1
        own = "own-property" if prop in viol else ""
        print(f"{sid:8s} {status:20s} by={','.join(viol) or '-'} {own} err={','.join(err) or '-'}")
        for p in viol:
            for l in res[p]["lines"][:2]:
                print("      ", l[:220])
    print(f"{len(results)} seeds, {len(results) - missed} detected, {missed} not detected")


if __name__ == "__main__":
    main()
