"""Re-run the demonstration of seeded changes on /repo HEAD (clean and patched), without the suite:
reconfirm_demos.py [seed ...]   -> prints clean/patched exit codes; a seed is still valid iff clean==0 and patched!=0"""
import json, shutil, subprocess, sys, os
from pathlib import Path
from concurrent.futures import ThreadPoolExecutor
VERIF = Path(__file__).resolve().parents[1]
def sh(c, cwd=None, env=None, timeout=900):
    try:
        p = subprocess.run(c, shell=True, cwd=cwd, env=env, capture_output=True, text=True, timeout=timeout)
        return p.returncode, p.stdout + p.stderr
    except subprocess.TimeoutExpired:
        return 124, "timeout"
def one(sid):
    d = VERIF / "seeded" / sid
    demo = next((p for p in [d / "demo.py", d / "test_demo.py"] if p.exists()), None)
    wt = Path(f"/tmp/wt/redemo-{sid}")
    sh(f"git -C /repo worktree remove --force {wt}")
    rc, out = sh(f"git -C /repo worktree add -q --detach {wt} HEAD")
    try:
        env = dict(os.environ, PYTHONPATH=str(wt / "src"))
        cmd = f"/venv/bin/python -m pytest -q -p no:cacheprovider {demo}" if demo.name.startswith("test_") else f"/venv/bin/python {demo}"
        rc0, _ = sh(cmd, cwd="/tmp", env=env)
        rc, out = sh(f"git -C {wt} apply {d/'patch.diff'}")
        if rc: return sid, rc0, "no-apply"
        rc1, _ = sh(cmd, cwd="/tmp", env=env)
        return sid, rc0, rc1
    finally:
        sh(f"git -C /repo worktree remove --force {wt}"); shutil.rmtree(wt, ignore_errors=True)
ids = sys.argv[1:] or sorted(p.name for p in (VERIF / "seeded").iterdir() if (p / "patch.diff").exists())
with ThreadPoolExecutor(6) as ex:
    for sid, a, b in ex.map(one, ids):
        ok = a == 0 and b not in (0, "no-apply")
        print(f"{sid:8s} clean={a} patched={b} {'valid' if ok else 'STALE'}")
        mp = VERIF / "seeded" / sid / "meta.json"
        m = json.loads(mp.read_text()); m["revalidated"] = {"head": subprocess.run("git -C /repo rev-parse --short HEAD", shell=True, capture_output=True, text=True).stdout.strip(), "demo_clean_exit": a, "demo_patched_exit": b}
        mp.write_text(json.dumps(m, indent=1))
