"""Refresh a seeded patch so that it applies to /repo HEAD (3-way apply in a scratch worktree): rebase_seed.py C27-a ..."""
import shutil, subprocess, sys
from pathlib import Path
VERIF = Path(__file__).resolve().parents[1]
def sh(c):
    p = subprocess.run(c, shell=True, capture_output=True, text=True); return p.returncode, p.stdout + p.stderr
for sid in sys.argv[1:]:
    pf = VERIF / "seeded" / sid / "patch.diff"
    wt = Path(f"/tmp/wt/rebase-{sid}")
    sh(f"git -C /repo worktree remove --force {wt}")
    rc, out = sh(f"git -C /repo worktree add -q --detach {wt} HEAD"); assert rc == 0, out
    try:
        rc, out = sh(f"git -C {wt} apply --check {pf}")
        if rc == 0:
            print(sid, "applies cleanly"); continue
        rc, out = sh(f"git -C {wt} apply -3 {pf}")
        if rc != 0:
            print(sid, "3-way apply FAILED", out[-300:]); continue
        rc, diff = sh(f"git -C {wt} diff HEAD -- src")
        rc2, out2 = sh(f"/venv/bin/python -m compileall -q {wt}/src/pynguin")
        if "<<<<<<<" in diff or rc2 != 0:
            print(sid, "conflict markers / does not compile"); continue
        pf.write_text(diff)
        print(sid, "rebased onto", sh("git -C /repo rev-parse --short HEAD")[1].strip())
    finally:
        sh(f"git -C /repo worktree remove --force {wt}"); shutil.rmtree(wt, ignore_errors=True)
