"""C06 — control-dependence graphs match the post-dominance definition (decided on representative CFGs only).

The property quantifies over every code object; no static argument in reach covers all graphs.  What is
decided is a necessary condition: pynguin's own construction code (CFG._insert_dummy_nodes,
filter_dead_code_nodes, ControlDependenceGraph.compute with its augmented graph, post-dominator tree and
LCA walk) is interpreted from source - never imported - over representative control-flow graphs built by the
checker (networkx holds them; networkx's immediate_dominators / lowest_common_ancestor are used by the
interpreted code exactly as pynguin uses them), and the result is compared with an independent
implementation of the definition that uses reachability only:
 * C06.shape    after the dummy nodes are inserted there is one ENTRY without predecessor and one EXIT
                without successor, every block is reachable from ENTRY and reaches EXIT (also for an
                infinite loop and for a generator-like block), and filter_dead_code_nodes removes exactly the
                blocks no path from the entry reaches in the representative with dead code;
 * C06.ferrante the control-dependence graph returned by compute() has an edge labelled v from A to B
                exactly when the definition of Ferrante et al. says so (B post-dominates the v-successor
                of A but does not strictly post-dominate A), with the augmented entry as root of the blocks
                that depend on no branch; ENTRY and EXIT are removed;
 * C06.root     is_control_dependent_on_root and get_control_dependencies agree with the edges of that graph.
Representatives: straight line, diamond, if without else, nested ifs, while loop, loop with break and
else, two returns, two infinite loops (both outcomes lead back to the predicate, directly and through a join
block), loops that are a single block (with and without exit), unlabelled two-way split (try region), loop nested in a branch.
Known on the unchanged tree: the graph is a networkx DiGraph, which keeps one edge per pair of blocks, so a
block that depends on BOTH outcomes of a predicate (possible in an infinite loop, whose entry is wired to EXIT)
keeps only one of the two labels.
Not decided: any graph outside these shapes; the translation of bytecode into the CFG (bytecode library).
"""

from __future__ import annotations

import ast
import enum

from sa.checks.c07 import OSet
from sa.engine import peval
from sa.engine.index import AnalysisError, norm

CF = "pynguin.instrumentation.controlflow"


def _nx():
    try:
        import networkx as nx
    except ImportError as exc:
        raise AnalysisError(f"networkx is not importable: {exc}") from exc
    return nx


class _Block(peval.Obj):
    """Representative basic block; like pynguin's BasicBlockNode it is equal by index."""

    def __init__(self, index, yields=False):
        ins = peval.Obj("Instr", fields={"name": "YIELD_VALUE" if yields else "NOP", "lineno": index, "arg": 0}, classes=["Instr"])
        super().__init__(f"B{index}", fields={"index": index, "basic_block": [ins], "instructions": [ins], "original_instructions": [ins]}, classes=["BasicBlockNode"])

    def __eq__(self, other):
        return isinstance(other, _Block) and other.fields["index"] == self.fields["index"]

    def __hash__(self):
        return hash(self.fields["index"])

    def __lt__(self, other):
        return self.fields["index"] < other.fields["index"]


def _shapes(key):
    T, F = {key: True}, {key: False}
    S = {
        "straight line": [(1, 2, {}), (2, 3, {})],
        "diamond": [(1, 2, T), (1, 3, F), (2, 4, {}), (3, 4, {})],
        "if without else": [(1, 2, T), (1, 3, F), (2, 3, {})],
        "nested ifs": [(1, 2, T), (1, 6, F), (2, 3, T), (2, 4, F), (3, 5, {}), (4, 5, {}), (5, 6, {})],
        "while loop": [(1, 2, {}), (2, 3, T), (3, 2, {}), (2, 4, F)],
        "loop with break and else": [(1, 2, {}), (2, 3, T), (3, 6, T), (3, 2, F), (2, 5, F), (5, 6, {})],
        "two returns": [(1, 2, T), (1, 3, F)],
        "infinite loop": [(1, 2, {}), (2, 3, T), (2, 4, F), (3, 2, {}), (4, 2, {})],
        "infinite loop with a join block": [(1, 2, T), (1, 3, F), (2, 4, {}), (3, 4, {}), (4, 1, {})],
        "single-block infinite loop": [(1, 2, {}), (2, 2, {})],
        "single-block loop with an exit": [(1, 2, {}), (2, 2, T), (2, 3, F)],
        "unlabelled two-way split": [(1, 2, {}), (1, 5, {}), (2, 3, {}), (5, 3, {})],
        "loop nested in a branch": [(1, 2, T), (1, 6, F), (2, 3, {}), (3, 4, T), (4, 3, {}), (3, 5, F), (5, 6, {})],
    }
    return S


def _oracle(nx, g, start, entry, exit_, key):
    """Control dependence by the definition, with post-dominance from reachability (no dominator algorithm)."""
    aug = g.copy()
    aug.add_edge(start, entry)
    aug.add_edge(start, exit_)

    def pdom(b, a):
        """b post-dominates a (reflexive) in aug: every path from a to EXIT contains b."""
        if a == b:
            return True
        h = aug.copy()
        h.remove_node(b)
        return a not in h or not nx.has_path(h, a, exit_) if b != exit_ else True

    edges = set()
    for a, b, data in aug.edges(data=True):
        # Ferrante et al. define post-dominance without the start node: a block does not post-dominate itself,
        # so a self edge A -> A (a loop that is one block) induces the dependence of A on itself
        if b != a and pdom(b, a):
            continue
        for y in aug.nodes:
            if pdom(y, b) and not (y != a and pdom(y, a)):
                edges.add((a, y, data.get(key)))
    return {(a, y, v) for a, y, v in edges if a not in (entry, exit_) and y not in (entry, exit_)}


def check(ctx) -> None:
    repo = ctx.repo
    ctx.rule("C06.shape", "ABSINT: dummy nodes give one entry / one exit, everything reachable from the entry and reaching the exit; dead code filtered", floor=10)
    ctx.rule("C06.ferrante", "ABSINT: compute() == the definition of control dependence (independent reachability-based oracle) on representative CFGs", floor=10)
    ctx.rule("C06.root", "ABSINT: root dependence and dependency queries agree with the computed graph", floor=10)
    nx = _nx()
    cfmod = repo.module(CF)
    key = repo.fold(cfmod, cfmod.assigns["EDGE_DATA_BRANCH_VALUE"])
    an = repo.cls(CF, "ArtificialNode")
    members = {s.targets[0].id: s.value.value for s in an.body if isinstance(s, ast.Assign) and isinstance(s.value, ast.Constant)}
    if not {"ENTRY", "EXIT", "AUGMENTED_ENTRY"} <= set(members):
        raise AnalysisError(f"ArtificialNode members changed: {sorted(members)}")
    AN = enum.Enum("ArtificialNode", members)
    cres = peval.repo_class_resolver(repo, only={"ControlDependenceGraph", "ProgramGraph", "CFG", "ControlDependency", "BasicBlockNode"})
    idn = repo.func(CF, "CFG._insert_dummy_nodes")
    comp = repo.func(CF, "ControlDependenceGraph.compute")
    fdc = repo.func(CF, "filter_dead_code_nodes")
    for f in (idn, comp, fdc, repo.func(CF, "ControlDependenceGraph._create_augmented_graph"), repo.func(CF, "ControlDependenceGraph._compute_post_dominator_tree")):
        ctx.analysed(f)

    def interp():
        consts = {"EDGE_DATA_BRANCH_VALUE": key, "ArtificialNode": AN, "FIRST_BASIC_BLOCK_NODE_INDEX": 1, "version.YIELDING_NAMES": ("YIELD_VALUE",)}
        for m in AN:
            consts[f"ArtificialNode.{m.name}"] = m
        ext = {f"nx.{n}": getattr(nx, n) for n in ("DiGraph", "immediate_dominators", "lowest_common_ancestor", "simple_cycles", "single_source_shortest_path_length", "ancestors", "descendants")}
        ext["OrderedSet"] = OSet
        return peval.Interp(resolver=peval.repo_resolver(repo), class_resolver=cres, consts=consts, externs=ext, max_steps=2000000,
                            native_types=(nx.DiGraph, nx.classes.reportviews.OutEdgeView, nx.classes.reportviews.NodeView, nx.classes.reportviews.OutEdgeDataView))

    def cfg_obj(it, graph):
        return it.instantiate("CFG", cres("CFG", cfmod), [], {"_graph": graph, "_bytecode_cfg": None}, init=False)

    for name, edges in _shapes(key).items():
        tag = f"[{name}]"
        blocks = {}
        g = nx.DiGraph()
        for a, b, d in edges:
            for i in (a, b):
                blocks.setdefault(i, _Block(i))
            g.add_edge(blocks[a], blocks[b], **d)
        # ---- dummy nodes
        try:
            it = interp()
            cfg = cfg_obj(it, g)
            it.run_function(idn, [cfg], {}, cfmod)
        except peval.Undecided as exc:
            ctx.undecide("C06.shape", idn, f"{tag}: {exc}")
            continue
        except peval.Raises as exc:
            ctx.fail("C06.shape", idn, f"{tag}: _insert_dummy_nodes raises {exc.name} ({exc.detail[:60]})", stmt=tag)
            continue
        E, X = AN.ENTRY, AN.EXIT
        ok = E in g and X in g and g.in_degree(E) == 0 and g.out_degree(X) == 0 and [n for n in g if g.in_degree(n) == 0] == [E] and [n for n in g if g.out_degree(n) == 0] == [X]
        reach = ok and all(nx.has_path(g, E, n) and nx.has_path(g, n, X) for n in g)
        ctx.check("C06.shape", idn, bool(ok and reach), f"{tag}: after _insert_dummy_nodes: nodes without predecessor {[str(n) for n in g if g.in_degree(n) == 0]}, without successor {[str(n) for n in g if g.out_degree(n) == 0]}, all blocks between ENTRY and EXIT: {reach}: the post-dominator computation has no single exit to start from", what=f"{tag}: single entry, single exit, every block on a path between them", stmt=tag)
        if not (ok and reach):
            continue
        # ---- control dependence
        want = _oracle(nx, g, AN.AUGMENTED_ENTRY, E, X, key)
        try:
            it = interp()
            cfg = cfg_obj(it, g.copy())
            cdg = it.run_function(comp, [cfg], {}, cfmod)
            cg = cdg.fields["_graph"]
        except peval.Undecided as exc:
            ctx.undecide("C06.ferrante", comp, f"{tag}: {exc}")
            continue
        except peval.Raises as exc:
            ctx.fail("C06.ferrante", comp, f"{tag}: ControlDependenceGraph.compute raises {exc.name} ({exc.detail[:60]})", stmt=tag)
            continue
        got = {(a, b, d.get(key)) for a, b, d in cg.edges(data=True)}
        show = lambda es: sorted((str(getattr(a, "label", a)), str(getattr(b, "label", b)), v) for a, b, v in es)
        ctx.check("C06.ferrante", comp, got == want and E not in cg and X not in cg,
                  f"{tag}: compute() yields edges {show(got - want)} that the definition does not / misses {show(want - got)} (ENTRY or EXIT left in the graph: {E in cg or X in cg})",
                  what=f"{tag}: {len(want)} control dependences as defined", stmt=tag if got == want else f"{tag} extra={show(got - want)} missing={show(want - got)}")
        # ---- queries
        try:
            bad = []
            for n in cg.nodes:
                if not isinstance(n, _Block):
                    continue
                it = interp()
                cdgo = it.instantiate("ControlDependenceGraph", cres("ControlDependenceGraph", cfmod), [], {"_graph": cg}, init=False)
                root = bool(cdgo.methods["is_control_dependent_on_root"](n))
                deps = {(d.fields["node"], d.fields["branch_value"]) for d in cdgo.methods["get_control_dependencies"](n)}
                # by the graph: labelled predecessors, looking through unlabelled ones
                exp_deps, seen, todo = set(), set(), [n]
                exp_root = False
                while todo:
                    cur = todo.pop()
                    for p in cg.predecessors(cur):
                        v = cg.get_edge_data(p, cur).get(key)
                        if isinstance(p, _Block) and v is not None:
                            exp_deps.add((p, v))
                        elif (p, cur) not in seen:
                            seen.add((p, cur))
                            if p == AN.AUGMENTED_ENTRY:
                                exp_root = True
                            else:
                                todo.append(p)
                if deps != exp_deps or root != exp_root:
                    bad.append((n.label, root, exp_root, sorted((d.label, v) for d, v in deps), sorted((d.label, v) for d, v in exp_deps)))
            ctx.check("C06.root", comp, not bad, f"{tag}: (block, root?, expected, dependencies, expected) = {bad}", what=f"{tag}: queries agree with the graph", stmt=tag)
        except (peval.Undecided, peval.Raises) as exc:
            ctx.undecide("C06.root", comp, f"{tag}: {exc}")
    # ---- dead code
    blocks = {i: _Block(i) for i in (1, 2, 3, 4, 5)}
    g = nx.DiGraph()
    g.add_edge(AN.ENTRY, blocks[1]); g.add_edge(blocks[1], blocks[2]); g.add_edge(blocks[3], blocks[2]); g.add_edge(blocks[5], blocks[3]); g.add_node(blocks[4])  # B3 is visited before the dead block B5 that keeps it alive
    try:
        it = interp()
        pg = it.instantiate("ProgramGraph", cres("ProgramGraph", cfmod), [], {"_graph": g}, init=False)
        it.run_function(fdc, [pg, AN.ENTRY], {}, cfmod)
        left = sorted(n.label for n in g if isinstance(n, _Block))
        ctx.check("C06.shape", fdc, left == ["B1", "B2"], f"[dead code] filter_dead_code_nodes leaves blocks {left}; only B1 and B2 are reachable from the entry (B5 -> B3 -> B2 and the isolated B4 are dead)", what="[dead code] chain of dead blocks and an isolated block are removed", stmt="[dead code]")
    except (peval.Undecided, peval.Raises) as exc:
        ctx.undecide("C06.shape", fdc, f"[dead code]: {exc}")
