"""C09 — dynamic slices are sound and checked lines were executed.

Decides the tables and laws the slicer's backward traversal rests on:
 * C09.groups    per version: every opcode the checked-coverage adapter instruments is expected by the
                 execution-flow builder (METHODS keys ⊆ TRACED_NAMES) and vice versa for the opcodes of
                 the running interpreter; every opcode traced through track_memory_access /
                 track_attribute_access is a memory use (loads) or a memory definition (stores, deletes);
                 STORE_NAMES contains stores only and all of them; UniqueInstruction's predicates read
                 the table they are named for;
 * C09.stackfx   for the running interpreter: stack_effects (interpreted from source through the version
                 chain) agrees with dis.stack_effect for every opcode, argument class and jump flag, apart
                 from the deviations the repository documents;
 * C09.kill      ABSINT of check_explicit_data_dependency over representative contexts: a complete
                 definition is a dependency and removes exactly the pending use it satisfies; a partial
                 definition (attribute / element store into an object whose address is pending) is a
                 dependency and removes nothing; an unrelated definition is none and removes nothing;
 * C09.lines     the lines reported as checked are the lines of the instructions in the slice
                 (map_instructions_to_lines), which are appended from the traversal state only.
Not decided: completeness of the traversal itself (stack simulation across frames, exceptions, inlined
comprehensions, in-place container construction with LIST_APPEND / MAP_ADD).
Further clauses (added later): C09.frame-flag: the scalar per-code-object flag of the slicing context is
computed from the current instruction's state only (a value accumulated in one scalar mixes nested frames).
"""

from __future__ import annotations

import ast
import dis
import opcode as _opcode
import operator

from sa.checks import _instr as I
from sa.engine import peval
from sa.engine.index import AnalysisError, norm, own_nodes

DS = "pynguin.slicer.dynamicslicer"
EFB = "pynguin.slicer.executionflowbuilder"
EI = "pynguin.slicer.executedinstruction"
GROUPS = ["TRACED_NAMES", "MEMORY_USE_NAMES", "MEMORY_DEF_NAMES", "STORE_NAMES", "ACCESS_NAMES", "COND_BRANCH_NAMES", "MODIFY_FAST_NAMES", "MODIFY_NAME_NAMES",
          "MODIFY_GLOBAL_NAMES", "MODIFY_DEREF_NAMES", "IMPORT_NAME_NAMES"]
# deviations from dis.stack_effect the repository documents in comments next to the arm
DOCUMENTED_DEVIATIONS = {"IMPORT_NAME": "compensated by treating IMPORT_NAME as a definition (comment in MEMORY_DEF_NAMES)"}


def _fold(repo, v, name):
    mod = repo.module(I.VMOD + v)
    r = repo.resolve_name(mod, name)
    if not r:
        return None
    m2 = repo.modules[r[0]]
    e = m2.assigns.get(r[1])
    return repo.fold(m2, e) if e is not None else None


def _methods_table(repo, v):
    """Effective METHODS of the checked-coverage adapter: [(opcodes, visitor FunctionDef)]."""
    modname = I.VMOD + v
    tab = repo.class_attr(modname, "CheckedCoverageInstrumentation", "METHODS")
    if tab is None or not isinstance(tab[2], ast.Dict):
        raise AnalysisError(f"{v}: CheckedCoverageInstrumentation.METHODS vanished")
    tm, tc, d = tab
    tmod = repo.modules[tm]
    out = []
    for k, val in zip(d.keys, d.values):
        names = repo.fold(tmod, k)
        if names is None:
            raise AnalysisError(f"{v}: METHODS key `{norm(k)}` is not foldable")
        t = norm(val)
        if isinstance(val, ast.Name):
            fn = repo.methods(tmod.classes[tc]).get(val.id)
        else:
            r = repo.resolve_name(tmod, t.rsplit(".", 1)[0])
            rm = repo.resolve_method(r[0], r[1], t.rsplit(".", 1)[1]) if r else None
            fn = rm[2] if rm else None
        if fn is None:
            raise AnalysisError(f"{v}: METHODS value `{t}` does not resolve")
        out.append((tuple(names), fn, norm(k)))
    return out, d


def check(ctx) -> None:
    repo = ctx.repo
    ctx.rule("C09.frame-flag", "the scalar per-code-object flag of the slicing context is computed from the current instruction's state only (no self-referential accumulation across frames)", floor=2)
    _frame_flag(ctx, repo)
    ctx.rule("C09.groups", "TABLE-AGREE: instrumented <=> traced; traced memory opcodes are uses / definitions; STORE_NAMES = the stores; predicates read their table", floor=60)
    ctx.rule("C09.stackfx", "TABLE-AGREE: stack_effects == dis.stack_effect for the running interpreter (documented deviations aside)", floor=150)
    ctx.rule("C09.kill", "ABSINT: gen/kill laws of check_explicit_data_dependency over representative contexts", floor=8)
    ctx.rule("C09.lines", "checked lines are the lines of slice instructions; the slice is built from the traversal state only", floor=4)
    ctx.rule("C09.node-key", "a basic-block node (equal by index only) keys a container only among the blocks of one code object", floor=0)
    ctx.rule("C09.operands", "ABSINT/stack: track_attribute_access receives the object the instruction reads or modifies", floor=30)
    for n, ok, desc in I.node_key_uses(repo, ["pynguin.slicer"]):
        ctx.check("C09.node-key", n, ok, f"{desc}: what was computed for a block of one code object is reused for the block with the same index of another (the flow builder takes a wrong turn and loses the dependencies of that frame)", what=desc, stmt=f"[node-key] {desc[:80]}")
    cur = I.running_version()
    for v in I.VERSIONS:
        _groups(ctx, repo, v, cur)
        _operands(ctx, repo, v)
    _predicates(ctx, repo)
    _stackfx(ctx, repo, cur)
    _kill(ctx, repo, cur)
    _lines(ctx, repo)


# ------------------------------------------------------------------------------------------------ opcode groups
def _groups(ctx, repo, v, cur) -> None:
    g = {n: _fold(repo, v, n) for n in GROUPS}
    for n, val in g.items():
        if val is None:
            raise AnalysisError(f"{v}: {n} is not foldable")
    table, dnode = _methods_table(repo, v)
    traced = set(g["TRACED_NAMES"])
    inst = set()
    for names, fn, key in table:
        ctx.analysed(fn)
        inst |= set(names)
        missing = sorted(set(names) - traced)
        if missing and v != cur:
            # whether that interpreter version emits the opcode cannot be shown on the running interpreter
            ctx.observe(f"[{v}] the adapter instruments {missing} (METHODS key {key}) but TRACED_NAMES does not list them")
            missing = []
        ctx.check("C09.groups", dnode, not missing, f"[{v}] the adapter instruments {missing} (METHODS key {key}) but TRACED_NAMES does not list them: the execution-flow builder does not expect their trace entries and loses its position (slicing times out)", what=f"[{v}] {key} ⊆ TRACED_NAMES", stmt=f"[{v} traced {key}]")
    live = {n for n, o in _opcode.opmap.items() if o < 256} if v == cur else None
    not_inst = sorted(o for o in traced - inst if live is None or o in live)
    if v == cur:
        ctx.check("C09.groups", dnode, not not_inst, f"[{v}] TRACED_NAMES lists {not_inst}, which the running interpreter emits but no METHODS entry instruments: the flow builder waits for trace entries that are never written", what=f"[{v}] every traced opcode of the running interpreter is instrumented", stmt=f"[{v} instrumented]")
    elif not_inst:
        ctx.observe(f"[{v}] TRACED_NAMES lists {not_inst} without a METHODS entry (whether {v} emits them is not known to this interpreter)")
    # memory opcodes
    use, dfn = set(g["MEMORY_USE_NAMES"]), set(g["MEMORY_DEF_NAMES"])
    for names, fn, key in table:
        meths = {s.method for s in I.sites_in(fn)}
        for f2 in own_nodes(fn):
            if isinstance(f2, ast.Call) and norm(f2.func) in ("self.generate_instructions", "super().generate_instructions", "super().visit_local_access"):
                meths.add("track_memory_access")
        if not meths & {"track_memory_access", "track_attribute_access"}:
            continue
        for op in names:
            is_load = op.startswith(("LOAD_", "IMPORT_FROM", "BINARY_SUBSCR", "BINARY_SLICE"))
            is_store = op.startswith(("STORE_", "DELETE_")) or op == "IMPORT_NAME"
            if "STORE_FAST_LOAD_FAST" == op:
                is_load = is_store = True
            if is_load:
                ctx.check("C09.groups", dnode, op in use, f"[{v}] {op} is traced as a memory access ({key}) but is not in MEMORY_USE_NAMES: the slicer includes the load yet never searches the definition of what it loads (data dependencies through it are missing from the slice)", what=f"[{v}] {op} is a memory use", stmt=f"[{v} use {op}]")
            if is_store:
                ctx.check("C09.groups", dnode, op in dfn, f"[{v}] {op} is traced as a memory access ({key}) but is not in MEMORY_DEF_NAMES: it is never recognised as the definition a pending use waits for (the store is missing from the slice)", what=f"[{v}] {op} is a memory definition", stmt=f"[{v} def {op}]")
    stores = set(g["STORE_NAMES"])
    bad = sorted(o for o in stores if not o.startswith("STORE_"))
    want = {o for o in traced if o in ("STORE_SUBSCR", "STORE_ATTR", "STORE_SLICE")}
    ctx.check("C09.groups", dnode, not bad and want <= stores, f"[{v}] STORE_NAMES = {sorted(stores)}: {bad} are no stores / {sorted(want - stores)} are missing - the stack simulation suppresses the uses of the operands of a store only, so the operands of {bad or sorted(want - stores)} are searched wrongly", what=f"[{v}] STORE_NAMES = traced attribute / element / slice stores", stmt=f"[{v} STORE_NAMES]")
    for n in ("MODIFY_FAST_NAMES", "MODIFY_NAME_NAMES", "MODIFY_GLOBAL_NAMES", "MODIFY_DEREF_NAMES"):
        ctx.check("C09.groups", dnode, set(g[n]) <= dfn, f"[{v}] {n} {sorted(set(g[n]) - dfn)} are not memory definitions", what=f"[{v}] {n} ⊆ MEMORY_DEF_NAMES", stmt=f"[{v} {n}]")


# the object an attribute / element / slice instruction reads from or writes to, as stack position before the instruction (x1 = top)
RECEIVER = {"LOAD_ATTR": "x1", "LOAD_METHOD": "x1", "DELETE_ATTR": "x1", "IMPORT_FROM": "x1", "STORE_ATTR": "x1", "LOAD_SUPER_ATTR": "x1",
            "BINARY_SUBSCR": "x2", "DELETE_SUBSCR": "x2", "STORE_SUBSCR": "x2", "BINARY_SLICE": "x3", "STORE_SLICE": "x3"}


def _operands(ctx, repo, v) -> None:
    gens = I.Generators(repo, v)
    table, dnode = _methods_table(repo, v)
    seen = set()
    for names, fn, key in table:
        for site in I.sites_in(fn):
            if site.method != "track_attribute_access":
                continue
            for op in site.opcodes or [None]:
                if op is None or op not in names or op not in RECEIVER or (id(site.call), op) in seen:
                    continue
                seen.add((id(site.call), op))
                reads, pushes = I.OPERANDS[op]
                for var in site.variants(op):
                    tag = f"[{v} {fn.name} {op}]"
                    try:
                        seq = gens.sequence(site.action, list(var), site.overriding)
                        _st, calls, _c = I.run_stack(seq, [f"x{i}" for i in range(reads, 0, -1)], I.OPERANDS[op] if site.overriding else None)
                    except (peval.Undecided, peval.Raises, I.StackError) as exc:
                        ctx.undecide("C09.operands", site.call, f"{tag}: {exc}")
                        continue
                    got = calls[0][1][-1] if calls else None
                    ctx.check("C09.operands", site.call, got == RECEIVER[op], f"{tag}: track_attribute_access receives {got}, the object {op} works on is {RECEIVER[op]} (x1 = top of the stack before the instruction): the access is recorded for another object, so it is never matched with the uses / definitions of the real one", what=f"{tag}: traced object = {RECEIVER[op]}", stmt=tag)


def _predicates(ctx, repo) -> None:
    ui = repo.cls(EFB, "UniqueInstruction")
    want = {"is_traced": "TRACED_NAMES", "is_def": "MEMORY_DEF_NAMES", "is_use": "MEMORY_USE_NAMES", "is_cond_branch": "COND_BRANCH_NAMES"}
    meths = repo.methods(ui)
    for name, table in want.items():
        fn = meths.get(name)
        if fn is None:
            raise AnalysisError(f"anchor vanished: UniqueInstruction.{name}")
        ctx.analysed(fn)
        r = next((s for s in fn.body if isinstance(s, ast.Return)), None)
        ctx.check("C09.groups", fn, r is not None and norm(r.value) == f"self.name in {table}", f"UniqueInstruction.{name} returns `{norm(r.value) if r else '?'}`, not membership in {table}", what=f"{name} reads {table}", stmt=f"[{name}]")


# ------------------------------------------------------------------------------------------------ stack effects
def _stackfx(ctx, repo, cur) -> None:
    mod = repo.module(I.VMOD + cur)
    fn = mod.functions.get("stack_effects")
    if fn is None:
        raise AnalysisError(f"{cur}: stack_effects vanished")
    ctx.analysed(fn)
    opname = list(_opcode.opname)

    def run(op, arg, jump):
        it = peval.Interp(resolver=peval.repo_resolver(repo), ctor_prefixes=("StackEffects",), consts={"opname": opname}, max_steps=100000)
        r = it.run_function(fn, [op, arg], {"jump": jump}, mod)
        if not (isinstance(r, peval.Term) and r.name == "StackEffects"):
            raise peval.Undecided(f"result {r!r}")
        vals = list(r.extra_args) + [r.fields.get("pops"), r.fields.get("pushes")]
        vals = [x for x in vals if x is not None]
        return vals[0], vals[1]

    for name, op in sorted(_opcode.opmap.items(), key=lambda kv: kv[1]):
        if name.startswith("INSTRUMENTED_") or op >= 256:
            continue  # written by sys.monitoring into live code / pseudo-instructions of the compiler
        has_arg = op >= _opcode.HAVE_ARGUMENT
        for arg in ([0, 1, 2, 3] if has_arg else [None]):
            for jump in ((False, True) if op in _opcode.hasjrel + _opcode.hasjabs or name in ("FOR_ITER", "SEND") else (False,)):
                tag = f"[{name} arg={arg} jump={jump}]"
                try:
                    want = dis.stack_effect(op, arg, jump=jump)
                except ValueError:
                    continue
                try:
                    p, q = run(op, arg, jump)
                except peval.Undecided as exc:
                    ctx.undecide("C09.stackfx", fn, f"{tag}: {exc}")
                    continue
                except peval.Raises as exc:
                    ctx.fail("C09.stackfx", fn, f"{tag}: stack_effects raises {exc.name}: the slicer aborts on a trace that contains the instruction", stmt=tag)
                    continue
                if q - p != want and name in DOCUMENTED_DEVIATIONS:
                    ctx.observe(f"{tag}: stack_effects gives {q - p}, dis.stack_effect {want} ({DOCUMENTED_DEVIATIONS[name]})")
                    continue
                ctx.check("C09.stackfx", fn, q - p == want, f"{tag}: stack_effects = pops {p}, pushes {q} (net {q - p}); the interpreter's net effect is {want}: from this instruction on the simulated stack attributes operands to the wrong instructions", what=f"{tag} net {want}", stmt=tag)


# ------------------------------------------------------------------------------------------------ gen/kill laws
def _kill(ctx, repo, cur) -> None:
    fn = repo.func(DS, "DynamicSlicer.check_explicit_data_dependency")
    ctx.analysed(fn)
    dmod = repo.module(DS)
    eimod = repo.module(EI)
    consts = {"operator.eq": operator.eq, "operator.contains": operator.contains}
    for n in ("MODIFY_FAST_NAMES", "MODIFY_NAME_NAMES", "MODIFY_GLOBAL_NAMES", "MODIFY_DEREF_NAMES", "IMPORT_NAME_NAMES"):
        consts[n] = tuple(_fold(repo, cur, n))
    cres = peval.repo_class_resolver(repo, only={"DynamicSlicer", "ExecutedMemoryInstruction", "ExecutedAttributeInstruction", "ExecutedInstruction", "SlicingContext"})

    def interp():
        return peval.Interp(resolver=peval.repo_resolver(repo), class_resolver=cres, consts=consts, max_steps=200000)

    def mk_ctx():
        return peval.Obj("SlicingContext", fields={"instr_in_slice": [], "local_var_uses": set(), "global_var_uses": set(), "nonlocal_var_uses": set(), "var_address_uses": set(),
                                                    "attr_uses": set(), "attribute_variables": set(), "instr_ctrl_deps": set()}, classes=["SlicingContext"])

    def mem(it, name, arg, addr, mutable, creation):
        return it.instantiate("ExecutedMemoryInstruction", cres("ExecutedMemoryInstruction", eimod), [], {"file": "f", "code_object_id": 1, "node_id": 0, "opcode": _opcode.opmap.get(name, 0), "argument": arg, "lineno": 3, "offset": 0,
                                                                                                        "arg_address": addr, "is_mutable_type": mutable, "object_creation": creation})

    def attr(it, name, arg, src, addr):
        return it.instantiate("ExecutedAttributeInstruction", cres("ExecutedAttributeInstruction", eimod), [], {"file": "f", "code_object_id": 1, "node_id": 0, "opcode": _opcode.opmap.get(name, 0), "argument": arg, "lineno": 3, "offset": 0,
                                                                                                              "src_address": src, "arg_address": addr, "is_mutable_type": True, "is_method": False})

    def uinstr(name):
        return peval.Obj("UniqueInstruction", fields={"is_def": True, "file": "f", "code_object_id": 1, "name": name})

    def run(it, context, traced, name):
        slicer = it.instantiate("DynamicSlicer", cres("DynamicSlicer", dmod), [{}], {})
        return slicer.methods["check_explicit_data_dependency"](context, traced, uinstr(name))

    OBJ = 0x7F00
    cases = []
    # L1 partial definition: attribute store into an object whose address is pending
    def l1(it):
        c = mk_ctx(); c.fields["var_address_uses"] = {hex(OBJ)}
        r1 = run(it, c, attr(it, "STORE_ATTR", "rate", OBJ, 0x11), "STORE_ATTR")
        kept = hex(OBJ) in c.fields["var_address_uses"]
        r2 = run(it, c, attr(it, "STORE_ATTR", "limit", OBJ, 0x12), "STORE_ATTR")
        return r1[0] is True and kept and r2[0] is True, f"first store -> {r1[0]}, pending address kept: {kept}, earlier store to another attribute -> {r2[0]}"
    cases.append(("partial definition keeps the pending address use (every attribute store into the object is a dependency)", l1))
    def l2(it):
        c = mk_ctx(); c.fields["local_var_uses"] = {("x", 1), ("y", 1), ("x", 2)}
        r = run(it, c, mem(it, "STORE_FAST", "x", 0x21, False, False), "STORE_FAST")
        return r[0] is True and c.fields["local_var_uses"] == {("y", 1), ("x", 2)}, f"result {r[0]}, pending uses afterwards {sorted(c.fields['local_var_uses'])}"
    cases.append(("complete definition of a local kills exactly its pending use", l2))
    def l3(it):
        c = mk_ctx(); c.fields["local_var_uses"] = {("y", 1)}; c.fields["var_address_uses"] = {hex(0x99)}
        r = run(it, c, mem(it, "STORE_FAST", "x", 0x21, True, False), "STORE_FAST")
        return r[0] is False and c.fields["local_var_uses"] == {("y", 1)} and c.fields["var_address_uses"] == {hex(0x99)}, f"result {r[0]}, uses {sorted(c.fields['local_var_uses'])}, addresses {sorted(c.fields['var_address_uses'])}"
    cases.append(("an unrelated definition is no dependency and removes nothing", l3))
    def l4(it):
        c = mk_ctx(); c.fields["var_address_uses"] = {hex(OBJ), hex(0x99)}
        r = run(it, c, mem(it, "STORE_FAST", "box", OBJ, True, True), "STORE_FAST")
        return r[0] is True and c.fields["var_address_uses"] == {hex(0x99)}, f"result {r[0]}, addresses afterwards {sorted(c.fields['var_address_uses'])}"
    cases.append(("creation of the object kills the pending use of its address", l4))
    def l5(it):
        key = f"{hex(OBJ)}_rate"
        c = mk_ctx(); c.fields["attr_uses"] = {key, f"{hex(OBJ)}_limit"}
        r = run(it, c, attr(it, "STORE_ATTR", "rate", OBJ, 0x11), "STORE_ATTR")
        return r[0] is True and c.fields["attr_uses"] == {f"{hex(OBJ)}_limit"}, f"result {r[0]}, attribute uses afterwards {sorted(c.fields['attr_uses'])}"
    cases.append(("definition of an attribute kills exactly the pending use of that attribute", l5))
    def l6(it):
        c = mk_ctx(); c.fields["attr_uses"] = {f"{hex(0x55)}_rate"}
        r = run(it, c, attr(it, "STORE_ATTR", "rate", OBJ, 0x11), "STORE_ATTR")
        return r[0] is False and c.fields["attr_uses"] == {f"{hex(0x55)}_rate"}, f"result {r[0]}, attribute uses afterwards {sorted(c.fields['attr_uses'])}"
    cases.append(("the same attribute of another object is no dependency", l6))
    def l7(it):
        c = mk_ctx(); c.fields["global_var_uses"] = {("G", "f"), ("G", "other")}
        r = run(it, c, mem(it, "STORE_GLOBAL", "G", 0x31, False, False), "STORE_GLOBAL")
        return r[0] is True and c.fields["global_var_uses"] == {("G", "other")}, f"result {r[0]}, global uses afterwards {sorted(c.fields['global_var_uses'])}"
    cases.append(("definition of a global kills the pending use in the same file only", l7))
    def l8(it):
        c = mk_ctx(); c.fields["local_var_uses"] = {("x", 1)}
        r = run(it, c, None, "STORE_FAST")
        return r[0] is False and c.fields["local_var_uses"] == {("x", 1)}, f"result {r[0]}"
    cases.append(("an instruction without a trace entry defines nothing", l8))
    for what, f in cases:
        tag = f"[kill] {what}"
        try:
            ok, detail = f(interp())
        except peval.Undecided as exc:
            ctx.undecide("C09.kill", fn, f"{tag}: {exc}")
            continue
        except peval.Raises as exc:
            ctx.fail("C09.kill", fn, f"{tag}: check_explicit_data_dependency raises {exc.name} ({exc.detail[:60]})", stmt=tag)
            continue
        ctx.check("C09.kill", fn, ok, f"{tag}: {detail} - definitions the sliced value depends on drop out of the slice (or unrelated ones enter it)", what=tag, stmt=tag)


# ------------------------------------------------------------------------------------------------ lines
def _lines(ctx, repo) -> None:
    fn = repo.func(DS, "DynamicSlicer.map_instructions_to_lines")
    gl = repo.func(DS, "DynamicSlicer.get_line_id_by_instruction")
    ctx.analysed(fn)
    ctx.analysed(gl)
    dmod = repo.module(DS)

    def ins(file, line):
        return peval.Obj("UniqueInstruction", fields={"file": file, "lineno": line})

    def meta(file, line):
        return peval.Obj("LineMetaData", fields={"file_name": file, "line_number": line})

    sp = peval.Obj("SubjectProperties", fields={"existing_lines": {0: meta("f", 1), 1: meta("f", 2), 2: meta("g", 2), 3: meta("f", 7)}})
    it = peval.Interp(resolver=peval.repo_resolver(repo), consts={"AST_FILENAME": "<ast>"}, externs={"DynamicSlicer.get_line_id_by_instruction": lambda i, s: it.run_function(gl, [i, s], {}, dmod)})
    try:
        got = it.run_function(fn, [[ins("f", 2), ins("f", 2), ins("<ast>", 1), ins("f", 7), ins("f", 2)], sp], {}, dmod)
        ctx.check("C09.lines", fn, got == {1, 3}, f"map_instructions_to_lines maps instructions on f:2, f:2, <test>:1, f:7, f:2 to line ids {sorted(got) if isinstance(got, set) else got} (registered: 0=f:1, 1=f:2, 2=g:2, 3=f:7): checked lines are reported that no instruction of the slice is on", what="slice instructions map to the ids of their own (file, line); test statements are skipped", stmt="[lines map]")
    except peval.Undecided as exc:
        ctx.undecide("C09.lines", fn, f"map_instructions_to_lines: {exc}")
    except peval.Raises as exc:
        ctx.fail("C09.lines", fn, f"map_instructions_to_lines raises {exc.name} for a slice that contains an instruction of a test statement", stmt="[lines map]")
    # provenance of the slice
    sl = repo.func(DS, "DynamicSlicer.slice")
    th = repo.func(DS, "DynamicSlicer._trace_housekeeping")
    su = repo.func(DS, "DynamicSlicer._setup_slicing_configuration")
    allowed = {"state.instr", "previous_frame_import_back_call", "slc.state.instr", "instr", "unique_instr"}
    n = 0
    for f in (sl, th, su):
        ctx.analysed(f)
        for c in own_nodes(f):
            if isinstance(c, ast.Call) and norm(c.func).endswith("instr_in_slice.append"):
                n += 1
                a = norm(c.args[0])
                ctx.check("C09.lines", c, a in allowed, f"{f.name} appends `{a}` to the slice: not the instruction of the traversal state / the import call", what=f"{f.name}: slice grows by `{a}`", stmt=f"[provenance {f.name} {a}]")
    if n == 0:
        raise AnalysisError("no append to instr_in_slice found in the slicer")
    cs = repo.func("pynguin.ga.checked_coverage", "compute_statement_checked_lines")
    ctx.analysed(cs)
    flows = any(isinstance(s, ast.Assign) and norm(s.targets[0]) == "statement_checked_lines" and "map_instructions_to_lines" in norm(s.value) and "statement_slice" in norm(s.value) for s in own_nodes(cs))
    upd = any(isinstance(c, ast.Call) and norm(c.func) == "checked_lines_ids.update" and norm(c.args[0]) == "statement_checked_lines" for c in own_nodes(cs))
    ctx.check("C09.lines", cs, flows and upd, "compute_statement_checked_lines no longer reports exactly map_instructions_to_lines(slice of the statement)", what="checked lines of a statement = lines of its slice", stmt="[checked lines flow]")


def _frame_flag(ctx, repo) -> None:
    """SlicingContext.code_object_dependent is one scalar for all frames the backward walk passes through: a value that
    accumulates over instructions (`flag = flag or ...`) mixes the frames - what was gathered for an outer callee is
    overwritten when the walk enters and leaves a nested callee.  Every assignment computes the flag from the current
    instruction's state only (a per-frame accumulation needs a stack, which would not be this field)."""
    fn = repo.try_func(DS, "DynamicSlicer.slice")
    if fn is None:
        raise AnalysisError("anchor vanished: DynamicSlicer.slice")
    ctx.analysed(fn)
    n = 0
    for st in own_nodes(fn):
        if isinstance(st, ast.AugAssign) and isinstance(st.target, ast.Attribute) and st.target.attr == "code_object_dependent":
            n += 1
            ctx.fail("C09.frame-flag", st, f"`{norm(st)[:80]}` accumulates the per-code-object flag in a scalar", stmt="[flag] augmented assignment")
        if isinstance(st, ast.Assign) and any(isinstance(t, ast.Attribute) and t.attr == "code_object_dependent" for t in st.targets):
            n += 1
            reads = [x for x in ast.walk(st.value) if isinstance(x, ast.Attribute) and x.attr == "code_object_dependent"]
            ctx.check("C09.frame-flag", st, not reads, f"`{norm(st)[:90]}` computes the flag from its own previous value: the scalar is shared by all frames of the backward walk, so after a nested callee was entered and left the outer callee looks as if it had contributed nothing - its CALL is dropped from the slice although instructions inside it are in the slice (checked lines lose executed call lines)", what="flag computed from the current instruction's state only", stmt=f"[flag] {norm(st)[:50]}")
    if n < 2:
        raise AnalysisError(f"C09.frame-flag: only {n} assignments of code_object_dependent in DynamicSlicer.slice (confirmed by reading: 2)")
