"""C31 — in-process and subprocess execution agree.

Decides the protocol agreement between the parent and the child process by code shape:
 * every positional argument that is named like a parameter of its callee sits at that parameter's
   position (process arguments vs _execute_test_cases_in_subprocess, and the inner
   TestCaseExecutor(...) construction): the child runs with the parent's timeouts and observers;
 * the tuple the child sends and the names the parent unpacks agree in length and role, the RNG
   state that is sent is the one that is installed, the tracer state getter and setter use the same
   keys;
 * _fix_result_for_pickle has a filter / clear handler pair for every ExecutionResult field that can
   carry objects of the module under test;
 * cloning an assertion under an identity (or empty) variable memo - what the parent does to the
   child's assertion trace - preserves its source including an attribute path and its payload
   (interpreted from source for every reference assertion class).
 * every attribute of TestCaseExecutor that a setter can change after construction and that the
   execution path reads reaches the child process, which uses every parameter it receives;
 * _fix_assertion_trace, interpreted over a trace with assertions at binding and non-binding
   positions, re-adds every assertion at its position with its source renamed.
Equality of the executions themselves is not decided.
Further clauses (added later): C31.aux: every executor the subprocess executor builds for itself receives this
executor's module provider and time bounds.
"""

from __future__ import annotations

import ast
import re

from sa.engine import peval
from sa.engine.index import AnalysisError, last_attr, norm, own_nodes, parent

SUB = "pynguin.testcase.subprocess_executor"
EXE = "pynguin.testcase.execution"
RES = "pynguin.testcase.execution_result"
ASS = "pynguin.assertion.assertion"
TR = "pynguin.instrumentation.tracer"
CLS = "SubprocessTestCaseExecutor"


def _plain(text: str) -> str:
    t = text.split("(")[0]
    t = re.sub(r"^self\.", "", t)
    return t.lstrip("_")


def check_positional_names(ctx, rule, call, params, where):
    """Every positional argument whose (de-prefixed) name equals a parameter name must be at that parameter's index."""
    pnames = [p.lstrip("_") for p in params]
    bad = []
    for i, a in enumerate(call.args):
        if isinstance(a, ast.Starred):
            return
        nm = _plain(norm(a))
        if nm in pnames and pnames.index(nm) != i:
            bad.append(f"argument {i} `{norm(a)}` is bound to parameter `{params[i] if i < len(params) else '?'}` instead of `{params[pnames.index(nm)]}`")
    ctx.check(rule, call, not bad, f"{where}: {'; '.join(bad)}: the child process runs with other settings than the in-process executor", what=f"{where}: name-like arguments at their parameters' positions")


def _self_attrs(fn, load: bool):
    out = set()
    for n in own_nodes(fn):
        if load and isinstance(n, ast.Attribute) and norm(n.value) == "self" and isinstance(n.ctx, ast.Load):
            out.add(n.attr)
        if not load:
            if isinstance(n, (ast.Assign, ast.AugAssign, ast.AnnAssign)):
                for t in n.targets if isinstance(n, ast.Assign) else [n.target]:
                    if isinstance(t, ast.Attribute) and norm(t.value) == "self":
                        out.add(t.attr)
            if isinstance(n, ast.Call) and isinstance(n.func, ast.Attribute) and n.func.attr in ("append", "add", "clear", "extend", "update", "remove", "discard", "pop") and isinstance(n.func.value, ast.Attribute) and norm(n.func.value.value) == "self":
                out.add(n.func.value.attr)
    return out


def _reach(meths, roots):
    seen, todo = set(), list(roots)
    while todo:
        m = todo.pop()
        if m in seen or m not in meths:
            continue
        seen.add(m)
        for n in own_nodes(meths[m], include_nested=True):
            if isinstance(n, ast.Attribute) and norm(n.value) == "self" and n.attr in meths:
                todo.append(n.attr)
    return seen


class _RepAssertion:
    def __init__(self, source, tag):
        self.source, self.tag = source, tag

    def clone(self, memo):
        root, dot, rest = self.source.partition(".")
        return _RepAssertion(memo.get(root, root) + dot + rest, self.tag)


class _RepTrace:
    def __init__(self, entries):
        self.entries = {k: list(v) for k, v in entries.items()}

    def get_all_assertions(self):
        return {k: list(v) for k, v in self.entries.items()}

    def clear(self):
        self.entries.clear()

    def add_entry(self, position, assertion):
        self.entries.setdefault(position, []).append(assertion)


def _relink(ctx, repo) -> None:
    """_fix_assertion_trace interpreted over a trace with assertions at binding and non-binding positions:
    every recorded assertion is re-added at its position, sources renamed through the bindings."""
    fn = repo.func(SUB, "SubprocessTestCaseExecutor._fix_assertion_trace")
    ctx.analysed(fn)
    old = {0: "var_0", 2: "var_1"}
    new = {0: "int_0", 2: "obj_0"}
    entries = {0: [_RepAssertion("int_0", "a")], 1: [_RepAssertion("obj_9", "exception at a statement that binds nothing")], 2: [_RepAssertion("obj_0.field", "b"), _RepAssertion("int_0", "c")], 3: [_RepAssertion("obj_0", "after the last binding")]}
    trace = _RepTrace(entries)
    try:
        peval.Interp(resolver=peval.repo_resolver(repo), native_types=(_RepTrace, _RepAssertion)).run_function(fn, [trace, old, new], {}, repo.module(SUB))
    except (peval.Undecided, peval.Raises) as exc:
        ctx.undecide("C31.relink", fn, str(exc))
        return
    want = {0: [("var_0", "a")], 1: [("obj_9", "exception at a statement that binds nothing")], 2: [("var_1.field", "b"), ("var_0", "c")], 3: [("var_1", "after the last binding")]}
    got = {k: [(a.source, a.tag) for a in v] for k, v in trace.entries.items() if v}
    for pos in sorted(want):
        ctx.check("C31.relink", fn, got.get(pos) == want[pos], f"position {pos}: the trace received from the subprocess held {[(a.source, a.tag) for a in entries[pos]]}, after re-linking it holds {got.get(pos)} (expected {want[pos]}): an assertion recorded in the child - e.g. the ExceptionAssertion of a raising statement that binds no variable - is lost or attached to another variable in subprocess mode only", what=f"assertions of position {pos} re-linked", stmt=f"[position {pos}]")
    extra = sorted(set(got) - set(want))
    ctx.check("C31.relink", fn, not extra, f"re-linking adds assertions at positions {extra}", what="no assertion invented", stmt="[extra]")


def _configuration_transfer(ctx, repo) -> None:
    """State of the in-process executor that callers configure after construction (setters) and that the
    execution path reads must reach the executor the child process builds."""
    base = repo.methods(repo.cls(EXE, "TestCaseExecutor"))
    sub = repo.methods(repo.cls(SUB, "SubprocessTestCaseExecutor"))
    init_attrs = _self_attrs(base["__init__"], load=False)
    run_path = _reach(base, ["execute", "execute_multiple"])
    read_on_run = set().union(*[_self_attrs(base[m], load=True) for m in run_path])
    configurable = {}
    for name, fn in base.items():
        if name.startswith("__") or name in run_path:
            continue
        for a in _self_attrs(fn, load=False) & init_attrs & read_on_run:
            configurable.setdefault(a, []).append(name)
    setup = sub.get("_setup_subprocess_execution")
    if setup is None:
        raise AnalysisError("anchor vanished: SubprocessTestCaseExecutor._setup_subprocess_execution")
    ctx.analysed(setup)
    all_meths = {**base, **sub}
    handed = set().union(*[_self_attrs(all_meths[m], load=True) for m in _reach(all_meths, ["_setup_subprocess_execution"]) if m not in run_path or m == "_yield_remote_observers"])
    if not configurable:
        raise AnalysisError("no configurable execution state found on TestCaseExecutor")
    for attr, setters in sorted(configurable.items()):
        ctx.check("C31.transfer", setup, attr in handed, f"`self.{attr}` is set through {sorted(setters)} and read while a test case executes, but _setup_subprocess_execution does not hand it to the child process: the executor built there starts from the configuration defaults, so the same test case is executed differently in a subprocess (with set_instrument(True), the assertion observer finds uninstrumented assertion code, the worker thread dies and the result is a timeout with an empty trace)", what=f"{attr} ({', '.join(sorted(setters))}) reaches the child", stmt=f"[transfer] {attr}")
    # and the child applies what it was handed: every parameter of the child function is used
    child = sub.get("_execute_test_cases_in_subprocess")
    used = {n.id for n in ast.walk(child) if isinstance(n, ast.Name) and isinstance(n.ctx, ast.Load)}
    for a in [*child.args.posonlyargs, *child.args.args, *child.args.kwonlyargs]:
        if a.arg.startswith("_"):
            continue
        ctx.check("C31.transfer", child, a.arg in used, f"the child process receives `{a.arg}` and never uses it", what=f"child uses {a.arg}", stmt=f"[used] {a.arg}")


def check(ctx) -> None:
    repo = ctx.repo
    ctx.rule("C31.aux", "every executor the subprocess executor constructs for itself receives this executor's module provider and time bounds (arguments bound against the constructor's parameters)", floor=6)
    _aux_executors(ctx, repo)
    ctx.rule("C31.args", "positional arguments named like a parameter of the callee are at that parameter's position (process args, inner executor construction)", floor=2)
    ctx.rule("C31.transfer", "sibling agreement: every attribute of TestCaseExecutor that a setter can change after construction and that the execution path reads is handed to the child process by _setup_subprocess_execution, and the child uses every parameter it receives", floor=10)
    _configuration_transfer(ctx, repo)
    ctx.rule("C31.relink", "ABSINT: _fix_assertion_trace over a trace with assertions at binding and non-binding positions re-adds every assertion at its position with its source renamed through the bindings", floor=5)
    _relink(ctx, repo)
    ctx.rule("C31.pipe", "the tuple sent by the child and the names unpacked by the parent agree in length and role; the RNG state sent is installed; results are zipped with the bindings they were created from", floor=4)
    ctx.rule("C31.state", "ExecutionTracer.state getter and setter use the same keys", floor=1)
    ctx.rule("C31.fix", "_fix_result_for_pickle has a filter and a clear handler for every ExecutionResult field that can carry SUT objects", floor=6)
    ctx.rule("C31.clone", "ABSINT: assertion.clone(memo) with an identity or empty memo preserves the source (incl. attribute path) and payload for every reference assertion class", floor=15)

    mod = repo.module(SUB)
    # ------------------------------------------------------------------ C31.args
    setup = repo.func(SUB, f"{CLS}._setup_subprocess_execution")
    child = repo.func(SUB, f"{CLS}._execute_test_cases_in_subprocess")
    ctx.analysed(setup)
    ctx.analysed(child)
    args_def = next((n for n in own_nodes(setup) if isinstance(n, ast.Assign) and norm(n.targets[0]) == "args" and isinstance(n.value, ast.Tuple)), None)
    proc = next((n for n in own_nodes(setup) if isinstance(n, ast.Call) and norm(n.func) in ("mp.Process", "multiprocessing.Process")), None)
    if args_def is None or proc is None:
        raise AnalysisError("_setup_subprocess_execution: args tuple / mp.Process not found")
    cparams = [a.arg for a in child.args.args]
    target = next((norm(k.value) for k in proc.keywords if k.arg == "target"), "")
    ok = target.endswith("_execute_test_cases_in_subprocess") and len(args_def.value.elts) == len(cparams)
    ctx.check("C31.args", proc, ok, f"mp.Process passes {len(args_def.value.elts)} arguments to a target with {len(cparams)} parameters", what="process args match the target's arity", stmt="[arity]")
    fake = ast.Call(func=ast.Name(id="target", ctx=ast.Load()), args=list(args_def.value.elts), keywords=[])
    fake.lineno = args_def.lineno
    for x in [fake]:
        x._parent = args_def  # type: ignore[attr-defined]
        x._module = mod  # type: ignore[attr-defined]
        x._func = setup  # type: ignore[attr-defined]
    check_positional_names(ctx, "C31.args", fake, cparams, "mp.Process(args=...) -> _execute_test_cases_in_subprocess")
    # roles of the non-name-like ones
    roles = {"remote_observers": "remote_observers", "test_cases": "test_cases_tuple", "sending_connection": "sending_connection", "references_bindings": "references_bindings"}
    for p, want in roles.items():
        i = cparams.index(p) if p in cparams else None
        ctx.check("C31.args", args_def, i is not None and i < len(args_def.value.elts) and norm(args_def.value.elts[i]) == want, f"process argument for `{p}` is `{norm(args_def.value.elts[i]) if i is not None and i < len(args_def.value.elts) else None}`", what=f"{p} <- {want}", stmt=f"[{p}]")
    inner = next((n for n in own_nodes(child) if isinstance(n, ast.Call) and norm(n.func) == "TestCaseExecutor"), None)
    init = repo.func(EXE, "TestCaseExecutor.__init__")
    if inner is None:
        raise AnalysisError("child no longer constructs a TestCaseExecutor")
    check_positional_names(ctx, "C31.args", inner, [a.arg for a in init.args.args][1:], "TestCaseExecutor(...) in the child")
    sup = repo.func(SUB, f"{CLS}.__init__")
    for c in own_nodes(sup):
        if isinstance(c, ast.Call) and norm(c.func) == "super().__init__":
            check_positional_names(ctx, "C31.args", c, [a.arg for a in init.args.args][1:], "SubprocessTestCaseExecutor.__init__ -> super().__init__")

    # ------------------------------------------------------------------ C31.pipe
    send = next((n for n in own_nodes(child) if isinstance(n, ast.Call) and norm(n.func) == "sending_connection.send" and n.args and isinstance(n.args[0], ast.Tuple)), None)
    recv_fn = repo.func(SUB, f"{CLS}._process_subprocess_results")
    ctx.analysed(recv_fn)
    unpack = next((n for n in own_nodes(recv_fn) if isinstance(n, ast.Assign) and isinstance(n.targets[0], ast.Tuple) and norm(n.value) == "return_value"), None)
    if send is None or unpack is None:
        raise AnalysisError("pipe protocol: send tuple / unpacking not found")
    sent = [norm(e) for e in send.args[0].elts]
    got = [norm(e) for e in unpack.targets[0].elts]
    ctx.check("C31.pipe", send, len(sent) == len(got), f"the child sends {len(sent)} values, the parent unpacks {len(got)}", what=f"{len(sent)} values sent and unpacked")
    # roles by position: what the child puts at position i is what the parent uses the i-th unpacked name for
    def at(pred):
        i = next((k for k, e in enumerate(sent) if pred(e)), None)
        return got[i] if i is not None and i < len(got) else None

    rng_name = at(lambda e: e.endswith("RNG.getstate()"))
    tracer_name = at(lambda e: e.endswith("instrumentation_tracer.tracer"))
    provider_name = at(lambda e: e == "module_provider")
    results_name = at(lambda e: e == "results")
    bindings_name = at(lambda e: "references_bindings" in e)
    ok = None not in (rng_name, tracer_name, provider_name, results_name, bindings_name) and len({rng_name, tracer_name, provider_name, results_name, bindings_name}) == 5
    ctx.check("C31.pipe", unpack, ok, f"sent {sent} is unpacked as {got}: tracer, module provider, results, new bindings and RNG state cannot be told apart by position", what="the 5 values have one position each", stmt="[roles]")
    ok = rng_name is not None and any(isinstance(n, ast.Call) and norm(n.func).endswith("RNG.setstate") and n.args and norm(n.args[0]) == rng_name for n in own_nodes(recv_fn))
    ctx.check("C31.pipe", recv_fn, ok, "the RNG state sent by the child is not the one installed in the parent", what="RNG state carried back", stmt="[rng]")
    z = next((n for n in own_nodes(recv_fn) if isinstance(n, ast.Call) and norm(n.func) == "zip" and results_name in [norm(a) for a in n.args]), None)
    zargs = [norm(a) for a in z.args] if z is not None else []
    ok = z is not None and len(zargs) == 3 and zargs[0] == results_name and zargs[2] == bindings_name and "references_bindings" in zargs[1] and zargs[1] != bindings_name and any(k.arg == "strict" and norm(k.value) == "True" for k in z.keywords)
    ctx.check("C31.pipe", z or recv_fn, ok, "results are not zipped (strictly) with the old and new reference bindings in that order", what="zip(results, old bindings, new bindings, strict=True)", stmt="[zip]")
    st = [n for n in own_nodes(recv_fn) if isinstance(n, ast.Assign) and norm(n.targets[0]).endswith("instrumentation_tracer.tracer.state")]
    ctx.check("C31.pipe", st[0] if st else recv_fn, len(st) == 1 and norm(st[0].value) == f"{tracer_name}.state", "the tracer state of the child is not installed in the parent's tracer", what="tracer state carried back", stmt="[tracer-state]")

    # ------------------------------------------------------------------ C31.state
    getter = repo.func(TR, "ExecutionTracer.state")
    setter = repo.try_func(TR, "ExecutionTracer.state@setter")
    if setter is None:
        raise AnalysisError("ExecutionTracer.state setter vanished")
    gkeys = set()
    for d in [n for n in own_nodes(getter) if isinstance(n, ast.Dict)]:
        for k in d.keys:
            gkeys.add(norm(k))
    skeys = {norm(n.slice) for n in own_nodes(setter) if isinstance(n, ast.Subscript) and norm(n.value).startswith("state")}
    ctx.check("C31.state", setter, gkeys == skeys, f"state getter writes keys {sorted(gkeys)}, setter reads {sorted(skeys)}", what=f"state keys agree: {sorted(gkeys)}")

    # ------------------------------------------------------------------ C31.fix
    er = repo.cls(RES, "ExecutionResult")
    fix = repo.func(SUB, f"{CLS}._fix_result_for_pickle")
    ctx.analysed(fix)
    fixed_text = " ".join(norm(n) for n in own_nodes(fix) if isinstance(n, ast.Call) and last_attr(n) == "_fix_unpicklable")
    PLAIN = re.compile(r"^(bool|int|float|str)$")
    for name, ann, _v in repo.dataclass_fields(er):
        a = norm(ann)
        if PLAIN.match(a) or name in ("assertion_verification_trace",):
            continue  # cannot carry SUT objects (counters / index sets)
        if name == "execution_trace":
            key = "result.execution_trace.executed_assertions"
        elif name == "assertion_trace":
            key = "result.assertion_trace"
        else:
            key = f"result.{name}"
        has = key in fixed_text
        stem = {"execution_trace": "executed_assertions", "assertion_trace": "assertions"}.get(name, name)
        stem = stem.rstrip("s")
        handlers = [q for q in mod.functions if q.startswith(("_filter_bad_", "_clear_bad_")) and stem.replace("_trace", "") in q]
        ctx.check("C31.fix", fix, has and len(handlers) >= 2, f"ExecutionResult.{name} ({a}) can carry objects of the module under test but _fix_result_for_pickle has no filter/clear pair for it: an unpicklable value crashes the child and the whole batch falls back to another execution mode", what=f"{name}: filter + clear handler", stmt=f"[{name}]")

    # ------------------------------------------------------------------ C31.clone
    amod = repo.module(ASS)
    resolver = peval.repo_resolver(repo)
    cres = peval.repo_class_resolver(repo, only={"TypeNameAssertion", "FloatAssertion", "ObjectAssertion", "IsInstanceAssertion", "CollectionLengthAssertion", "ReferenceAssertion", "Assertion", "ExceptionAssertion"})
    CASES = {
        "TypeNameAssertion": ["mod", "Outer.Inner"],
        "FloatAssertion": [0.75],
        "ObjectAssertion": [[1, "a"]],
        "IsInstanceAssertion": ["builtins", "dict"],
        "CollectionLengthAssertion": [3],
    }
    for cname, payload in CASES.items():
        if cname not in amod.classes:
            raise AnalysisError(f"assertion class vanished: {cname}")
        ctx.analysed(repo.methods(amod.classes[cname])["clone"])
        for source in ("var_0", "var_0.field", "gauge_0.inner.level"):
            root = source.split(".")[0]
            for memo in ({}, {root: root}, {"other_1": "other_1"}):
                it = peval.Interp(resolver=resolver, class_resolver=cres)
                try:
                    obj = it.instantiate(cname, cres(cname, amod), [source, *payload], {})
                    cl = obj.methods["clone"](dict(memo))
                except peval.Undecided as exc:
                    ctx.undecide("C31.clone", amod.classes[cname], f"{cname}({source!r}) memo={memo}: {exc}")
                    continue
                except peval.Raises as exc:
                    ctx.fail("C31.clone", amod.classes[cname], f"{cname}({source!r}).clone({memo}) raises {exc.name}", stmt=f"[{cname}] {source} {sorted(memo)}")
                    continue
                same_payload = all(cl.fields.get(k) == v for k, v in obj.fields.items() if k != "_source") and cl.classes[0] == cname
                ctx.check("C31.clone", amod.classes[cname], cl.fields.get("_source") == source and same_payload, f"{cname}({source!r}).clone({memo}) has source {cl.fields.get('_source')!r}: the assertion trace that comes back from the subprocess names another reference than the in-process one", what=f"{cname} {source} memo={sorted(memo)} -> unchanged", stmt=f"[{cname}] {source} {sorted(memo)}")
    fat = repo.func(SUB, f"{CLS}._fix_assertion_trace")
    ctx.analysed(fat)


def _aux_executors(ctx, repo) -> None:
    """Every executor the subprocess executor builds for itself (the per-test fallback, the executor inside the child)
    works on the same module provider - the one that holds the mutated modules - and the same time bounds."""
    SUB = "pynguin.testcase.subprocess_executor"
    EXE = "pynguin.testcase.execution"
    n = 0
    for mod, qn, fn in repo.all_functions(SUB):
        for c in own_nodes(fn):
            if not (isinstance(c, ast.Call) and last_attr(c) in ("SubprocessTestCaseExecutor", "TestCaseExecutor")):
                continue
            callee = repo.func(SUB if last_attr(c) == "SubprocessTestCaseExecutor" else EXE, f"{last_attr(c)}.__init__")
            params = [a.arg for a in callee.args.args][1:]
            bound = dict(zip(params, c.args))
            bound.update({k.arg: k.value for k in c.keywords if k.arg})
            n += 1
            ctx.analysed(fn)
            for p in ("module_provider", "maximum_test_execution_timeout", "test_execution_time_per_statement"):
                if p not in params:
                    continue
                got = norm(bound[p]) if p in bound else None
                ok = got is not None and got.split(".")[-1].lstrip("_") == p
                ctx.check("C31.aux", c, ok, f"{mod.name}:{qn}: the auxiliary `{last_attr(c)}(...)` gets `{got}` for `{p}`" + (" (the default: a fresh ModuleProvider without the registered mutants - the tests of a failed batch are re-run against the original module)" if p == "module_provider" and got is None else " (the default instead of this executor's own bound)" if got is None else ""), what=f"{qn}: auxiliary executor shares {p}", stmt=f"[{qn}] {last_attr(c)}(...).{p}")
    if n < 2:
        raise AnalysisError(f"C31.aux: only {n} auxiliary executor constructions found (confirmed by reading: 2)")
