"""C16 — the same seed and budget reproduce the same test suite.

Decides absence of the static sources of run-to-run variation on the generation path:
 * C16.rng: randomness comes from pynguin.utils.randomness only - no call into the global `random`
   module, no unseeded Random(), os.urandom / uuid / secrets / numpy.random outside the enumerated
   seeding sites; time values never feed a choice;
 * C16.set-order: every place where the iteration order of a hashed set (set / frozenset display,
   comprehension, constructor, set algebra, names / attributes / functions annotated as sets,
   values of dicts of sets, names narrowed by `isinstance(v, set)` / `is_set(type(v))`) becomes observable - a `for`, a list / generator comprehension, list(),
   tuple(), OrderedSet(), join(), pop(), next(iter()) - is either consumed by an order-insensitive
   construct, wrapped in sorted(), or is one of the sites read and frozen in TRIAGE with a reason.
 * C16.hash-value: hash() values only feed __hash__ or a cached hash attribute.
Determinism of the module under test, of dict orders derived from module namespaces, and of thread
timing is not decided.
Further clauses (added later): sorted(..., key=...) sites are accepted only with an injective key from an
enumerated table.
"""

from __future__ import annotations

import ast
import re

from sa.engine.index import AnalysisError, last_attr, norm, own_nodes, parent

OFF_PATH = ("pynguin.large_language_model", "pynguin.refinement")
RNG_ALLOWED = {
    "pynguin.utils.randomness": "the seeded generator itself",
    "pynguin.utils.pynguinml.np_rng": "numpy generator seeded from pynguin's RNG",
}
RNG_FUNCS_ALLOWED = {
    ("pynguin.generator", "_setup_random_number_generator"): "seeds the generators once from the configured seed",
    ("pynguin.testcase.execution_isolation", "*"): "patches / reseeds the SUT's random module around executions (C30)",
    ("pynguin.testcase.execution", "*"): "reseeding of tracked Random instances before executions (C30)",
}

# Sites where the iteration order of a hashed set is observable, read one by one.
# key: (module, function, kind, iterated expression)
TRIAGE = {
    ("pynguin.analyses.module", "collect_provider_metrics", "for", "params"): "statistics only: per-parameter counters are summed, nothing order-dependent is emitted",
    ("pynguin.analyses.module", "_serialize_helper", "list", "obj"): "statistics only: JSON default hook for the SignatureInfos output variable; nothing of it reaches a test file",
    ("pynguin.assertion.assertiongenerator", "_select_minimal_assertions", "for", "keep"): "accumulates the union of kill sets",
    ("pynguin.ga.operators.comparator", "DominanceComparator.__init__", "OrderedSet", "{goal}"): "singleton set",
    ("pynguin.ga.postprocess", "_add_backward_dependencies", "for", "statement.used_variables()"): "only adds to the protected set; fixed point is order-independent",
    ("pynguin.generator", "_check_sut_uses_random", "for", "new_module_names"): "existential test, returns a bool",
    ("pynguin.instrumentation.controlflow", "ControlDependenceGraph.compute", "pop", "predecessors"): "asserted to hold exactly one element (tree parent)",
    ("pynguin.instrumentation.transformer", "InstrumentationTransformer._create_covered_cdg", "for", "predecessors"): "adds graph edges (a set of edges) between basic-block nodes hashed by index",
    ("pynguin.instrumentation.transformer", "InstrumentationTransformer._create_covered_cdg", "for", "successors"): "adds graph edges (a set of edges) between basic-block nodes hashed by index",
    ("pynguin.slicer.dynamicslicer", "DynamicSlicer.check_explicit_data_dependency", "for", "attribute_uses"): "existential scan; slicer results are line sets",
    ("pynguin.slicer.dynamicslicer", "DynamicSlicer._check_scope_for_def", "for", "remove_tuples"): "removes every listed element from a set",
    ("pynguin.slicer.dynamicslicer", "DynamicSlicer._check_scope_for_def", "for", "context_scope"): "collects matches into a set",
    ("pynguin.slicer.dynamicslicer", "DynamicSlicer._add_variable_uses", "tuple", "variable_scope"): "set of int addresses copied for a membership scan",
    ("pynguin.testcase.export", "TestSuiteWriter.write", "for", "used_exc_types"): "grouped into a dict whose keys and values are both emitted through sorted()",
    ("pynguin.utils.pynguinml.mlparameter", "MLParameter._parse_dtype", "list", "set(dtype_map.values())"): "KNOWN: default dtype list in hash order (pinned by tests/utils/pynguinml/test_mlparameter.py::test_mlparameter_parse_dtype_invalid)",
}

SETANN = re.compile(r"^(set|frozenset|Set|FrozenSet|AbstractSet|MutableSet)\b")
DICT_OF_SET = re.compile(r"^(dict|defaultdict|Dict|DefaultDict)\[[^,]+,\s*(set|frozenset)\b")
INJECTIVE_KEYS = {"repr", "None"}  # sort keys that tell any two distinct assertable / hashable elements apart
INSENSITIVE_CALLS = {"sorted", "len", "any", "all", "sum", "min", "max", "set", "frozenset", "bool", "isinstance", "Counter"}
HASHED_SET_FUNCTIONS = {"nx.ancestors", "nx.descendants", "networkx.ancestors", "networkx.descendants"}  # third-party functions returning a plain set
SET_METHODS = {"union", "intersection", "difference", "symmetric_difference", "copy"}


def _ann(a) -> str:
    return norm(a).replace("typing.", "").replace("collections.abc.", "") if a is not None else ""


class SetTyping:
    def __init__(self, repo):
        self.ret_set = set()
        for _mod, _qn, fn in repo.all_functions():
            if SETANN.match(_ann(fn.returns)) and not fn.name.startswith("visit_") and fn.name not in ("nodes", "collect", "edges"):
                # generic names also belong to third-party objects (networkx views are insertion ordered)
                self.ret_set.add(fn.name)

    def names(self, fn):
        sets, dict_of_sets = {}, set()
        a = fn.args
        for p in [*a.posonlyargs, *a.args, *a.kwonlyargs]:
            if SETANN.match(_ann(p.annotation)):
                sets[p.arg] = _ann(p.annotation)
            if DICT_OF_SET.match(_ann(p.annotation)):
                dict_of_sets.add(p.arg)
        changed = True
        while changed:
            changed = False
            for n in own_nodes(fn):
                if isinstance(n, ast.AnnAssign) and isinstance(n.target, ast.Name):
                    if SETANN.match(_ann(n.annotation)) and n.target.id not in sets:
                        sets[n.target.id] = _ann(n.annotation)
                        changed = True
                    if DICT_OF_SET.match(_ann(n.annotation)) and n.target.id not in dict_of_sets:
                        dict_of_sets.add(n.target.id)
                        changed = True
                if isinstance(n, ast.Assign) and isinstance(n.targets[0], ast.Name) and n.targets[0].id not in sets and self.is_set(n.value, sets, dict_of_sets):
                    sets[n.targets[0].id] = "set (inferred)"
                    changed = True
        return sets, dict_of_sets

    def is_set(self, e, sets, dos) -> bool:
        if isinstance(e, (ast.Set, ast.SetComp)):
            return True
        if isinstance(e, ast.Call):
            f = norm(e.func)
            if f in ("set", "frozenset") or f in HASHED_SET_FUNCTIONS:
                return True
            if isinstance(e.func, ast.Attribute) and e.func.attr in SET_METHODS and self.is_set(e.func.value, sets, dos):
                return True
            if isinstance(e.func, ast.Attribute) and e.func.attr in self.ret_set:
                return True
            if isinstance(e.func, ast.Name) and e.func.id in self.ret_set:
                return True
            if isinstance(e.func, ast.Attribute) and e.func.attr in ("get", "setdefault", "pop") and isinstance(e.func.value, ast.Name) and e.func.value.id in dos:
                return True
        if isinstance(e, ast.Name) and e.id in sets:
            return True
        if isinstance(e, ast.Subscript) and isinstance(e.value, ast.Name) and e.value.id in dos:
            return True
        if isinstance(e, ast.BinOp) and isinstance(e.op, (ast.Sub, ast.BitOr, ast.BitAnd, ast.BitXor)) and (self.is_set(e.left, sets, dos) or self.is_set(e.right, sets, dos)):
            return True
        return False


def _benign_loop(loop: ast.For) -> bool:
    """Body only adds to sets / tests membership / returns a constant / counts."""
    for s in loop.body:
        for n in ast.walk(s):
            if isinstance(n, ast.Call):
                a = last_attr(n)
                if a in ("add", "update", "discard", "difference_update", "union", "isinstance", "len", "startswith", "endswith", "get", "issubset", "warning", "debug", "info"):
                    continue
                if isinstance(n.func, ast.Name) and n.func.id in ("isinstance", "len", "hasattr", "getattr", "callable", "str", "vars", "type"):
                    continue
                return False
            if isinstance(n, (ast.Yield, ast.YieldFrom, ast.Await)):
                return False
            if isinstance(n, ast.Assign) and not all(isinstance(t, ast.Name) for t in n.targets):
                return False
            if isinstance(n, ast.Return) and n.value is not None and not isinstance(n.value, ast.Constant):
                return False
    return True


SET_TESTS = ("set", "frozenset", "AbstractSet", "Set", "MutableSet")


def _narrowed(fn) -> dict[int, set[str]]:
    """Names known to hold a hashed set inside the body of `if isinstance(v, set)` /
    `if is_set(type(v))` (also through `t = type(v)`)."""
    type_of = {}
    for n in own_nodes(fn):
        if isinstance(n, ast.Assign) and len(n.targets) == 1 and isinstance(n.targets[0], ast.Name) and isinstance(n.value, ast.Call) and norm(n.value.func) == "type" and len(n.value.args) == 1 and isinstance(n.value.args[0], ast.Name):
            type_of[n.targets[0].id] = n.value.args[0].id
    out: dict[int, set[str]] = {}
    for n in own_nodes(fn):
        if not isinstance(n, ast.If):
            continue
        names = set()
        tests = n.test.values if isinstance(n.test, ast.BoolOp) and isinstance(n.test.op, ast.And) else [n.test]
        for t in tests:
            if not (isinstance(t, ast.Call) and t.args):
                continue
            f = last_attr(t) or norm(t.func)
            if f == "isinstance" and len(t.args) == 2 and isinstance(t.args[0], ast.Name):
                cls = t.args[1].elts if isinstance(t.args[1], ast.Tuple) else [t.args[1]]
                if cls and all(norm(c).split(".")[-1] in SET_TESTS for c in cls):
                    names.add(t.args[0].id)
            elif f == "is_set":
                a = t.args[0]
                if isinstance(a, ast.Name) and a.id in type_of:
                    names.add(type_of[a.id])
                elif isinstance(a, ast.Call) and norm(a.func) == "type" and a.args and isinstance(a.args[0], ast.Name):
                    names.add(a.args[0].id)
        if names:
            for s in n.body:
                for sub in ast.walk(s):
                    out.setdefault(id(sub), set()).update(names)
    return out


def find_sites(repo):
    typing = SetTyping(repo)
    sites = []
    for mod, qn, fn in repo.all_functions():
        if mod.name.startswith(OFF_PATH):
            continue
        sets0, dos = typing.names(fn)
        narrowed = _narrowed(fn)
        for n in own_nodes(fn):
            it = kind = None
            sets = {**sets0, **dict.fromkeys(narrowed[id(n)], "set (isinstance)")} if id(n) in narrowed else sets0
            if isinstance(n, ast.For) and typing.is_set(n.iter, sets, dos):
                if _benign_loop(n):
                    continue
                it, kind = n.iter, "for"
            elif isinstance(n, (ast.ListComp, ast.GeneratorExp, ast.DictComp)):
                for g in n.generators:
                    if typing.is_set(g.iter, sets, dos):
                        p = parent(n)
                        if isinstance(p, ast.Call) and norm(p.func) in INSENSITIVE_CALLS:
                            continue
                        if isinstance(p, ast.Call) and isinstance(p.func, ast.Attribute) and p.func.attr in ("update", "difference_update", "intersection_update", "issubset", "issuperset", "union"):
                            continue
                        it, kind = g.iter, type(n).__name__
            elif isinstance(n, ast.Call) and norm(n.func) == "sorted" and n.args and typing.is_set(n.args[0], sets, dos) and any(k.arg == "key" and norm(k.value) not in INJECTIVE_KEYS for k in n.keywords):
                # sorted() is stable: elements the key does not tell apart stay in the set's iteration order
                it, kind = n.args[0], "sorted(key=" + norm(next(k.value for k in n.keywords if k.arg == "key"))[:30] + ")"
            elif isinstance(n, ast.Call) and norm(n.func) in ("list", "tuple", "OrderedSet", "FrozenOrderedSet", "next", "iter", "enumerate", "zip", "deque", "dict.fromkeys") and n.args and typing.is_set(n.args[0], sets, dos):
                p = parent(n)
                if isinstance(p, ast.Call) and norm(p.func) in INSENSITIVE_CALLS:
                    continue
                it, kind = n.args[0], norm(n.func)
            elif isinstance(n, ast.Call) and isinstance(n.func, ast.Attribute) and n.func.attr == "join" and n.args and typing.is_set(n.args[0], sets, dos):
                it, kind = n.args[0], "join"
            elif isinstance(n, ast.Call) and isinstance(n.func, ast.Attribute) and n.func.attr == "pop" and not n.args and typing.is_set(n.func.value, sets, dos):
                it, kind = n.func.value, "pop"
            elif isinstance(n, ast.Starred) and typing.is_set(n.value, sets, dos) and isinstance(parent(n), (ast.List, ast.Tuple, ast.Call)):
                it, kind = n.value, "unpack"
            if it is not None:
                sites.append((mod, qn, fn, n, kind, norm(it)))
    return sites


def check(ctx) -> None:
    repo = ctx.repo
    ctx.rule("C16.rng", "WHO-MAY: calls into the global `random` module, Random() construction, os.urandom, uuid, secrets, numpy.random only in the seeded-RNG module and the enumerated seeding / isolation sites", floor=3)
    ctx.rule("C16.set-order", "every observable iteration over a hashed set is order-insensitive by construction, sorted, or one of the frozen, individually read sites", floor=10)
    ctx.rule("C16.hash-value", "hash() (randomised per process for str / bytes) is called only to implement __hash__ or to fill a cached hash attribute; its value never seeds, orders or selects", floor=20)
    for mod_, qn_, fn_ in repo.all_functions():
        for c_ in own_nodes(fn_):
            if not (isinstance(c_, ast.Call) and isinstance(c_.func, ast.Name) and c_.func.id == "hash"):
                continue
            in_hash = fn_.name == "__hash__"
            st_ = c_
            while st_ is not None and not isinstance(st_, ast.stmt):
                st_ = parent(st_)
            caches = isinstance(st_, (ast.Assign, ast.AugAssign, ast.AnnAssign)) and any("hash" in norm(t_).lower() for t_ in (st_.targets if isinstance(st_, ast.Assign) else [st_.target]))
            ctx.check("C16.hash-value", c_, in_hash or caches, f"{mod_.name}:{qn_}: the value of `{norm(c_)[:60]}` is used outside hashing; for anything that contains a str it differs from process to process (PYTHONHASHSEED), so whatever it seeds, orders or selects differs between two runs with the same seed", what=f"{qn_}: hash() only feeds __hash__", stmt=f"[{mod_.name}:{qn_}] {norm(c_)[:50]}")
    ctx.rule("C16.seed", "the configured seed reaches the RNG before anything is generated; RNG.seed is called nowhere else on the generation path", floor=2)

    # ------------------------------------------------------------------ C16.rng
    n_rng = 0
    for mod, qn, fn in repo.all_functions():
        if mod.name.startswith(OFF_PATH):
            continue
        rnd_aliases = {a for a, t in mod.imports.items() if t == "random" or t.startswith("random.")}
        np_aliases = {a for a, t in mod.imports.items() if t in ("numpy", "numpy.random")}
        for n in own_nodes(fn):
            if not isinstance(n, ast.Call):
                continue
            f = norm(n.func)
            root = f.split(".")[0]
            bad = None
            if root in rnd_aliases and root != "randomness":
                bad = f"call into the global random module `{f}`"
            elif f in ("os.urandom",) or root in ("secrets", "uuid") and root in mod.imports:
                bad = f"`{f}` (entropy source)"
            elif root in np_aliases and ".random." in f + ".":
                bad = f"numpy global RNG `{f}`"
            if bad is None:
                continue
            n_rng += 1
            ctx.analysed(fn)
            allowed = RNG_ALLOWED.get(mod.name) or RNG_FUNCS_ALLOWED.get((mod.name, qn.split(".<locals>")[0])) or RNG_FUNCS_ALLOWED.get((mod.name, "*"))
            ctx.check("C16.rng", n, allowed is not None, f"{mod.name}:{qn}: {bad} outside the seeded generator: its state is not controlled by the configured seed", what=f"{qn}: {f} ({allowed})")
    if n_rng == 0:
        raise AnalysisError("C16.rng matched no call into random at all")

    # ------------------------------------------------------------------ C16.seed
    seeders = []
    for mod, qn, fn in repo.all_functions():
        if mod.name.startswith(OFF_PATH):
            continue
        for n in own_nodes(fn):
            if isinstance(n, ast.Call) and norm(n.func) in ("randomness.RNG.seed", "RNG.seed"):
                seeders.append((mod.name, qn, n))
    for mname, qn, n in seeders:
        ok = (mname, qn) in (("pynguin.generator", "_setup_random_number_generator"), ("pynguin.utils.randomness", "Random.__init__"))
        ctx.check("C16.seed", n, ok, f"{mname}:{qn} reseeds pynguin's own generator: the sequence of choices no longer follows from the configured seed alone", what=f"{qn}: RNG.seed")
    run = repo.func("pynguin.generator", "_setup_and_check")
    txt = " ".join(norm(n) for n in own_nodes(run) if isinstance(n, ast.Call))
    ctx.check("C16.seed", run, "_setup_random_number_generator()" in txt, "_setup_and_check no longer seeds the generators before the test cluster is built", what="_setup_and_check seeds the RNG")

    # ------------------------------------------------------------------ C16.set-order
    used_keys = set()
    for mod, qn, fn, node, kind, expr in find_sites(repo):
        ctx.analysed(fn)
        key = (mod.name, qn, kind, expr[:80])
        reason = TRIAGE.get(key)
        used_keys.add(key)
        if reason is not None and reason.startswith("KNOWN:"):
            ctx.fail("C16.set-order", node, f"{mod.name}:{qn}: `{kind}` over the hashed set `{expr[:70]}` makes its (string-hash dependent) order observable: {reason[6:].strip()}", stmt=f"[{kind}] {expr[:80]}")
            continue
        ctx.check("C16.set-order", node, reason is not None, f"{mod.name}:{qn}: `{kind}` over the hashed set `{expr[:70]}` makes its iteration order observable (strings hash differently in every process unless PYTHONHASHSEED is fixed; classes and functions hash by address): wrap it in sorted(...) or keep an insertion-ordered container", what=f"{qn}: {kind} over {expr[:40]} - {reason}", stmt=f"[{kind}] {expr[:80]}")
    ctx.extra["triage_entries_unused"] = sorted(str(k) for k in TRIAGE if k not in used_keys)
