"""C10 — fitness values, coverage values and covered verdicts agree.

Decides that the sibling computations of "covered" consult the same data in a
type-correct way with the same exclusion arguments, that every zero test on a
branch distance is an equality with 0.0, that divisions are guarded, and that
every value written to a fitness / coverage cache is range-asserted first.
C10.mio-covered interprets MIOArchive.update over a grid of fitness values (incl. subnormal and sub-epsilon ones):
the covering heuristic value 1.0 is handed to the population exactly for a fitness of zero.
Numerical equality of fitness == 0 <=> covered for arbitrary traces is not decided.
Further clauses (added later): C10.mio-covered interprets MIOArchive.update over a grid of fitness values: the
heuristic value 1.0 (target covered) exactly for a fitness of zero.
"""

from __future__ import annotations

import ast

from sa.engine.cfg import CFG
from sa.engine.index import AnalysisError, last_attr, norm, own_nodes, parent, qualname

FM = "pynguin.ga.fitness_metrics"
COMP = "pynguin.ga.computations"
CG = "pynguin.ga.coveragegoals"
CC = "pynguin.ga.computation_cache"
TR = "pynguin.instrumentation.tracer"
DIST_FIELDS = ("true_distances", "false_distances")
# data the ">= 2 executions" rule of the fitness reads in addition to the covered verdict
FITNESS_ONLY_FIELDS = {"executed_predicates"}


def _anc(n):
    p = parent(n)
    while p is not None:
        yield p
        p = parent(p)


def dict_int_fields(repo):
    """ExecutionTrace fields declared dict[int, ...]: tuples can never be keys of them."""
    cdef = repo.cls(TR, "ExecutionTrace")
    out = set()
    for name, ann, _v in repo.dataclass_fields(cdef):
        if norm(ann).replace(" ", "").startswith("dict[int,"):
            out.add(name)
    if not out:
        raise AnalysisError("ExecutionTrace has no dict[int, ...] field: anchor changed")
    return out


def member_rule(ctx, rule, modules):
    """TYPE-MEMBER: `(a, b) in X.<dict[int,..] field>` is always false; `.items()` is the type-correct form."""
    repo = ctx.repo
    fields = dict_int_fields(repo)
    for mname in modules:
        mod = repo.module(mname)
        for qn, fn in mod.functions.items():
            for n in own_nodes(fn):
                if not isinstance(n, ast.Compare):
                    continue
                for op, right in zip(n.ops, n.comparators):
                    if not isinstance(op, (ast.In, ast.NotIn)):
                        continue
                    left = n.left
                    if not isinstance(left, ast.Tuple):
                        continue
                    base = right
                    via = None
                    if isinstance(base, ast.Call) and isinstance(base.func, ast.Attribute) and base.func.attr in ("items", "keys", "values") and not base.args:
                        via, base = base.func.attr, base.func.value
                    if isinstance(base, ast.Attribute) and base.attr in fields:
                        ctx.analysed(fn)
                        ok = via == "items" and len(left.elts) == 2
                        ctx.check(
                            rule,
                            n,
                            ok,
                            f"`{norm(n)}` tests a tuple for membership among the {'integer keys' if via in (None, 'keys') else via} of "
                            f"`{base.attr}` (declared dict[int, ...]): the test can never succeed",
                            what=f"{qn}: `{norm(n)[:70]}` is items-membership",
                        )


def _reads(repo, mod, expr_or_fn, seen=None, depth=0):
    """Trace / subject-properties field names read by an expression, following calls to module-level functions."""
    seen = seen if seen is not None else set()
    out = set()
    for x in ast.walk(expr_or_fn):
        if isinstance(x, ast.Attribute) and isinstance(x.ctx, ast.Load):
            out.add(x.attr)
        if isinstance(x, ast.Call) and depth < 3:
            callee = None
            if isinstance(x.func, ast.Name):
                r = repo.resolve_name(mod, x.func.id)
                if r and r[0] in repo.modules and r[1] in repo.modules[r[0]].functions:
                    callee = (r[0], r[1])
            elif isinstance(x.func, ast.Attribute) and isinstance(x.func.value, ast.Name):
                r = repo.resolve_name(mod, f"{x.func.value.id}.{x.func.attr}")
                if r and r[0] in repo.modules and r[1] in repo.modules[r[0]].functions:
                    callee = (r[0], r[1])
            if callee and callee not in seen:
                seen.add(callee)
                m2 = repo.modules[callee[0]]
                out |= _reads(repo, m2, m2.functions[callee[1]], seen, depth + 1)
    return out


def check(ctx) -> None:
    repo = ctx.repo
    ctx.rule("C10.member", "TYPE-MEMBER: no tuple-in-dict[int,...] membership; covered tests over distance maps use .items()", floor=4)
    ctx.rule("C10.siblings", "TABLE-AGREE: compute_fitness / compute_is_covered of one fitness function run the same execution helper, pass identical arguments to paired metric functions and read the same trace / subject fields", floor=8)
    ctx.rule("C10.zero", "every comparison of a branch-distance value decides `covered` by equality with 0.0 (==, math.isclose(x, 0.0) or (p, 0.0) in items())", floor=5)
    ctx.rule("C10.zero-iff", "ABSINT: compute_branch_distance_fitness == 0 <=> compute_branch_distance_fitness_is_covered, over representative traces and exclusion sets", floor=20)
    _zero_iff(ctx, repo)
    ctx.rule("C10.mio-covered", "ABSINT: MIOArchive.update hands its population the covering heuristic value 1.0 exactly for a fitness of zero (grid incl. subnormal and sub-epsilon fitness values), always within [0, 1]", floor=10)
    _mio_covered(ctx, repo)
    ctx.rule("C10.div", "every division in the metric functions has a denominator that is a non-zero constant, `c + x` with c > 0 and x guarded non-negative, or a name tested == 0 on the dominating edge", floor=3)
    ctx.rule("C10.range", "GUARD-DOM: every write of a computed value into a fitness / coverage cache is dominated by the range assertion on that value; normalise rejects negatives and maps inf to 1.0", floor=4)

    trace_fields = {f for f, _a, _v in repo.dataclass_fields(repo.cls(TR, "ExecutionTrace"))}
    subj_fields = {"existing_predicates", "existing_lines", "existing_code_objects", "branch_less_code_objects"}
    data_fields = trace_fields | subj_fields

    # ------------------------------------------------------------------ C10.member
    member_rule(ctx, "C10.member", [FM, CG, COMP, "pynguin.utils.report", "pynguin.ga.algorithms.archive"])

    # ------------------------------------------------------------------ C10.siblings
    repo.cls(COMP, "FitnessFunction")
    for m, c in sorted(repo.subclasses(COMP, "FitnessFunction")):
        if not m.startswith("pynguin.ga"):
            continue
        cdef = repo.modules[m].classes[c]
        meths = repo.methods(cdef)
        cf, ci = meths.get("compute_fitness"), meths.get("compute_is_covered")
        if cf is None or ci is None:
            continue
        if any(norm(d) == "abstractmethod" for d in cf.decorator_list):
            continue
        mod = repo.modules[m]
        ctx.analysed(cf)
        ctx.analysed(ci)
        # (a) same execution helper
        runs_f = sorted({last_attr(x) for x in own_nodes(cf) if isinstance(x, ast.Call) and last_attr(x).startswith("_run_")})
        runs_c = sorted({last_attr(x) for x in own_nodes(ci) if isinstance(x, ast.Call) and last_attr(x).startswith("_run_")})
        delegating = any(isinstance(x, ast.Call) and last_attr(x) == "compute_is_covered" for x in own_nodes(cf)) or any(
            isinstance(x, ast.Call) and last_attr(x) in ("compute_fitness",) for x in own_nodes(ci)
        )
        if delegating:
            ctx.ok("C10.siblings", cf, f"{c}: fitness defined through the covered verdict (0/1)")
            continue
        ctx.check("C10.siblings", ci, runs_f == runs_c, f"{c}: compute_fitness runs {runs_f} but compute_is_covered runs {runs_c}", what=f"{c}: same execution helper {runs_f}")
        # (b) paired metric calls take identical arguments
        rf = [x for x in own_nodes(cf) if isinstance(x, ast.Return) and x.value is not None]
        rc = [x for x in own_nodes(ci) if isinstance(x, ast.Return) and x.value is not None]
        if len(rf) == 1 and len(rc) == 1 and isinstance(rf[0].value, ast.Call) and isinstance(rc[0].value, ast.Call):
            fa, ca = rf[0].value, rc[0].value
            fn_name, cn_name = norm(fa.func).split(".")[-1], norm(ca.func).split(".")[-1]
            if cn_name == fn_name + "_is_covered":
                same = [norm(a) for a in fa.args] == [norm(a) for a in ca.args] and {k.arg: norm(k.value) for k in fa.keywords} == {k.arg: norm(k.value) for k in ca.keywords}
                ctx.check(
                    "C10.siblings",
                    rc[0],
                    same,
                    f"{c}: {cn_name}(...) is called with arguments that differ from {fn_name}(...): "
                    f"{[norm(a) for a in ca.args]} vs {[norm(a) for a in fa.args]}; fitness and covered verdict consider different goals",
                    what=f"{c}: {fn_name} / {cn_name} take identical arguments",
                )
                # the paired functions declare the same parameters in the same order
                d1 = repo.resolve_name(mod, norm(fa.func))
                d2 = repo.resolve_name(mod, norm(ca.func))
                if d1 and d2 and d1[1] in repo.modules[d1[0]].functions and d2[1] in repo.modules[d2[0]].functions:
                    p1 = [a.arg for a in repo.modules[d1[0]].functions[d1[1]].args.args]
                    p2 = [a.arg for a in repo.modules[d2[0]].functions[d2[1]].args.args]
                    ctx.check("C10.siblings", rc[0], p1 == p2, f"{fn_name} and {cn_name} declare different parameter lists {p1} vs {p2}", what=f"{fn_name}/{cn_name}: same parameter order", stmt=f"[params] {cn_name}")
        # (c) same data read
        df = (_reads(repo, mod, cf) & data_fields) - FITNESS_ONLY_FIELDS
        dc = (_reads(repo, mod, ci) & data_fields) - FITNESS_ONLY_FIELDS
        ctx.check("C10.siblings", ci, df == dc, f"{c}: compute_fitness reads {sorted(df)} but compute_is_covered reads {sorted(dc)}", what=f"{c}: both read {sorted(df)}", stmt="[fields]")

    # the exclusion parameters are applied to the like-named distance map in both paired functions
    for fname in ("compute_branch_distance_fitness", "compute_branch_distance_fitness_is_covered"):
        fn = repo.func(FM, fname)
        ctx.analysed(fn)
        pairs = []
        for n in own_nodes(fn):
            if isinstance(n, ast.If):
                t = n.test
                excl = [x for x in ast.walk(t) if isinstance(x, ast.Compare) and isinstance(x.ops[0], ast.NotIn) and isinstance(x.comparators[0], ast.Name) and x.comparators[0].id.startswith("exclude_")]
                if not excl:
                    continue
                ex = excl[0].comparators[0].id
                dists = {x.attr for x in ast.walk(n) if isinstance(x, ast.Attribute) and x.attr in DIST_FIELDS}
                pairs.append((n, ex, dists))
        for n, ex, dists in pairs:
            want = {"exclude_true": "true_distances", "exclude_false": "false_distances"}.get(ex)
            if want is None:
                continue
            ctx.check("C10.siblings", n, dists == {want}, f"{fname}: `{ex}` guards a test on {sorted(dists)} instead of {want}", what=f"{fname}: {ex} -> {want}")

    # ------------------------------------------------------------------ C10.zero
    zero_sites = 0
    for mname in (FM, CG, "pynguin.utils.report"):
        mod = repo.module(mname)
        for qn, fn in mod.functions.items():
            # names bound to a distance map or to a value of one
            dist_names = set()
            for n in own_nodes(fn):
                if isinstance(n, ast.Assign) and isinstance(n.targets[0], ast.Name) and any(isinstance(x, ast.Attribute) and x.attr in DIST_FIELDS for x in ast.walk(n.value)):
                    dist_names.add(n.targets[0].id)
                if isinstance(n, ast.comprehension) and any(isinstance(x, ast.Attribute) and x.attr in DIST_FIELDS for x in ast.walk(n.iter)) and "values" in norm(n.iter):
                    dist_names |= {x.id for x in ast.walk(n.target) if isinstance(x, ast.Name)}
            params = {a.arg for a in fn.args.args}
            if "branch_distances" in params:
                dist_names.add("branch_distances")

            def is_dist_value(e):
                if isinstance(e, ast.Subscript) and ((isinstance(e.value, ast.Attribute) and e.value.attr in DIST_FIELDS) or (isinstance(e.value, ast.Name) and e.value.id in dist_names)):
                    return True
                return isinstance(e, ast.Name) and e.id in dist_names and e.id not in ("distances", "branch_distances")

            for n in own_nodes(fn):
                if isinstance(n, ast.Compare) and len(n.ops) == 1 and not isinstance(n.ops[0], (ast.In, ast.NotIn, ast.Is, ast.IsNot)):
                    l, r = n.left, n.comparators[0]
                    if is_dist_value(l) or is_dist_value(r):
                        other = r if is_dist_value(l) else l
                        zero_sites += 1
                        ctx.analysed(fn)
                        ok = isinstance(n.ops[0], ast.Eq) and isinstance(other, ast.Constant) and other.value == 0
                        ctx.check("C10.zero", n, ok, f"{qn}: `{norm(n)}` decides on a branch distance by something other than equality with 0.0", what=f"{qn}: `{norm(n)}`")
                if isinstance(n, ast.Call) and norm(n.func) in ("math.isclose", "isclose") and len(n.args) >= 2 and (is_dist_value(n.args[0]) or is_dist_value(n.args[1])):
                    other = n.args[1] if is_dist_value(n.args[0]) else n.args[0]
                    zero_sites += 1
                    ctx.analysed(fn)
                    ok = isinstance(other, ast.Constant) and other.value == 0 and not isinstance(parent(n), ast.UnaryOp)
                    ctx.check("C10.zero", n, ok, f"{qn}: `{norm(n)}` does not compare the branch distance with 0.0", what=f"{qn}: `{norm(n)}`")
                if isinstance(n, ast.Compare) and isinstance(n.ops[0], (ast.In, ast.NotIn)) and isinstance(n.left, ast.Tuple) and len(n.left.elts) == 2:
                    right = n.comparators[0]
                    if isinstance(right, ast.Call) and isinstance(right.func, ast.Attribute) and right.func.attr == "items" and isinstance(right.func.value, ast.Attribute) and right.func.value.attr in DIST_FIELDS:
                        zero_sites += 1
                        c = n.left.elts[1]
                        ok = isinstance(c, ast.Constant) and c.value == 0
                        ctx.check("C10.zero", n, ok, f"{qn}: `{norm(n)}` looks for a distance other than 0.0", what=f"{qn}: `{norm(n)}`")
    # BranchGoal.is_covered picks the map by its own value
    bg = repo.func(CG, "BranchGoal.is_covered")
    ctx.analysed(bg)
    sel = [n for n in own_nodes(bg) if isinstance(n, ast.IfExp) and "self._value" in norm(n.test)]
    ok = len(sel) == 1 and norm(sel[0].test) == "self._value" and norm(sel[0].body).endswith("true_distances") and norm(sel[0].orelse).endswith("false_distances")
    ctx.check("C10.zero", bg, ok, "BranchGoal.is_covered does not select true_distances for value=True and false_distances for value=False", what="BranchGoal: value -> matching distance map", stmt="[map-select]")

    # ------------------------------------------------------------------ C10.div
    for mname, names in ((FM, None), (COMP, None)):
        mod = repo.module(mname)
        for qn, fn in mod.functions.items():
            for n in own_nodes(fn):
                if isinstance(n, ast.BinOp) and isinstance(n.op, (ast.Div, ast.FloorDiv, ast.Mod)):
                    ctx.analysed(fn)
                    ok, why = _safe_denominator(fn, n)
                    ctx.check("C10.div", n, ok, f"{qn}: division `{norm(n)}` has an unguarded denominator ({why})", what=f"{qn}: `{norm(n)}` guarded: {why}")

    # ------------------------------------------------------------------ C10.range
    norm_fn = repo.func(FM, "normalise")
    ctx.analysed(norm_fn)
    cfg = CFG(norm_fn)
    par = norm_fn.args.args[0].arg
    neg_guard = [n for n in cfg.nodes if n.kind == "test" and isinstance(n.stmt.test, ast.Compare) and norm(n.stmt.test) in (f"{par} < 0", f"{par} < 0.0") and any(isinstance(s, ast.Raise) for s in n.stmt.body)]
    inf_guard = [n for n in cfg.nodes if n.kind == "test" and "isinf" in norm(n.stmt.test) and any(isinstance(s, ast.Return) and norm(s.value) in ("1.0", "1") for s in n.stmt.body)]
    ctx.check("C10.range", norm_fn, bool(neg_guard), "normalise no longer rejects negative values", what="normalise: negative -> RuntimeError", stmt="[neg]")
    ctx.check("C10.range", norm_fn, bool(inf_guard), "normalise no longer maps inf to 1.0 (inf/(1+inf) is NaN)", what="normalise: inf -> 1.0", stmt="[inf]")
    for cname, cache, value_fn in (("_compute_fitness", "_fitness_cache", "compute_fitness"), ("_compute_coverage", "_coverage_cache", "compute_coverage")):
        fn = repo.func(CC, f"ComputationCache.{cname}")
        ctx.analysed(fn)
        cfg = CFG(fn)
        writes = [n for n in cfg.nodes if n.kind == "stmt" and isinstance(n.stmt, ast.Assign) and isinstance(n.stmt.targets[0], ast.Subscript) and norm(n.stmt.targets[0].value) == f"self.{cache}"]
        if not writes:
            raise AnalysisError(f"{cname}: no write to {cache}")
        for w in writes:
            val = norm(w.stmt.value)
            asserts = set()
            for n in cfg.nodes:
                if n.kind == "stmt" and isinstance(n.stmt, ast.Assert):
                    t = norm(n.stmt.test)
                    has_nan = f"math.isnan({val})" in t and "not math.isnan" in t
                    has_inf = f"math.isinf({val})" in t and "not math.isinf" in t
                    if cache == "_fitness_cache":
                        rng = f"{val} >= 0" in t
                    else:
                        rng = f"0 <= {val} <= 1" in t or f"0.0 <= {val} <= 1.0" in t
                    conj = isinstance(n.stmt.test, ast.BoolOp) and isinstance(n.stmt.test.op, ast.And)
                    if has_nan and has_inf and rng and conj:
                        asserts.add(n.id)
            p = cfg.path([cfg.entry], [w.id], avoid_nodes=asserts)
            ctx.paths += 1
            ctx.check("C10.range", w.stmt, p is None and bool(asserts), f"{cname}: a value reaches {cache} without the finite / range assertion", what=f"{cname}: write dominated by range assert")
        # the derived covered verdict is isclose(value, 0.0)
        if cache == "_fitness_cache":
            der = [n for n in own_nodes(fn) if isinstance(n, ast.Assign) and isinstance(n.targets[0], ast.Subscript) and norm(n.targets[0].value) == "self._is_covered_cache"]
            ok = bool(der) and all(isinstance(d.value, ast.Call) and norm(d.value.func) == "math.isclose" and norm(d.value.args[1]) in ("0.0", "0") and not d.value.keywords for d in der)
            ctx.check("C10.range", der[0] if der else fn, ok, "the covered verdict derived from a fitness value is not `math.isclose(value, 0.0)`", what="derived verdict = isclose(fitness, 0.0)", stmt="[derived]")


def _safe_denominator(fn, binop):
    d = binop.right
    if isinstance(d, ast.Constant) and isinstance(d.value, (int, float)) and d.value != 0:
        return True, "non-zero constant"
    if isinstance(d, ast.BinOp) and isinstance(d.op, ast.Add):
        consts = [x for x in (d.left, d.right) if isinstance(x, ast.Constant) and isinstance(x.value, (int, float)) and x.value > 0]
        others = [x for x in (d.left, d.right) if not isinstance(x, ast.Constant)]
        if consts and len(others) == 1 and isinstance(others[0], ast.Name):
            v = others[0].id
            guarded = any(isinstance(n, ast.If) and norm(n.test) in (f"{v} < 0", f"{v} < 0.0") and any(isinstance(s, (ast.Raise, ast.Return)) for s in n.body) for n in own_nodes(fn))
            if guarded:
                return True, f"{consts[0].value} + {v} with {v} >= 0 enforced"
            return False, f"`{v}` is not guarded non-negative"
    if isinstance(d, ast.Name):
        v = d.id
        # `X if v == 0 else .../v` or `if v == 0: ... else: .../v`
        child = binop
        for a in _anc(binop):
            if isinstance(a, ast.IfExp) and norm(a.test) in (f"{v} == 0", f"{v} == 0.0") and _contains(a.orelse, binop):
                return True, f"else-arm of `{v} == 0`"
            if isinstance(a, ast.If) and norm(a.test) in (f"{v} == 0", f"{v} == 0.0") and any(_contains(s, binop) for s in a.orelse):
                return True, f"else-branch of `if {v} == 0`"
            if isinstance(a, ast.If) and norm(a.test) in (f"{v} != 0", f"{v} > 0", f"{v}") and any(_contains(s, binop) for s in a.body):
                return True, f"body of `if {norm(a.test)}`"
            if isinstance(a, (ast.FunctionDef, ast.AsyncFunctionDef)):
                break
        return False, f"`{v}` is not tested against 0 on the way"
    if isinstance(d, ast.Call) and norm(d.func) in ("sc.limit",):
        return True, "limit() of a stopping condition (asserted > 0 at construction)"
    return False, f"denominator `{norm(d)}` not recognised"


def _contains(root, node):
    return any(x is node for x in ast.walk(root))


def _zero_iff(ctx, repo) -> None:
    import itertools

    from sa.engine import peval

    FMM = "pynguin.ga.fitness_metrics"
    fit = repo.func(FMM, "compute_branch_distance_fitness")
    cov = repo.func(FMM, "compute_branch_distance_fitness_is_covered")
    ctx.analysed(fit)
    ctx.analysed(cov)
    fmod = repo.module(FMM)
    sp = peval.Obj("SubjectProperties", fields={"existing_predicates": {0: "m0", 1: "m1"}, "branch_less_code_objects": [7]})
    traces = {
        "everything covered": ({7}, {0: 3, 1: 2}, {0: 0.0, 1: 0.0}, {0: 0.0, 1: 0.0}),
        "predicate 1 never executed": ({7}, {0: 3}, {0: 0.0}, {0: 0.0}),
        "predicate 1 executed once, false only": ({7}, {0: 3, 1: 1}, {0: 0.0, 1: 2.0}, {0: 0.0, 1: 0.0}),
        "predicate 1 executed twice, tiny true distance": ({7}, {0: 3, 1: 2}, {0: 0.0, 1: 5e-17}, {0: 0.0, 1: 0.0}),
        "branch-less code object missing": (set(), {0: 1, 1: 1}, {0: 0.0, 1: 0.0}, {0: 0.0, 1: 0.0}),
        "nothing executed": (set(), {}, {}, {}),
    }
    excl = [(None, None, None), (None, {1}, {1}), ({7}, None, None), (None, {1}, None), ({7}, {0, 1}, {0, 1}), (None, None, {1})]
    for (tname, (eco, ep, td, fd)), (xc, xt, xf) in itertools.product(traces.items(), excl):
        trace = peval.Obj("trace", fields={"executed_code_objects": set(eco), "executed_predicates": dict(ep), "true_distances": dict(td), "false_distances": dict(fd)})
        tag = f"[{tname}; exclude code={sorted(xc) if xc else None} true={sorted(xt) if xt else None} false={sorted(xf) if xf else None}]"
        try:
            f = peval.Interp(resolver=peval.repo_resolver(repo)).run_function(fit, [trace, sp, xc, xt, xf], {}, fmod)
            c = peval.Interp(resolver=peval.repo_resolver(repo)).run_function(cov, [trace, sp, xc, xt, xf], {}, fmod)
        except peval.Undecided as exc:
            ctx.undecide("C10.zero-iff", cov, f"{tag}: {exc}")
            continue
        except peval.Raises as exc:
            ctx.fail("C10.zero-iff", cov, f"{tag}: raises {exc.name} ({exc.detail[:50]})", stmt=tag)
            continue
        ctx.check("C10.zero-iff", cov, (f == 0.0) == bool(c), f"{tag}: fitness = {f!r} but the covered verdict is {c!r}: the search treats a chromosome with fitness zero as not covered (or the other way round)", what=f"{tag}: fitness {f!r}, covered {c!r}", stmt=tag)


def _mio_covered(ctx, repo) -> None:
    """MIOArchive.update, interpreted over a grid of fitness values: the heuristic value handed to the population is 1.0
    (the value that marks the target covered) exactly for a fitness of zero, and lies in [0, 1]."""
    from sa.engine import peval

    AR = "pynguin.ga.algorithms.archive"
    fn = repo.try_func(AR, "MIOArchive.update")
    if fn is None:
        raise AnalysisError("anchor vanished: MIOArchive.update")
    ctx.analysed(fn)
    mod = repo.module(AR)
    for fitness in (0.0, 5e-324, 5.55e-17, 2.2e-16, 1e-9, 0.5, 1.0, 7.0, 1e308, float("inf")):
        tag = f"[mio] fitness {fitness!r}"
        got = []
        pop = peval.Obj("population", fields={"is_covered": False})
        pop.methods["add_solution"] = lambda h, sol, got=got: (got.append(h), True)[1]
        result = peval.Obj("result", fields={"timeout": False})
        result.methods["has_test_exceptions"] = lambda: False
        clone = peval.Obj("clone")
        clone.methods["get_fitness_for"] = lambda t, fitness=fitness: fitness
        clone.methods["get_last_execution_result"] = lambda result=result: result
        sol = peval.Obj("solution")
        sol.methods["clone"] = lambda clone=clone: clone
        selfobj = peval.Obj("MIOArchive", fields={"_archive": {"target": pop}})
        selfobj.methods["_on_target_covered"] = lambda t: None
        it = peval.Interp(resolver=peval.repo_resolver(repo), max_steps=20000)
        try:
            it.run_function(fn, [selfobj, [sol]], {}, mod)
        except peval.Undecided as exc:
            ctx.undecide("C10.mio-covered", fn, f"{tag}: {exc}")
            continue
        except peval.Raises as exc:
            ctx.fail("C10.mio-covered", fn, f"{tag}: raises {exc.name} {exc.detail[:60]}", stmt=tag)
            continue
        h = got[0] if got else None
        ok = isinstance(h, float) and 0.0 <= h <= 1.0 and ((h == 1.0) == (fitness == 0.0))
        ctx.check("C10.mio-covered", fn, ok, f"{tag}: the population receives the heuristic value {h!r}: " + ("the target counts as covered although the fitness is not zero (the goal's own is_covered says False) - a tiny distance such as 5.55e-17 for `x == 0.1 + 0.2` vanishes in `1.0 - normalise(f)`" if h == 1.0 else "a fitness of zero does not mark the target covered / value outside [0, 1]"), what=f"{tag}: h = {h!r}", stmt=tag)
