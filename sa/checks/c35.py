"""C35 — coverage reports agree with the computed coverage.

Decides the wiring of the report: the totals are accumulated from the very per-line dictionaries the
annotations are built from; the per-line helper (interpreted over all membership combinations of a
line in the two dictionaries) reports both kinds and their sum; CoverageEntry / LineAnnotation
addition is component-wise; the coverage values come from the shared metric functions on the trace
merged from every test of the suite; every predicate contributes two branches (covered iff a
distance VALUE is 0.0), every branch-less code object one, like compute_branch_coverage; the source
text is read for the configured module at report time (no memoised reader); the XML totals add the
two branch kinds and, interpreted with ElementTree modelled over 8 kinds of lines, lists a line iff
it carries anything with hits=1 exactly when something of it is covered; storing a fresh execution
result clears the changed flag in both runners, so all coverage functions and the report read the
same executions.  Equality of line ids and line numbers across code objects is not decided.
Further clauses (added later): C35.html: the lexer the HTML template instantiates yields one highlighted line
per source line (evaluated with the repository's pygments); C35.regular-result: the result returned by the
type-tracing executor is never the proxied execution's.
"""

from __future__ import annotations

import ast
import itertools

from sa.engine import peval
from sa.engine.index import AnalysisError, decorator_names, last_attr, norm, own_nodes, parent

RP = "pynguin.utils.report"
FM = "pynguin.ga.fitness_metrics"


def _same_executions(ctx, repo) -> None:
    """Tracked coverage values are computed one coverage function after the other and the report reads the
    last stored results: all of them describe the same executions only if a test case whose fresh result was
    stored is not executed again by the next computation, i.e. storing the result clears its changed flag."""
    from sa.engine.cfg import CFG

    COMP = "pynguin.ga.computations"
    n = 0
    for qn in ("TestSuiteChromosomeComputation._run_test_suite_chromosome", "TestCaseChromosomeComputation._run_test_case_chromosome"):
        fn = repo.func(COMP, qn)
        ctx.analysed(fn)
        cfg = CFG(fn)
        stores = [x for x in cfg.nodes if x.kind == "stmt" and x.stmt is not None and isinstance(x.stmt, ast.Expr) and isinstance(x.stmt.value, ast.Call) and last_attr(x.stmt.value) == "set_last_execution_result"]
        if not stores:
            raise AnalysisError(f"{qn}: no set_last_execution_result(...) found")
        for st in stores:
            recv = norm(st.stmt.value.func.value)
            clears = {x.id for x in cfg.nodes if x.kind == "stmt" and x.stmt is not None and isinstance(x.stmt, ast.Assign) and norm(x.stmt.targets[0]) == f"{recv}.changed" and norm(x.stmt.value) == "False"}
            loop = next((a for a in _ancestors(st.stmt) if isinstance(a, ast.For)), None)
            goals = [cfg.exit] + [x.id for x in cfg.nodes if x.kind == "for" and x.stmt is loop]
            nxt = [b for b, lab in cfg.succ[st.id] if lab != "exc"]
            p = cfg.path(nxt, goals, avoid_nodes=clears, labels_excluded=("exc",))
            n += 1
            ctx.paths += 1
            ctx.check("C35.same-executions", st.stmt, p is None, f"{qn}: after `{norm(st.stmt)[:70]}` the flag `{recv}.changed` is not cleared on every path: the test case is executed again by the next computation, so line coverage, branch coverage and the report (which reads the last stored result) describe different executions and disagree for modules whose behaviour depends on earlier calls", what=f"{qn}: stored result clears the changed flag", path=cfg.describe_path(p) if p else None, stmt=f"[{qn.split('.')[-1]}] store -> clear")
    return n


def _ancestors(node):
    p = parent(node)
    while p is not None:
        yield p
        p = parent(p)


def _xml_lines(ctx, repo) -> None:
    """render_xml_coverage_report interpreted with ElementTree modelled: per line the `hits` attribute says
    covered exactly when the suite covers something of the line, a line is listed iff it carries anything."""
    import datetime
    import types as _types

    fn = repo.func(RP, "render_xml_coverage_report")
    ctx.analysed(fn)

    def ce(c, e):
        return _types.SimpleNamespace(covered=c, existing=e)

    # (label, lines, branches, branch-less code objects)
    cells = [
        ("executed line without branches", ce(1, 1), ce(0, 0), ce(0, 0)),
        ("line not executed", ce(0, 1), ce(0, 0), ce(0, 0)),
        ("executed line, predicate with no outcome decided (raises before)", ce(1, 1), ce(0, 2), ce(0, 0)),
        ("executed def line of a function never called", ce(1, 1), ce(0, 0), ce(0, 1)),
        ("executed line, one of two outcomes", ce(1, 1), ce(1, 2), ce(0, 0)),
        ("line without line metric, branch covered", ce(0, 0), ce(2, 2), ce(0, 0)),
        ("line without line metric, nothing covered", ce(0, 0), ce(0, 2), ce(0, 1)),
        ("not relevant (comment)", ce(0, 0), ce(0, 0), ce(0, 0)),
    ]
    annotations = [_types.SimpleNamespace(line_no=i + 1, lines=l, branches=b, branchless_code_objects=c, total=ce(l.covered + b.covered + c.covered, l.existing + b.existing + c.existing)) for i, (_lab, l, b, c) in enumerate(cells)]
    report = _types.SimpleNamespace(module="m", line_coverage=0.5, branch_coverage=0.5, lines=ce(4, 5), branches=ce(3, 8), branchless_code_objects=ce(0, 2), line_annotations=annotations, source=[""] * len(cells))
    elements = []

    class Node:
        def __init__(self, tag, attrib):
            self.tag, self.attrib, self.text = tag, dict(attrib or {}), None

    def element(tag, attrib=None, **kw):
        node = Node(tag, attrib)
        elements.append(node)
        return node

    def sub(parent_, tag, attrib=None, **kw):
        return element(tag, attrib)

    sink = _types.SimpleNamespace(write=lambda *a, **k: None)
    path = _types.SimpleNamespace(open=lambda *a, **k: sink)
    it = peval.Interp(resolver=peval.repo_resolver(repo), native_types=(_types.SimpleNamespace, Node, datetime.datetime, datetime.timezone),
                      externs={"ET.Element": element, "ET.SubElement": sub, "ET.ElementTree": lambda root: _types.SimpleNamespace(write=lambda *a, **k: None), "ET.indent": lambda *a, **k: None},
                      consts={"ver.__version__": "0", "datetime.timezone.utc": datetime.timezone.utc, "xml_file": sink})
    try:
        it.run_function(fn, [report, path, datetime.datetime(2024, 1, 1)], {}, repo.module(RP))
    except (peval.Undecided, peval.Raises) as exc:
        ctx.undecide("C35.xml", fn, f"per-line interpretation: {exc}")
        return
    lines = {int(e.attrib["number"]): e.attrib for e in elements if e.tag == "line"}
    for i, (label, l, b, c) in enumerate(cells):
        no = i + 1
        listed = no in lines
        want_listed = l.existing + b.existing + c.existing > 0
        if not want_listed or not listed:
            ctx.check("C35.xml", fn, listed == want_listed, f"[{label}] the line is {'listed' if listed else 'missing'} in the XML report although it carries {'something' if want_listed else 'nothing'}", what=f"[{label}] listed iff relevant", stmt=f"[line] {label}")
            continue
        want_hit = "1" if (l.covered + b.covered + c.covered) > 0 else "0"
        got = lines[no].get("hits")
        ctx.check("C35.xml", fn, got == want_hit, f"[{label}] hits={got!r}, but the suite covers {l.covered} line / {b.covered} branch / {c.covered} code-object entries of it: the per-line entries no longer say covered exactly when the suite covers the line (and disagree with lines-covered)", what=f"[{label}] hits={want_hit}", stmt=f"[line] {label}")


def check(ctx) -> None:
    repo = ctx.repo
    ctx.rule("C35.regular-result", "DATAFLOW: the execution result returned by TypeTracingTestCaseExecutor.execute is never assigned from an execution inside the proxied (shim_isinstance / type-tracing observer) block", floor=1)
    _regular_result(ctx, repo)
    ctx.rule("C35.html", "the lexer the HTML template instantiates yields one highlighted line per source line (evaluated with the repository's pygments over modules with leading / inner blank lines)", floor=3)
    _html_alignment(ctx, repo)
    ctx.rule("C35.annotation", "ABSINT: the per-line branch annotation equals (code-object entry, predicate entry, their sum) for every membership combination of the line; entry / annotation addition is component-wise", floor=7)
    ctx.rule("C35.totals", "the report totals are sums over the values of the same per-line dictionaries that feed the annotations; every source line gets an annotation", floor=5)
    ctx.rule("C35.same-metric", "branch / line coverage of the report are compute_branch_coverage / compute_line_coverage on the trace merged from the last result of every test case", floor=4)
    ctx.rule("C35.same-executions", "MUST-PASS: in both runners every path from storing a fresh execution result to the end of the iteration clears that chromosome's changed flag - the coverage functions and the report read the same executions", floor=2)
    _same_executions(ctx, repo)
    ctx.rule("C35.factors", "per predicate 2 existing branches and one covered per zero distance VALUE; per branch-less code object 1 existing, covered iff executed - the factors of compute_branch_coverage", floor=5)
    ctx.rule("C35.source", "the source shown is read from the configured module at report time; no function on the report path is memoised", floor=2)
    ctx.rule("C35.xml", "the Cobertura totals add branch and branch-less entries and take the rates from the report", floor=4)

    mod = repo.module(RP)
    resolver = peval.repo_resolver(repo)
    cres = peval.repo_class_resolver(repo, only={"CoverageEntry", "LineAnnotation"})
    gcr = repo.func(RP, "get_coverage_report")
    ctx.analysed(gcr)

    def interp():
        return peval.Interp(resolver=resolver, class_resolver=cres)

    def entry(c, e):
        it = interp()
        return it.instantiate("CoverageEntry", cres("CoverageEntry", mod), [c, e], {})

    def vals(o):
        return (o.fields.get("covered"), o.fields.get("existing"))

    # ------------------------------------------------------------------ C35.annotation
    helper = repo.func(RP, "_get_line_annotations_for_branch_coverage")
    ctx.analysed(helper)
    for in_code, in_pred in itertools.product((False, True), repeat=2):
        code = {7: entry(1, 1)} if in_code else {9: entry(1, 1)}
        pred = {7: entry(1, 4)} if in_pred else {3: entry(2, 2)}
        try:
            ann = interp().run_function(helper, [7, code, pred], {}, mod)
        except (peval.Undecided, peval.Raises) as exc:
            ctx.undecide("C35.annotation", helper, f"line in code objects={in_code}, in predicates={in_pred}: {exc}")
            continue
        want_b = (1, 4) if in_pred else (0, 0)
        want_c = (1, 1) if in_code else (0, 0)
        got_b, got_c, got_t = vals(ann.fields["branches"]), vals(ann.fields["branchless_code_objects"]), vals(ann.fields["total"])
        ok = got_b == want_b and got_c == want_c and got_t == (want_b[0] + want_c[0], want_b[1] + want_c[1]) and ann.fields["line_no"] == 7
        ctx.check("C35.annotation", helper, ok, f"line that {'starts' if in_code else 'does not start'} a branch-less code object and {'carries' if in_pred else 'carries no'} predicate: annotation branches={got_b} code objects={got_c} total={got_t}, expected {want_b} / {want_c} / their sum: the per-line numbers no longer add up to the totals", what=f"in code={in_code}, in predicates={in_pred}: {got_b} {got_c} {got_t}", stmt=f"[partition] code={in_code} pred={in_pred}")
    # component-wise addition
    ce_add = repo.func(RP, "CoverageEntry.__add__")
    la_add = repo.func(RP, "LineAnnotation.__add__")
    ctx.analysed(ce_add)
    ctx.analysed(la_add)
    try:
        s_ = interp().run_function(ce_add, [entry(1, 2), entry(3, 5)], {}, mod)
        ctx.check("C35.annotation", ce_add, vals(s_) == (4, 7), f"CoverageEntry(1, 2) + CoverageEntry(3, 5) = {vals(s_)}", what="CoverageEntry addition component-wise")
    except (peval.Undecided, peval.Raises) as exc:
        ctx.undecide("C35.annotation", ce_add, str(exc))

    def ann(line, *pairs):
        it = interp()
        return it.instantiate("LineAnnotation", cres("LineAnnotation", mod), [line, *[entry(*p) for p in pairs]], {})

    try:
        a, b = ann(4, (1, 1), (0, 2), (1, 1), (0, 0)), ann(4, (1, 1), (1, 2), (0, 0), (1, 1))
        s_ = interp().run_function(la_add, [a, b], {}, mod)
        got = tuple(vals(s_.fields[k]) for k in ("total", "branches", "branchless_code_objects", "lines"))
        ctx.check("C35.annotation", la_add, got == ((2, 2), (1, 4), (1, 1), (1, 1)) and s_.fields["line_no"] == 4, f"LineAnnotation addition gives {got}", what="LineAnnotation addition component-wise, same field order")
    except (peval.Undecided, peval.Raises) as exc:
        ctx.undecide("C35.annotation", la_add, str(exc))
    ctx.check("C35.annotation", la_add, any(isinstance(n, ast.Assert) and norm(n.test) == "self.line_no == other.line_no" for n in own_nodes(la_add)), "LineAnnotation.__add__ no longer insists on equal line numbers", what="addition only for the same line", stmt="[same-line]")

    # ------------------------------------------------------------------ C35.totals
    dict_names = {}
    for n in own_nodes(gcr):
        if isinstance(n, ast.Assign) and isinstance(n.value, ast.Call) and isinstance(n.value.func, ast.Name) and n.value.func.id in ("_get_line_to_branchless_code_object_coverage", "_get_line_to_branch_coverage"):
            dict_names[n.value.func.id] = norm(n.targets[0])
            ctx.check("C35.totals", n, [norm(a) for a in n.value.args] == ["subject_properties", "trace"], f"{n.value.func.id} is not computed from (subject_properties, trace)", what=f"{n.value.func.id}(subject_properties, trace)")
    if len(dict_names) != 2:
        raise AnalysisError("get_coverage_report: per-line dictionaries not found")
    code_d, pred_d = dict_names["_get_line_to_branchless_code_object_coverage"], dict_names["_get_line_to_branch_coverage"]
    for total, d in (("branchless_code_objects", code_d), ("branches", pred_d)):
        loops = [n for n in own_nodes(gcr) if isinstance(n, ast.For) and norm(n.iter) == f"{d}.values()"]
        ok = len(loops) == 1 and len(loops[0].body) == 1 and isinstance(loops[0].body[0], ast.AugAssign) and norm(loops[0].body[0].target) == total and norm(loops[0].body[0].value) == norm(loops[0].target)
        ctx.check("C35.totals", loops[0] if loops else gcr, ok, f"the total `{total}` is not the sum over all values of `{d}`", what=f"{total} = sum({d}.values())")
    hc = [n for n in own_nodes(gcr) if isinstance(n, ast.Call) and isinstance(n.func, ast.Name) and n.func.id == "_get_line_annotations_for_branch_coverage"]
    ok = len(hc) == 1 and [norm(a) for a in hc[0].args] == ["idx + 1", code_d, pred_d]
    ctx.check("C35.totals", hc[0] if hc else gcr, ok, f"the per-line annotations are not built from (line idx + 1, {code_d}, {pred_d}) - the dictionaries the totals are summed from", what="annotations built from the same dictionaries as the totals")
    init = [n for n in own_nodes(gcr) if isinstance(n, ast.Assign) and norm(n.targets[0]) == "line_annotations" and isinstance(n.value, ast.ListComp)]
    ok = bool(init) and any("range(len(source))" in norm(i.value.generators[0].iter) for i in init)
    ctx.check("C35.totals", gcr, ok, "not every source line gets an annotation", what="one annotation per source line", stmt="[per-line]")
    ret = [n for n in own_nodes(gcr) if isinstance(n, ast.Return) and isinstance(n.value, ast.Call) and norm(n.value.func) == "CoverageReport"]
    kw = {k.arg: norm(k.value) for k in ret[0].value.keywords} if ret else {}
    ok = all(kw.get(k) == k for k in ("source", "branch_coverage", "line_coverage", "branches", "branchless_code_objects", "lines", "line_annotations"))
    ctx.check("C35.totals", ret[0] if ret else gcr, ok, f"CoverageReport is built with mismatched fields {kw}", what="report fields bound to the like-named values", stmt="[fields]")

    # ------------------------------------------------------------------ C35.same-metric
    tr = [n for n in own_nodes(gcr) if isinstance(n, ast.Assign) and norm(n.targets[0]) == "trace"]
    ctx.check("C35.same-metric", tr[0] if tr else gcr, len(tr) == 1 and norm(tr[0].value) == "ff.analyze_results(results)", "the report trace is not ff.analyze_results(results)", what="trace = analyze_results(results)")
    lp = [n for n in own_nodes(gcr) if isinstance(n, ast.For) and norm(n.iter) == "suite.test_case_chromosomes"]
    ok = len(lp) == 1 and any(isinstance(x, ast.Call) and norm(x.func) == "results.append" for x in ast.walk(lp[0])) and not any(isinstance(x, (ast.Break, ast.Continue)) for x in ast.walk(lp[0])) and any(isinstance(x, ast.Call) and last_attr(x) == "get_last_execution_result" for x in ast.walk(lp[0]))
    ctx.check("C35.same-metric", lp[0] if lp else gcr, ok, "not every test case's last execution result enters the report", what="results of all test cases collected")
    for var, fn_name in (("branch_coverage", "ff.compute_branch_coverage"), ("line_coverage", "ff.compute_line_coverage")):
        a = [n for n in own_nodes(gcr) if isinstance(n, ast.Assign) and norm(n.targets[0]) == var and not (isinstance(n.value, ast.Constant) and n.value.value is None)]
        ok = len(a) == 1 and norm(a[0].value) == f"{fn_name}(trace, subject_properties)"
        ctx.check("C35.same-metric", a[0] if a else gcr, ok, f"`{var}` is not {fn_name}(trace, subject_properties)", what=f"{var} from the shared metric function")

    # ------------------------------------------------------------------ C35.factors
    b = repo.func(RP, "_get_line_to_branch_coverage")
    c = repo.func(RP, "_get_line_to_branchless_code_object_coverage")
    ctx.analysed(b)
    ctx.analysed(c)
    ex = [norm(n) for n in own_nodes(b) if isinstance(n, ast.Call) and norm(n.func) == "CoverageEntry"]
    ctx.check("C35.factors", b, ex.count("CoverageEntry(existing=2)") == 1 and ex.count("CoverageEntry(covered=1)") == 2, f"per predicate the report counts {ex}, compute_branch_coverage counts 2 existing and one covered per zero distance", what="predicate: existing=2, covered=1 per outcome")
    tests = [n for n in own_nodes(b) if isinstance(n, ast.If) and "distances" in norm(n.test)]
    ok = len(tests) == 2 and {norm(t.test) for t in tests} == {"(predicate, 0.0) in trace.true_distances.items()", "(predicate, 0.0) in trace.false_distances.items()"}
    ctx.check("C35.factors", b, ok, "a branch counts as covered without its distance VALUE being tested against 0.0 on the (predicate, value) items", what="covered iff (predicate, 0.0) in <distances>.items()", stmt="[covered-test]")
    ctx.check("C35.factors", b, any(isinstance(n, ast.For) and norm(n.iter) == "subject_properties.existing_predicates" for n in own_nodes(b)), "the per-line branch table no longer ranges over all existing predicates", what="all existing predicates", stmt="[domain]")
    ex = [norm(n) for n in own_nodes(c) if isinstance(n, ast.Call) and norm(n.func) == "CoverageEntry"]
    ctx.check("C35.factors", c, ex.count("CoverageEntry(existing=1)") == 1 and ex.count("CoverageEntry(covered=1)") == 1 and any(isinstance(n, ast.If) and norm(n.test) == "code in trace.executed_code_objects" for n in own_nodes(c)), f"per branch-less code object the report counts {ex}", what="code object: existing=1, covered iff executed")
    cbc = repo.func(FM, "compute_branch_coverage")
    t = " ".join(norm(n) for n in own_nodes(cbc) if isinstance(n, (ast.Assign, ast.AugAssign)))
    ctx.check("C35.factors", cbc, "len(subject_properties.existing_predicates) * 2" in t and "branch_less_code_objects" in t, "compute_branch_coverage no longer counts 2 per predicate + 1 per branch-less code object (the report's factors)", what="metric uses the same factors")

    # ------------------------------------------------------------------ C35.source
    src = [n for n in own_nodes(gcr) if isinstance(n, ast.Assign) and norm(n.targets[0]) == "source"]
    ok = len(src) == 1 and norm(src[0].value) == "inspect.getsourcelines(sys.modules[config.configuration.module_name])[0]"
    ctx.check("C35.source", src[0] if src else gcr, ok, f"the source text is `{norm(src[0].value)[:90] if src else '?'}`, not read from the configured module at report time: a stale or foreign text would be annotated with the current coverage", what="source read from sys.modules[configured module] at report time")
    cached = [qn for qn, f in mod.functions.items() if any("cache" in d for d in decorator_names(f))]
    ctx.check("C35.source", gcr, not cached, f"report functions {cached} are memoised: a later report for a module of the same name reuses data of the earlier one", what="no memoised function in the report module")

    # ------------------------------------------------------------------ C35.xml
    _xml_lines(ctx, repo)
    x = repo.func(RP, "render_xml_coverage_report")
    ctx.analysed(x)
    env = {norm(n.targets[0]): norm(n.value) for n in own_nodes(x) if isinstance(n, ast.Assign) and isinstance(n.targets[0], ast.Name)}
    want = {
        "branches_covered": "f'{cov_report.branches.covered + cov_report.branchless_code_objects.covered}'",
        "branches_valid": "f'{cov_report.branches.existing + cov_report.branchless_code_objects.existing}'",
        "lines_covered": "f'{cov_report.lines.covered}'",
        "lines_valid": "f'{cov_report.lines.existing}'",
    }
    for k, v in want.items():
        ctx.check("C35.xml", x, env.get(k) == v, f"XML total `{k}` is {env.get(k)}", what=f"{k} = {v}", stmt=f"[{k}]")


def _html_alignment(ctx, repo) -> None:
    """The HTML report prints line numbers and coverage markers for every source line next to the highlighted code: the
    lexer handed to the template must produce one output line per source line (leading blank lines are kept)."""
    import functools

    from sa.engine import peval

    fn = repo.func(RP, "render_coverage_report")
    ctx.analysed(fn)
    mod = repo.module(RP)
    kws = [k for c in own_nodes(fn) if isinstance(c, ast.Call) and last_attr(c) == "render" for k in c.keywords if k.arg == "lexer"]
    if len(kws) != 1:
        raise AnalysisError("C35.html: render_coverage_report no longer hands a `lexer` to the template")
    try:
        import pygments
        from pygments.formatters.html import HtmlFormatter
        from pygments.lexers.python import PythonLexer
    except ImportError as exc:  # pygments is a dependency of the repository's own environment
        raise AnalysisError(f"C35.html: pygments is not importable in the checker's interpreter: {exc}") from exc
    it = peval.Interp(resolver=peval.repo_resolver(repo), consts={"PythonLexer": PythonLexer, "functools": functools, "functools.partial": functools.partial, "partial": functools.partial}, native_types=(type, functools.partial), max_steps=1000, externs={"functools.partial": functools.partial, "partial": functools.partial})
    try:
        factory = it.ev(kws[0].value, {}, mod)
        lexer = factory()
    except (peval.Undecided, peval.Raises, TypeError) as exc:
        ctx.undecide("C35.html", fn, f"lexer expression `{norm(kws[0].value)}`: {exc}")
        return
    for label, src in (("three leading blank lines", "\n\n\ndef f(x):\n    if x:\n        return 1\n    return 2\n"), ("no leading blank line", "def f(x):\n    return x\n"), ("blank lines inside", "def f(x):\n\n\n    return x\n")):
        out = pygments.highlight(src, lexer, HtmlFormatter())
        body = out[out.index("<pre>") + 5 : out.rindex("</pre>")]
        n_out = len(body.split("\n")) - 1
        n_src = len(src.splitlines())
        ctx.check("C35.html", kws[0].value, n_out == n_src, f"[{label}] the highlighted code has {n_out} lines, the module {n_src}: every coverage marker and line number after the stripped lines stands next to the wrong code line (an uncovered `return 2` is shown as covered)", what=f"[{label}] one highlighted line per source line", stmt=f"[html] {label}")


def _regular_result(ctx, repo) -> None:
    """The result the type-tracing executor hands to the coverage functions is the one of the regular execution: no
    execution performed under the proxy observer / the isinstance shim is returned (a module can behave differently for a
    proxy - `type(value) is int` - so its trace is not what the suite covers)."""
    EXE = "pynguin.testcase.execution"
    fn = repo.try_func(EXE, "TypeTracingTestCaseExecutor.execute")
    if fn is None:
        raise AnalysisError("anchor vanished: TypeTracingTestCaseExecutor.execute")
    ctx.analysed(fn)
    proxied_withs = [w for w in own_nodes(fn) if isinstance(w, ast.With) and any("shim_isinstance" in norm(i.context_expr) or "_type_tracing_observer" in norm(i.context_expr) for i in w.items)]
    if not proxied_withs:
        raise AnalysisError("C35.regular-result: the proxied execution block vanished")
    rets = [r for r in own_nodes(fn) if isinstance(r, ast.Return) and r.value is not None]
    names = {norm(r.value) for r in rets if isinstance(r.value, ast.Name)}
    n = 0
    for w in proxied_withs:
        for x in ast.walk(w):
            bad = None
            if isinstance(x, ast.Assign) and any(norm(t) in names for t in x.targets) and any(isinstance(c, ast.Call) and last_attr(c) == "execute" for c in ast.walk(x.value)):
                bad = x
            if isinstance(x, ast.Return) and x.value is not None and any(isinstance(c, ast.Call) and last_attr(c) == "execute" for c in ast.walk(x.value)):
                bad = x
            if bad is not None:
                n += 1
                ctx.fail("C35.regular-result", bad, f"`{norm(bad)[:80]}` makes the result of the execution with proxied arguments the one that is returned: coverage and report then show what the module does for a proxy (e.g. the else branch of `if type(value) is int:`), not what the suite executes", stmt="[proxied result returned]")
    if n == 0:
        ctx.ok("C35.regular-result", fn, "no execution inside the proxied block is returned")
