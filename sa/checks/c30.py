"""C30 — test executions are isolated and restore process state.

Decides save/restore symmetry by code shape: for every piece of process state an execution-path
context manager changes on entry (standard streams, file descriptors 0-2, the logging threshold)
the value written back on exit originates from a read of that state made on entry, is written
unconditionally (not depending on what the executed code left behind) and on every exit; the
shared output sink is re-opened when a test case closed it; SUT random generators are reseeded
before - not after - every execution and Pynguin's own generator is excluded; the executor
restores the streams on its timeout path.  By interpretation over a model of the process: entering
with the shared sink usable / closed / detached yields one usable shared sink; enter -> a test case
that rebinds stdin, stdout, stderr, raises the logging threshold and the root level and closes fds
0-2 -> restore() leaves every facet as before.  Hidden state of the module under test is not decided.
Further clauses (added later): C30.sink is interpreted with filesystem isolation active (the builtin open
refuses /dev/null) when the executor enters the isolation first; C30.tracked (must-pass): every seeded Random
instance is registered for reseeding.
"""

from __future__ import annotations

import ast
import re

from sa.engine.cfg import CFG
from sa.engine.index import AnalysisError, decorator_names, last_attr, norm, own_nodes, parent

ISO = "pynguin.testcase.execution_isolation"
EXE = "pynguin.testcase.execution"
OSC = "OutputSuppressionContext"


def _stmt(n):
    while n is not None and not isinstance(n, ast.stmt):
        n = parent(n)
    return n


def _conds(stmt, stop):
    out = []
    n, p = stmt, parent(stmt)
    while p is not None and p is not stop:
        if isinstance(p, ast.If):
            out.append((norm(p.test), n in p.body))
        n, p = p, parent(p)
    return out


class _Sink:
    """stand-in for the shared /dev/null text stream"""

    def __init__(self, state):
        self.state = state

    @property
    def closed(self):
        if self.state == "detached":
            raise ValueError("underlying buffer has been detached")
        return self.state == "closed"


def _sink(ctx, repo, enter) -> None:
    """__enter__ interpreted with the shared sink usable, closed (sys.stdout.close()) and detached
    (sys.stdout.detach()) by an earlier test case: it returns normally with sys.stdout / sys.stderr bound to a
    usable sink - the shared one, or a freshly opened one that later executions share."""
    import types as _types

    from sa.engine import peval

    cres = peval.repo_class_resolver(repo)
    mod = repo.module(ISO)
    # is the suppression entered while filesystem isolation is active? (order of the with-items in the executor)
    isolated = False
    for _m, _qn, fn in repo.all_functions(EXE):
        for w in own_nodes(fn):
            if isinstance(w, ast.With):
                kinds = ["iso" if "FilesystemIsolation" in norm(i.context_expr) else "osc" if "suppression" in norm(i.context_expr) else "" for i in w.items]
                if "iso" in kinds and "osc" in kinds and kinds.index("iso") < kinds.index("osc"):
                    isolated = True
    for state in ("usable", "closed", "detached"):
        label = f"[sink {state}]" + (" under filesystem isolation" if isolated else "")
        shared = _Sink(state)
        opened = []

        def open_(*a, _o=opened, **k):
            _o.append(_Sink("usable"))
            return _o[-1]

        sysmod = _types.SimpleNamespace(stdout="<stdout>", stderr="<stderr>", __stdout__="<stdout>", __stderr__="<stderr>")
        stores = {}
        it = peval.Interp(resolver=peval.repo_resolver(repo), class_resolver=cres, native_types=(_Sink, _types.SimpleNamespace), on_store=lambda k, v, _s=stores: _s.__setitem__(k, v),
                          externs={"open": open_, "os.dup": lambda fd: 100 + fd, "os.close": lambda fd: None}, consts={"logging.root.manager.disable": 0, "logging.root.level": 30, "logging.root.handlers": [], "logging.root.manager.loggerDict": {}, "os.devnull": "/dev/null"})
        it.class_store[OSC, "_null_file"] = shared
        obj = it.instantiate(OSC, cres(OSC, mod), [], {}, init=False)
        obj.fields.update({"_saved_fds": {}, "_saved_logging_disable": None, "_restored": False})
        # class-level aliases are bound when the module is imported, i.e. to the real `open`
        for st in repo.cls(ISO, OSC).body:
            if isinstance(st, ast.Assign) and len(st.targets) == 1 and isinstance(st.targets[0], ast.Name) and st.targets[0].id != "_null_file":
                v = st.value
                if isinstance(v, ast.Call) and norm(v.func) == "staticmethod" and len(v.args) == 1:
                    v = v.args[0]
                if isinstance(v, (ast.Name, ast.Attribute)) and norm(v) in it.externs:
                    obj.fields[st.targets[0].id] = it.externs[norm(v)]  # e.g. an alias of the real `open`
                    continue
                try:
                    obj.fields[st.targets[0].id] = it.ev(v, {}, mod)
                except peval.Undecided:
                    pass
        if isolated:
            # while the test case runs, builtins.open / io.open are the isolation's wrappers: /dev/null is not inside the sandbox
            def refused(*a, **k):
                raise peval.Raises("PermissionError", "Attempted to modify non-isolated path: /dev/null")

            it.externs["open"] = refused
            it.externs["io.open"] = refused
        try:
            obj.methods["__enter__"]()
        except peval.Undecided as exc:
            ctx.undecide("C30.sink", enter, f"{label}: {exc}")
            continue
        except peval.Raises as exc:
            ctx.fail("C30.sink", enter, f"{label}: entering the output suppression raises {exc.name} ({exc.detail[:60]}) after an earlier test case left the shared sink {state}: every later execution fails in its worker thread and is reported as a timeout (results depend on which tests ran before)", stmt=label)
            continue
        out, err = stores.get("sys.stdout"), stores.get("sys.stderr")
        now_shared = it.class_store.get((OSC, "_null_file"))
        usable = isinstance(out, _Sink) and out.state == "usable" and out is err
        kept = (out is shared and not opened) if state == "usable" else (bool(opened) and out is opened[-1] and now_shared is out)
        ctx.check("C30.sink", enter, usable and kept, f"{label}: after __enter__ sys.stdout is {getattr(out, 'state', out)!r}, sys.stderr {getattr(err, 'state', err)!r}, sinks opened {len(opened)}, shared sink replaced: {now_shared is not shared}: the streams of the executed code must be one usable sink - the shared one while it is usable, else a new one that becomes the shared sink", what=f"{label} streams redirected to a usable shared sink", stmt=label)


def _roundtrip(ctx, repo, restore) -> None:
    """__enter__ -> (the executed code changes the process state) -> restore(), interpreted over a model of
    the process: every facet of the standard streams and of the logging state is as before."""
    import contextlib
    import types as _types

    from sa.engine import peval

    cres = peval.repo_class_resolver(repo)
    mod = repo.module(ISO)

    class _Logger:
        def __init__(self):
            self.disabled = False

    class Root:
        def __init__(self):
            self.level = 30
            self.handlers = ["<pynguin's handler>"]
            self.manager = _types.SimpleNamespace(disable=0, loggerDict={"pynguin.generator": _Logger(), "placeholder": "<PlaceHolder>"})

        def setLevel(self, level):  # noqa: N802
            self.level = level

    root = Root()
    sysmod = _types.SimpleNamespace(stdout="<stdout>", stderr="<stderr>", stdin="<stdin>", __stdout__="<stdout>", __stderr__="<stderr>", __stdin__="<stdin>")
    fds = {0: "in", 1: "out", 2: "err"}
    dups = {}

    def dup(fd):
        n = 100 + len(dups)
        dups[n] = fds.get(fd)
        return n

    def dup2(src, dst):
        fds[dst] = dups.get(src, fds.get(src))

    def on_store(key, value):
        if key.startswith("sys."):
            setattr(sysmod, key[4:], value)

    it = peval.Interp(resolver=peval.repo_resolver(repo), class_resolver=cres, native_types=(_Sink, _types.SimpleNamespace, Root, _Logger, type(contextlib.nullcontext())), on_store=on_store,
                      externs={"open": lambda *a, **k: _Sink("usable"), "os.dup": dup, "os.dup2": dup2, "os.close": lambda fd: dups.pop(fd, None), "logging.disable": lambda level=50: setattr(root.manager, "disable", level),
                               "contextlib.suppress": lambda *a: contextlib.nullcontext()},
                      consts={"sys": sysmod, "logging.root": root, "os.devnull": "/dev/null", "logging.Logger": _Logger})
    it.class_store[OSC, "_null_file"] = _Sink("usable")
    obj = it.instantiate(OSC, cres(OSC, mod), [], {}, init=False)
    try:
        init = repo.func(ISO, f"{OSC}.__init__")
        it2 = peval.Interp(resolver=peval.repo_resolver(repo), class_resolver=cres, externs={"threading.Lock": lambda: contextlib.nullcontext()}, native_types=(type(contextlib.nullcontext()),))
        fresh = it2.instantiate(OSC, cres(OSC, mod), [], {})
        obj.fields.update(fresh.fields)
        def facets():
            return {"sys.stdin": sysmod.stdin, "sys.stdout": sysmod.stdout, "sys.stderr": sysmod.stderr, "logging threshold (logging.disable)": root.manager.disable, "level of the root logger": root.level, "file descriptors 0-2": dict(fds),
                    "handlers of the root logger": list(root.handlers), "disabled flags of the existing loggers": {k: v.disabled for k, v in root.manager.loggerDict.items() if isinstance(v, _Logger)}}

        before = facets()
        obj.methods["__enter__"]()
        # what a test case may do
        sysmod.stdin, sysmod.stdout, sysmod.stderr = "<SUT stdin>", "<SUT stdout>", "<SUT stderr>"
        root.manager.disable, root.level = 40, 50
        root.handlers[:] = ["<handler the test case installed (logging.basicConfig(force=True))>"]
        root.manager.loggerDict["pynguin.generator"].disabled = True  # logging.config.dictConfig({"version": 1})
        root.manager.loggerDict["sut.logger"] = _Logger()
        fds.update({0: None, 1: None, 2: None})
        obj.methods["restore"]()
    except peval.Undecided as exc:
        ctx.undecide("C30.roundtrip", restore, str(exc))
        return
    except peval.Raises as exc:
        ctx.fail("C30.roundtrip", restore, f"enter / restore raises {exc.name} ({exc.detail[:60]})", stmt="[raises]")
        return
    after = facets()
    after["disabled flags of the existing loggers"] = {k: v for k, v in after["disabled flags of the existing loggers"].items() if k in before["disabled flags of the existing loggers"]}
    for facet, was in before.items():
        ctx.check("C30.roundtrip", restore, after[facet] == was, f"{facet}: {was!r} before the execution, {after[facet]!r} after a test case changed it and the context was left: Pynguin's process state is not as before (a test case that rebinds sys.stdin, or calls logging.getLogger().setLevel(...), affects everything that runs later)", what=f"{facet} as before", stmt=f"[{facet}]")


def check(ctx) -> None:
    repo = ctx.repo
    ctx.rule("C30.tracked", "MUST-PASS: every path through the patched random.Random.seed registers the instance in the set that _make_deterministic reseeds", floor=1)
    _tracked_instances(ctx, repo)
    ctx.rule("C30.restore-saved", "the value written back to a process global on exit originates from a read of that global made on entry", floor=4)
    ctx.rule("C30.unconditional", "restoring writes do not depend on the state the executed code left behind; they are guarded only by the idempotence flag / `saved is not None`", floor=3)
    ctx.rule("C30.all-exits", "restore happens on every exit: __exit__ calls restore(), generator context managers restore in finally, the executor restores on its timeout path", floor=4)
    ctx.rule("C30.sink", "ABSINT: __enter__ interpreted with the shared /dev/null sink usable, closed and detached by an earlier test case: returns normally with both streams on one usable sink, re-opening and re-sharing it when needed", floor=3)
    ctx.rule("C30.roundtrip", "ABSINT: __enter__, then a test case that rebinds the three standard streams, raises the logging threshold and the root level and closes fds 0-2, then restore(), interpreted over a model of the process: stdin, stdout, stderr, threshold, root level, root handlers, the disabled flags of the existing loggers and fds are as before", floor=8)
    ctx.rule("C30.reseed", "SUT random generators are reseeded before every execution (the reseed dominates the first executed statement), with the configured seed, excluding Pynguin's own generator", floor=4)

    mod = repo.module(ISO)
    enter = repo.func(ISO, f"{OSC}.__enter__")
    restore = repo.func(ISO, f"{OSC}.restore")
    exit_ = repo.func(ISO, f"{OSC}.__exit__")
    for f in (enter, restore, exit_):
        ctx.analysed(f)

    # ------------------------------------------------------------------ saved state table (from __enter__)
    saved = {}  # self attribute -> source expression read on entry
    for n in own_nodes(enter):
        if isinstance(n, ast.Assign):
            t = n.targets[0]
            if isinstance(t, ast.Attribute) and norm(t.value) == "self":
                saved[t.attr] = norm(n.value)
            if isinstance(t, ast.Subscript) and isinstance(t.value, ast.Attribute) and norm(t.value.value) == "self":
                saved[t.value.attr] = norm(n.value)
    ctx.extra["saved_on_entry"] = saved
    # writes on exit
    GLOBALS = {
        "sys.stdout": ("stream", r"sys\.stdout"),
        "sys.stderr": ("stream", r"sys\.stderr"),
    }
    writes = []
    for n in own_nodes(restore):
        if isinstance(n, ast.Assign):
            for t in (n.targets[0].elts if isinstance(n.targets[0], ast.Tuple) else [n.targets[0]]):
                if norm(t) in GLOBALS:
                    writes.append((norm(t), n))
    if len(writes) < 2:
        raise AnalysisError("OutputSuppressionContext.restore no longer writes sys.stdout / sys.stderr")
    for g, n in writes:
        val = norm(n.value)
        from_saved = any(re.search(rf"self\.{re.escape(a)}\b", val) and re.search(GLOBALS[g][1], src) for a, src in saved.items())
        ctx.check("C30.restore-saved", n, from_saved, f"restore() writes `{g} = {val}`, a constant stream, instead of the object {g} referred to when the context was entered: if Pynguin's own {g} was redirected (captured, wrapped by a console library) it is not as before after the execution", what=f"{g} restored from the value saved on entry", stmt=f"[{g}]")
        conds = [c for c, pol in _conds(n, restore) if not (c in ("self._restored",) or re.fullmatch(r"self\._saved_\w+ is not None", c))]
        ctx.check("C30.unconditional", n, not conds, f"`{norm(n)}` is only executed under `{'; '.join(conds)}`: when the executed code rebound {g} itself, Pynguin's stream is not put back", what=f"{g} written back unconditionally", stmt=f"[{g}] unconditional")
    # fds
    dups = [n for n in own_nodes(enter) if isinstance(n, ast.Call) and norm(n.func) == "os.dup"]
    dup2 = [n for n in own_nodes(restore) if isinstance(n, ast.Call) and norm(n.func) == "os.dup2"]
    loop = next((n for n in own_nodes(restore) if isinstance(n, ast.For) and "self._saved_fds" in norm(n.iter)), None)
    ok = len(dups) == 1 and len(dup2) == 1 and loop is not None and isinstance(loop.target, ast.Tuple) and [norm(a) for a in dup2[0].args] == [norm(loop.target.elts[1]), norm(loop.target.elts[0])] and norm(loop.iter) == "self._saved_fds.items()"
    fds = next((n for n in own_nodes(enter) if isinstance(n, ast.For) and isinstance(n.iter, ast.Tuple)), None)
    ok = ok and fds is not None and sorted(norm(e) for e in fds.iter.elts) == ["0", "1", "2"]
    ctx.check("C30.restore-saved", restore, ok, "file descriptors 0-2 are not put back from the duplicates taken on entry (os.dup2(saved, fd) for every saved pair)", what="fds 0-2: dup on entry, dup2(saved, fd) on exit", stmt="[fds]")
    # logging threshold
    lg = [n for n in own_nodes(restore) if isinstance(n, ast.Call) and norm(n.func) == "logging.disable"]
    ok = len(lg) == 1 and re.fullmatch(r"self\.(\w+)", norm(lg[0].args[0])) is not None and "logging.root.manager.disable" in saved.get(norm(lg[0].args[0]).split(".")[1], "")
    ctx.check("C30.restore-saved", lg[0] if lg else restore, ok, "the logging threshold is not put back to the value read on entry: a test case calling logging.disable(...) silences Pynguin for the rest of the run", what="logging threshold restored from the value saved on entry", stmt="[logging]")
    if lg:
        conds = [c for c, pol in _conds(_stmt(lg[0]), restore) if not (c == "self._restored" or re.fullmatch(r"self\._saved_\w+ is not None", c))]
        ctx.check("C30.unconditional", lg[0], not conds, f"logging threshold restored only under `{conds}`", what="logging threshold written back unconditionally", stmt="[logging] unconditional")
    # suppress_logging generator
    sl = repo.func(ISO, "suppress_logging")
    ctx.analysed(sl)
    tr = next((n for n in own_nodes(sl) if isinstance(n, ast.Try)), None)
    prev = {norm(n.targets[0]): norm(n.value) for n in own_nodes(sl) if isinstance(n, ast.Assign)}
    fin = [n for s in (tr.finalbody if tr is not None else []) for n in ast.walk(s) if isinstance(n, ast.Call) and norm(n.func) == "logging.disable"]
    ok = tr is not None and len(fin) == 1 and prev.get(norm(fin[0].args[0])) == "logging.root.manager.disable"
    if ok:
        # the read happens before the threshold is raised
        first_disable = min(n.lineno for n in own_nodes(sl) if isinstance(n, ast.Call) and norm(n.func) == "logging.disable")
        rd = next(n for n in own_nodes(sl) if isinstance(n, ast.Assign) and norm(n.value) == "logging.root.manager.disable")
        ok = rd.lineno < first_disable
    ctx.check("C30.restore-saved", sl, ok, "suppress_logging does not restore the threshold that was in force before it raised it (e.g. resets to NOTSET)", what="suppress_logging restores the previous threshold in finally", stmt="[suppress_logging]")

    # ------------------------------------------------------------------ C30.all-exits
    calls = [norm(n) for n in own_nodes(exit_) if isinstance(n, ast.Call)]
    ctx.check("C30.all-exits", exit_, calls == ["self.restore()"] and not [n for n in own_nodes(exit_) if isinstance(n, ast.If)], "__exit__ does not unconditionally call restore()", what="__exit__ -> restore()")
    ctx.check("C30.all-exits", sl, tr is not None and bool(tr.finalbody) and any(isinstance(x, ast.Yield) for s in tr.body for x in ast.walk(s)), "suppress_logging's restore is not in a finally around the yield", what="suppress_logging restores in finally")
    ex = repo.func(EXE, "TestCaseExecutor.execute")
    ctx.analysed(ex)
    alive = [n for n in own_nodes(ex) if isinstance(n, ast.If) and "is_alive()" in norm(n.test)]
    ok = bool(alive) and any(isinstance(c, ast.Call) and norm(c.func).endswith(".restore") for s in alive[0].body for c in ast.walk(s))
    ctx.check("C30.all-exits", alive[0] if alive else ex, ok, "the executor's timeout branch does not restore the output streams (the abandoned thread may never leave the context)", what="timeout path restores the streams")
    etc = repo.func(EXE, "TestCaseExecutor._execute_test_case")
    ctx.analysed(etc)
    w = next((n for n in own_nodes(etc) if isinstance(n, ast.With)), None)
    items = [norm(i.context_expr) for i in w.items] if w is not None else []
    ok = "output_suppression_context" in items and any("FilesystemIsolation" in i for i in items) and any("instrumentation_tracer" in i for i in items)
    ok = ok and any(isinstance(c, ast.Call) and last_attr(c) == "_exec_statement" for c in ast.walk(w))
    ctx.check("C30.all-exits", w or etc, ok, "statements are not executed inside `with FilesystemIsolation(), output_suppression_context, tracer`", what="statements run inside the isolation contexts")

    # ------------------------------------------------------------------ C30.sink
    _sink(ctx, repo, enter)
    _roundtrip(ctx, repo, restore)

    # ------------------------------------------------------------------ C30.reseed
    md = repo.func(ISO, "_make_deterministic")
    ctx.analysed(md)
    seeds = [n for n in own_nodes(md) if isinstance(n, ast.Call) and last_attr(n) == "seed"]
    seedvar = {norm(n.targets[0]): norm(n.value) for n in own_nodes(md) if isinstance(n, ast.Assign)}
    ok = len(seeds) >= 2 and all(seedvar.get(norm(s.args[0])) == "config.configuration.seeding.seed" for s in seeds if s.args)
    ctx.check("C30.reseed", md, ok, "_make_deterministic no longer reseeds with the configured seed", what="reseed with config.configuration.seeding.seed")
    guard = [n for n in own_nodes(md) if isinstance(n, ast.If) and norm(n.test) == "_inst is not randomness.RNG"]
    inst_seed = [s for s in seeds if norm(s.func) == "_inst.seed"]
    ok = len(guard) == 1 and len(inst_seed) == 1 and _stmt(inst_seed[0]) in guard[0].body
    ctx.check("C30.reseed", md, ok, "tracked Random instances are reseeded without excluding randomness.RNG: every execution would reset Pynguin's own random stream", what="Pynguin's RNG excluded from reseeding")
    btc = repo.func(EXE, "TestCaseExecutor._before_test_case_execution")
    atc = repo.func(EXE, "TestCaseExecutor._after_test_case_execution")
    ctx.analysed(btc)
    first = next((s for s in btc.body if not (isinstance(s, ast.Expr) and isinstance(s.value, ast.Constant))), None)
    ctx.check("C30.reseed", btc, first is not None and norm(first) == "_make_deterministic()", "_before_test_case_execution does not start by reseeding the SUT's random generators", what="reseed is the first action before a test case")
    cfg = CFG(etc)
    before = {n.id for n in cfg.nodes if n.kind == "stmt" and n.stmt is not None and any(isinstance(c, ast.Call) and last_attr(c) == "_before_test_case_execution" for c in ast.walk(n.stmt))}
    execs = [n.id for n in cfg.nodes if n.stmt is not None and n.kind == "stmt" and any(isinstance(c, ast.Call) and last_attr(c) == "_exec_statement" for c in ast.walk(n.stmt))]
    p = cfg.path([cfg.entry], execs, avoid_nodes=before)
    ctx.paths += 1
    ctx.check("C30.reseed", etc, p is None and bool(before) and bool(execs), "a statement can be executed without the reseeding hook having run first: after a timed-out test case (whose after-hook never runs) the next test case sees consumed random state", what="reseed hook dominates statement execution", path=cfg.describe_path(p) if p else [])


def _tracked_instances(ctx, repo) -> None:
    """Every random.Random instance that is seeded through the patched seed - whatever seed it is given - is registered
    for the per-execution reseeding: the registration is passed on every path through the replacement function."""
    from sa.engine.cfg import CFG

    GEN = "pynguin.generator"
    outer = repo.try_func(GEN, "_patch_random")
    if outer is None:
        raise AnalysisError("anchor vanished: generator._patch_random")
    inner = [f for f in ast.walk(outer) if isinstance(f, ast.FunctionDef) and f is not outer and len(f.args.args) >= 1]
    tracked_sets = {norm(s.targets[0]) for s in ast.walk(outer) if isinstance(s, ast.Assign) and len(s.targets) == 1 and isinstance(s.targets[0], ast.Attribute) and s.targets[0].attr == "__pynguin_instances__" for _ in (0,)}
    reg_names = {norm(s.value) for s in ast.walk(outer) if isinstance(s, ast.Assign) and len(s.targets) == 1 and isinstance(s.targets[0], ast.Attribute) and s.targets[0].attr == "__pynguin_instances__"}
    if len(inner) != 1 or not reg_names:
        raise AnalysisError("C30.tracked: the replacement seed function / its instance registry vanished")
    fn = inner[0]
    ctx.analysed(fn)
    selfname = fn.args.args[0].arg
    cfg = CFG(fn)
    adds = {n.id for n in cfg.nodes if n.kind == "stmt" and n.stmt is not None and any(isinstance(c, ast.Call) and isinstance(c.func, ast.Attribute) and c.func.attr == "add" and norm(c.func.value) in reg_names and c.args and norm(c.args[0]) == selfname for c in ast.walk(n.stmt)) and not isinstance(n.stmt, (ast.If, ast.For, ast.While, ast.With, ast.Try))}
    p = cfg.path([cfg.entry], [cfg.exit], avoid_nodes=adds, labels_excluded=("exc",)) if adds else [cfg.entry]
    ctx.check("C30.tracked", fn, p is None, "a path through the patched Random.seed does not register the instance (e.g. only instances seeded with the default are tracked): a generator the module under test seeds explicitly - random.Random(2024) - is never put back before an execution, so what a test case draws depends on the test cases executed before it", what="every seeded Random instance is registered for reseeding", path=cfg.describe_path(p) if p else [], stmt="[tracked] registration on every path")
