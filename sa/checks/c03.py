"""C03 — reported branch outcomes equal the branches actually taken.

Decides the agreement clauses between the three places that give "true" and "false" a meaning:
 * C03.polarity    per version and conditional-jump opcode: the outcome the tracer records as true
                   (derived by interpreting the tracer callbacks from source) coincides with the CFG edge
                   labelled True (get_branch_type + the labelling in CFG._create_nodes_and_edges), given
                   when the opcode jumps (table from the CPython documentation);
 * C03.exhaustive  the opcodes with a branch type are exactly COND_BRANCH_NAMES (INSTRUMENTED_* aside),
                   the none-based mapping only names such opcodes, every one is in the jump table;
 * C03.operands    the tracer receives (left, right) / (exception, match type) / the tested value, in
                   that order (symbolic stack over the interpreted templates);
 * C03.registered  every predicate visitor registers a predicate before it splices, and visit_node ends in
                   the bool-based visitor for every remaining conditional jump;
 * C03.goals       both outcomes of every predicate are goals; BranchGoal.is_covered reads the distance
                   map of its own outcome; exception matching follows issubclass (tuples included);
 * C03.restore     temporarily_disable / temporarily_enable restore the previous state on every exit.
Not decided: that the basic block chosen as predicate node executes once per evaluation; short-circuit
structure; the bytecode library's is_cond_jump().
Further clauses (added later): C03.isolation: outcomes recorded by one execution do not reach the import
trace, a later execution or another test's result (same interpretation as C02.isolation, predicate maps).
"""

from __future__ import annotations

import ast
import math

from sa.checks import _instr as I
from sa.engine import peval
from sa.engine.index import AnalysisError, last_attr, norm, own_nodes, parent

TR = "pynguin.instrumentation.tracer"
CF = "pynguin.instrumentation.controlflow"
TU = "pynguin.utils.type_utils"
CG = "pynguin.ga.coveragegoals"

# when does the opcode jump (CPython documentation of the dis module)
JUMPS_WHEN = {
    "POP_JUMP_IF_TRUE": "truthy", "POP_JUMP_IF_FALSE": "falsy", "JUMP_IF_TRUE_OR_POP": "truthy", "JUMP_IF_FALSE_OR_POP": "falsy",
    "POP_JUMP_FORWARD_IF_TRUE": "truthy", "POP_JUMP_BACKWARD_IF_TRUE": "truthy", "POP_JUMP_FORWARD_IF_FALSE": "falsy", "POP_JUMP_BACKWARD_IF_FALSE": "falsy",
    "POP_JUMP_IF_NONE": "none", "POP_JUMP_IF_NOT_NONE": "not-none", "POP_JUMP_FORWARD_IF_NONE": "none", "POP_JUMP_BACKWARD_IF_NONE": "none",
    "POP_JUMP_FORWARD_IF_NOT_NONE": "not-none", "POP_JUMP_BACKWARD_IF_NOT_NONE": "not-none",
    "FOR_ITER": "exhausted", "JUMP_IF_NOT_EXC_MATCH": "no-match",
}


def _branch_type_table(repo, v):
    mod = repo.module(I.VMOD + v)
    r = repo.resolve_name(mod, "get_branch_type")
    if not r or r[1] not in repo.modules[r[0]].functions:
        raise AnalysisError(f"{v}: get_branch_type does not resolve")
    fn = repo.modules[r[0]].functions[r[1]]
    mt = next((n for n in own_nodes(fn) if isinstance(n, ast.Match)), None)
    if mt is None:
        raise AnalysisError(f"{v}: get_branch_type has no match statement")
    table = {}
    for c in mt.cases:
        ret = next((s for s in c.body if isinstance(s, ast.Return)), None)
        if ret is None or not isinstance(ret.value, ast.Constant):
            continue
        pats = c.pattern.patterns if isinstance(c.pattern, ast.MatchOr) else [c.pattern]
        for p in pats:
            if isinstance(p, ast.MatchValue) and isinstance(p.value, ast.Constant) and ret.value.value is not None:
                table[p.value.value] = ret.value.value
    return fn, table


def _fold_names(repo, v, name):
    mod = repo.module(I.VMOD + v)
    r = repo.resolve_name(mod, name)
    if not r:
        return None
    m2 = repo.modules[r[0]]
    e = m2.assigns.get(r[1])
    return repo.fold(m2, e) if e is not None else None


def _tracer_truth(ctx, repo):
    """What does `true distance == 0` mean for each callback?  Derived by interpreting the callbacks."""
    tmod = repo.module(TR)
    um = repo.func(TR, "ExecutionTracer._update_metrics")
    names = [a.arg for a in um.args.args][1:]
    ti, fi = names.index("distance_true"), names.index("distance_false")

    def run(fn, args, extra=None):
        it = peval.Interp(resolver=peval.repo_resolver(repo), identity={"tt.unwrap"}, sinks={"self._update_metrics"}, externs=extra or {}, max_steps=200000)
        it.run_function(fn, [peval.Obj("tracer"), *args], {}, tmod)
        if len(it.sink_calls) != 1:
            raise peval.Undecided(f"{fn.name}: {len(it.sink_calls)} calls of _update_metrics")
        _n, a, k = it.sink_calls[0]
        dt = k.get("distance_true", a[ti] if ti < len(a) else None)
        df = k.get("distance_false", a[fi] if fi < len(a) else None)
        return dt == 0.0, df == 0.0

    truth = {}
    ebp = repo.func(TR, "ExecutionTracer.executed_bool_predicate")
    ecp = repo.func(TR, "ExecutionTracer.executed_compare_predicate")
    eem = repo.func(TR, "ExecutionTracer.executed_exception_match")
    for f in (ebp, ecp, eem, um):
        ctx.analysed(f)
    t1, f1 = run(ebp, [True, 0])
    t2, f2 = run(ebp, [False, 0])
    if (t1, f1, t2, f2) == (True, False, False, True):
        truth["bool"] = "truthy"
    elif (t1, f1, t2, f2) == (False, True, True, False):
        truth["bool"] = "falsy"
    T = peval.Token
    for op in ("IS", "IS_NOT"):
        a = run(ecp, [None, None, 0, T(f"PynguinCompare.{op}")])
        b = run(ecp, [5, None, 0, T(f"PynguinCompare.{op}")])
        if (a, b) == ((True, False), (False, True)):
            truth[op] = "none"
        elif (a, b) == ((False, True), (True, False)):
            truth[op] = "not-none"
    a = run(eem, [ValueError("x"), ValueError, 0], {"given_exception_matches": lambda e, x: issubclass(type(e) if not isinstance(e, type) else e, x)})
    b = run(eem, [KeyError("x"), ValueError, 0], {"given_exception_matches": lambda e, x: issubclass(type(e) if not isinstance(e, type) else e, x)})
    if (a, b) == ((True, False), (False, True)):
        truth["exc"] = "match"
    elif (a, b) == ((False, True), (True, False)):
        truth["exc"] = "no-match"
    return truth


def check(ctx) -> None:
    repo = ctx.repo
    ctx.rule("C03.polarity", "TABLE-AGREE: tracer-true outcome == CFG edge labelled True, per version and conditional-jump opcode", floor=30)
    ctx.rule("C03.exhaustive", "set equality: opcodes with a branch type == COND_BRANCH_NAMES; none-based mapping and jump table cover them", floor=9)
    ctx.rule("C03.operands", "ABSINT/stack: predicate callbacks receive (left, right) / (exception, type) / tested value", floor=15)
    ctx.rule("C03.registered", "MUST-CALL: every predicate visitor registers a predicate; visit_node falls through to the bool-based visitor", floor=15)
    ctx.rule("C03.goals", "both outcomes are goals; is_covered reads the distance map of its outcome; exception matching == issubclass incl. tuples", floor=8)
    ctx.rule("C03.fresh", "ABSINT: after reset() the recording trace holds nothing recorded before; init_trace / store_import_trace start from the import trace only", floor=3)
    ctx.rule("C03.isolation", "ABSINT: the outcomes one execution / one test records do not reach the import trace, a later execution or another test's result (init_trace, analyze_results interpreted over traces of the ExecutionTrace class)", floor=3)
    from sa.checks.c02 import _isolation
    _isolation(ctx, repo, "C03.isolation")
    ctx.rule("C03.restore", "PAIR-FINALLY: temporarily_disable/enable restore the previous tracing state on every exit; callbacks compute under temporarily_disable", floor=5)

    try:
        truth = _tracer_truth(ctx, repo)
    except (peval.Undecided, peval.Raises) as exc:
        raise AnalysisError(f"tracer callbacks not interpretable: {exc}") from exc
    ctx.extra["tracer_truth"] = truth
    for k in ("bool", "IS", "IS_NOT", "exc"):
        if k not in truth:
            ctx.fail("C03.polarity", repo.func(TR, "ExecutionTracer._update_metrics"), f"the {k} callback does not report complementary outcomes for complementary inputs (true distance 0 for one, false distance 0 for the other)", stmt=f"[truth {k}]")
            return

    # CFG labelling: branch type True <=> the True edge goes to the jump target
    cne = repo.func(CF, "CFG._create_nodes_and_edges")
    ctx.analysed(cne)
    lab = None
    # roles by data flow: which local holds the jump target / the fall-through block / the branch type, and which
    # locals are paired with the edge values True / False
    role = {}
    for n in own_nodes(cne):
        if isinstance(n, ast.Assign) and len(n.targets) == 1 and isinstance(n.targets[0], ast.Name):
            v = norm(n.value)
            if v.endswith(".get_jump()"):
                role.setdefault(n.targets[0].id, "jump")
            elif v.endswith(".next_block"):
                role.setdefault(n.targets[0].id, "fall")
            elif isinstance(n.value, ast.Call) and last_attr(n.value) == "get_branch_type":
                role[n.targets[0].id] = "type"
    edge_of = {}
    for n in own_nodes(cne):
        if isinstance(n, (ast.List, ast.Tuple)) and len(n.elts) == 2 and all(isinstance(e, ast.Tuple) and len(e.elts) == 2 and isinstance(e.elts[0], ast.Name) and isinstance(e.elts[1], ast.Constant) and isinstance(e.elts[1].value, bool) for e in n.elts):
            for e in n.elts:
                edge_of[e.elts[0].id] = e.elts[1].value
    for n in own_nodes(cne):
        if isinstance(n, ast.If):
            t = n.test.operand if isinstance(n.test, ast.UnaryOp) and isinstance(n.test.op, ast.Not) else n.test
            if not (isinstance(t, ast.Name) and role.get(t.id) == "type"):
                continue
            body = {edge_of.get(norm(s.targets[0])): role.get(norm(s.value)) for s in n.body if isinstance(s, ast.Assign)}
            other = {edge_of.get(norm(s.targets[0])): role.get(norm(s.value)) for s in n.orelse if isinstance(s, ast.Assign)}
            if t is not n.test:
                body, other = other, body
            if body.get(True) == "jump" and body.get(False) == "fall" and other.get(True) == "fall" and other.get(False) == "jump":
                lab = True
            elif body.get(True) == "fall" and other.get(True) == "jump":
                lab = False
    if lab is None:
        raise AnalysisError("CFG._create_nodes_and_edges: labelling of true/false branches not recognised")
    pairs = sorted(edge_of.values()) == [False, True] or None
    ctx.check("C03.polarity", cne, pairs is not None, "CFG._create_nodes_and_edges no longer labels the edge to `true_branch` with True and the edge to `false_branch` with False", what="edge to true_branch is labelled True", stmt="[cfg labels]")

    for v in I.VERSIONS:
        fn, table = _branch_type_table(repo, v)
        ctx.analysed(fn)
        cond = _fold_names(repo, v, "COND_BRANCH_NAMES")
        if cond is None:
            raise AnalysisError(f"{v}: COND_BRANCH_NAMES not foldable")
        arms = {k for k in table if not k.startswith("INSTRUMENTED_")}
        ctx.check("C03.exhaustive", fn, arms == set(cond), f"[{v}] opcodes with a branch type {sorted(arms - set(cond))} are not in COND_BRANCH_NAMES / {sorted(set(cond) - arms)} have no branch type: the CFG asserts (or the slicer does not know) a conditional jump", what=f"[{v}] branch types == COND_BRANCH_NAMES ({len(cond)})", stmt=f"[{v} exhaustive]")
        m = repo.class_attr(I.VMOD + v, "BranchCoverageInstrumentation", "NONE_BASED_JUMPS_MAPPING")
        mapping = {}
        if m is not None and isinstance(m[2], ast.Dict):
            for k, val in zip(m[2].keys, m[2].values):
                mapping[k.value] = norm(val).split(".")[-1]
        if v != "python3_10":
            ctx.check("C03.exhaustive", m[2] if m else fn, set(mapping) <= set(cond) and {o for o in cond if JUMPS_WHEN.get(o) in ("none", "not-none")} <= set(mapping),
                      f"[{v}] none-based mapping {sorted(mapping)} vs none-based opcodes in COND_BRANCH_NAMES: an opcode is traced by the wrong visitor", what=f"[{v}] none-based mapping covers the none-based jumps", stmt=f"[{v} none mapping]")
        for op in cond:
            when = JUMPS_WHEN.get(op)
            if when is None:
                ctx.undecide("C03.polarity", fn, f"[{v}] {op}: not in the checker's jump table")
                continue
            if when == "exhausted":
                tracer_true_jumps = _for_loop_true_is_body(ctx, repo, v) is False
                how = "for loop: body reports True"
            elif when == "no-match":
                tracer_true_jumps = truth["exc"] == "no-match"
                how = f"exception match: true <=> {truth['exc']}"
            elif op in mapping:
                tracer_true_jumps = truth[mapping[op]] == when
                how = f"traced as {mapping[op]} None: true <=> value is {truth[mapping[op]]}"
            elif when in ("none", "not-none"):
                ctx.fail("C03.polarity", fn, f"[{v}] {op} is not in NONE_BASED_JUMPS_MAPPING: its operand is reported through the bool predicate (None and 0 alike)", stmt=f"[{v} {op}]")
                continue
            else:
                tracer_true_jumps = truth["bool"] == when
                how = f"bool/compare/exception result: true <=> operand {truth['bool']}"
            cfg_true_is_target = table.get(op) if lab else (not table.get(op))
            ctx.check("C03.polarity", fn, op in table and cfg_true_is_target == tracer_true_jumps,
                      f"[{v}] {op} jumps when the operand is {when}; {how}, i.e. the tracer's true outcome is the {'jump' if tracer_true_jumps else 'fall-through'}, but get_branch_type labels the {'jump target' if cfg_true_is_target else 'fall-through'} as true branch: for this opcode the reported outcome is the opposite of the CFG edge taken",
                      what=f"[{v}] {op}: tracer-true == CFG-true ({'jump' if tracer_true_jumps else 'fall-through'})", stmt=f"[{v} {op}]")
        _operands_and_registration(ctx, repo, v)

    _goals(ctx, repo)
    _restore(ctx, repo)
    _fresh(ctx, repo)


def _for_loop_true_is_body(ctx, repo, v):
    """True if visit_for_loop_body reports constant True and the natural exit constant False."""
    vals = {}
    for fn in I.effective_functions(repo, v, "BranchCoverageInstrumentation"):
        if fn.name in ("visit_for_loop_body", "visit_for_loop_natural_exit"):
            ctx.analysed(fn)
            for c in own_nodes(fn):
                if isinstance(c, ast.Call) and norm(c.func).endswith("InstrumentationConstantLoad") and c.keywords and isinstance(c.keywords[0].value, ast.Constant) and isinstance(c.keywords[0].value.value, bool):
                    vals[fn.name] = c.keywords[0].value.value
    if vals.get("visit_for_loop_body") is True and vals.get("visit_for_loop_natural_exit") is False:
        return True
    if vals.get("visit_for_loop_body") is False and vals.get("visit_for_loop_natural_exit") is True:
        return False
    raise AnalysisError(f"{v}: for-loop visitors do not report complementary constants: {vals}")


EXPECT_ARGS = {
    "visit_compare_based_conditional_jump": (["x2", "x1"], "(left, right) operand of the comparison"),
    "visit_exception_based_conditional_jump": (["x2", "x1"], "(raised exception, match type)"),
    "visit_bool_based_conditional_jump": (["x1"], "the tested value"),
    "visit_none_based_conditional_jump": (["x1"], "the tested value"),
}
REGISTER = {"visit_compare_based_conditional_jump", "visit_exception_based_conditional_jump", "visit_bool_based_conditional_jump", "visit_none_based_conditional_jump", "visit_for_loop"}


def _operands_and_registration(ctx, repo, v) -> None:
    gens = I.Generators(repo, v)
    fns = {f.name: f for f in I.effective_functions(repo, v, "BranchCoverageInstrumentation")}
    for name, (want, what) in EXPECT_ARGS.items():
        fn = fns.get(name)
        if name == "visit_none_based_conditional_jump" and v == "python3_10":
            continue
        if fn is None:
            raise AnalysisError(f"{v}: BranchCoverageInstrumentation.{name} vanished")
        ctx.analysed(fn)
        for site in I.sites_in(fn):
            for var in site.variants(None):
                try:
                    seq = gens.sequence(site.action, list(var), site.overriding)
                    depth = 2 if len(want) == 2 else 1
                    _st, calls, _c = I.run_stack(seq, [f"x{i}" for i in range(depth, 0, -1)], None)
                except (peval.Undecided, peval.Raises, I.StackError) as exc:
                    ctx.undecide("C03.operands", site.call, f"[{v} {name}]: {exc}")
                    continue
                got = calls[0][1][: len(want)] if calls else None
                ctx.check("C03.operands", site.call, got == want, f"[{v} {name}] the tracer receives {got} as {what}; the operands on the stack are {want} (x1 = top): distances and outcome are computed for swapped / wrong operands", what=f"[{v} {name}] {what} = {want}", stmt=f"[{v} {name} operands]")
    for name in REGISTER:
        fn = fns.get(name)
        if name == "visit_none_based_conditional_jump" and v == "python3_10":
            continue  # 3.10 has no none-based jumps; the base adapter only declares the visitor
        if fn is None:
            raise AnalysisError(f"{v}: BranchCoverageInstrumentation.{name} vanished")
        reg = [c for c in own_nodes(fn) if isinstance(c, ast.Call) and norm(c.func).endswith(("register_predicate", "_get_or_register_predicate"))]
        ctx.check("C03.registered", fn, bool(reg), f"[{v}] {name} splices a predicate call without registering the predicate: its outcomes are no goals", what=f"[{v}] {name} registers its predicate", stmt=f"[{v} {name} registers]")
    vn = fns.get("visit_node")
    if vn is None:
        raise AnalysisError(f"{v}: BranchCoverageInstrumentation.visit_node vanished")
    ctx.analysed(vn)
    last = vn.body[-1]
    ok = isinstance(last, ast.Expr) and isinstance(last.value, ast.Call) and norm(last.value.func) == "self.visit_bool_based_conditional_jump"
    ctx.check("C03.registered", vn, ok, f"[{v}] visit_node does not end in the bool-based visitor: a conditional jump that is neither compare- nor exception-based is not registered", what=f"[{v}] visit_node falls through to the bool-based visitor", stmt=f"[{v} visit_node tail]")
    called = {c.func.attr for c in own_nodes(vn) if isinstance(c, ast.Call) and norm(c.func).startswith("self.visit_")}
    need = {"visit_for_loop", "visit_compare_based_conditional_jump", "visit_exception_based_conditional_jump", "visit_bool_based_conditional_jump"} | ({"visit_none_based_conditional_jump"} if v != "python3_10" else set())
    ctx.check("C03.registered", vn, need <= called, f"[{v}] visit_node no longer dispatches to {sorted(need - called)}", what=f"[{v}] visit_node dispatches to all predicate visitors", stmt=f"[{v} visit_node dispatch]")
    # the early returns of visit_node are the exclusion guards (C08) and `not is_cond_jump()` only
    rets = [n for n in own_nodes(vn) if isinstance(n, ast.If) and any(isinstance(s, ast.Return) for s in n.body) and not any(isinstance(c, ast.Call) and norm(c.func).startswith("self.visit_") for s in n.body for c in ast.walk(s))]
    allowed = 0
    for r in rets:
        t = norm(r.test)
        # the local that holds the block's last instruction: `<x> = node.try_get_instruction(JUMP_OP_POS)` (or like)
        jump_locals = {norm(a.targets[0]) for a in own_nodes(vn) if isinstance(a, ast.Assign) and len(a.targets) == 1 and isinstance(a.value, ast.Call) and "instruction" in (last_attr(a.value) or "")}
        if any(t in (f"{j} is None", f"not {j}.is_cond_jump()") for j in jump_locals) or "ast_info is not None" in t:
            allowed += 1
        else:
            ctx.fail("C03.registered", r, f"[{v}] visit_node skips a basic block under `{t[:80]}`: conditional jumps of such blocks are never registered as predicates", stmt=f"[{v} visit_node skip] {t[:60]}")
    if allowed:
        ctx.ok("C03.registered", vn, f"[{v}] visit_node skips only jump-less blocks, excluded code and unconditional jumps")


def _goals(ctx, repo) -> None:
    cgm = repo.module(CG)
    cbg = repo.func(CG, "BranchGoalPool._compute_branch_goals")
    ctx.analysed(cbg)
    vals = sorted(c.keywords[0].value.value for c in own_nodes(cbg) if isinstance(c, ast.Call) and norm(c.func) == "BranchGoal" and c.keywords and isinstance(c.keywords[0].value, ast.Constant))
    ctx.check("C03.goals", cbg, vals == [False, True], f"_compute_branch_goals creates goals for outcomes {vals} per predicate, not [False, True]", what="one goal per outcome of every predicate", stmt="[both goals]")
    isc = repo.func(CG, "BranchGoal.is_covered")
    ctx.analysed(isc)
    cres = peval.repo_class_resolver(repo, only={"BranchGoal", "AbstractBranchCoverageGoal", "AbstractCoverageGoal"})
    for val, td, fd, want in ((True, 0.0, 2.0, True), (True, 1.0, 0.0, False), (False, 3.0, 0.0, True), (False, 0.0, 1.0, False)):
        trace = peval.Obj("trace", fields={"true_distances": {7: td}, "false_distances": {7: fd}, "executed_predicates": {7: 1}})
        result = peval.Obj("result", fields={"execution_trace": trace})
        it = peval.Interp(resolver=peval.repo_resolver(repo), class_resolver=cres)
        tag = f"[is_covered value={val} true={td} false={fd}]"
        try:
            goal = it.instantiate("BranchGoal", cres("BranchGoal", cgm), [1, 7], {"value": val})
            got = goal.methods["is_covered"](result)
        except (peval.Undecided, peval.Raises) as exc:
            ctx.undecide("C03.goals", isc, f"{tag}: {exc}")
            continue
        ctx.check("C03.goals", isc, bool(got) == want, f"{tag}: BranchGoal.is_covered returns {got}: the goal of one outcome is decided by the distance of the other", what=f"{tag} -> {want}", stmt=tag)
    gem = repo.func(TU, "given_exception_matches")
    ctx.analysed(gem)
    tum = repo.module(TU)
    for err, exc, want in ((KeyError, KeyError, True), (KeyError, LookupError, True), (KeyError, ValueError, False), (KeyError("k"), (ValueError, KeyError), True),
                           (KeyError, (ValueError, TypeError), False), (IndexError("i"), (ValueError, (TypeError, LookupError)), True), (None, ValueError, False)):
        tag = f"[exception match {getattr(err, '__name__', type(err).__name__)} vs {exc if not isinstance(exc, type) else exc.__name__}]"
        try:
            got = peval.Interp(resolver=peval.repo_resolver(repo)).run_function(gem, [err, exc], {}, tum)
        except peval.Undecided as exc2:
            ctx.undecide("C03.goals", gem, f"{tag}: {exc2}")
            continue
        except peval.Raises as exc2:
            got = f"raises {exc2.name}"
        ctx.check("C03.goals", gem, got is want, f"{tag}: given_exception_matches returns {got!r}, the interpreter's `except` clause {'matches' if want else 'does not match'}: the exception predicate reports the other outcome", what=f"{tag} -> {want}", stmt=tag)


def _restore(ctx, repo) -> None:
    for name, first, last in (("temporarily_disable", "disable", "enable"), ("temporarily_enable", "enable", "disable")):
        fn = repo.func(TR, f"AbstractExecutionTracer.{name}")
        ctx.analysed(fn)
        tries = [n for n in own_nodes(fn) if isinstance(n, ast.Try)]
        ok = False
        for t in tries:
            has_yield = any(isinstance(x, ast.Yield) for s in t.body for x in ast.walk(s))
            restores = any(isinstance(c, ast.Call) and norm(c.func) == f"self.{last}" for s in t.finalbody for c in ast.walk(s))
            if has_yield and restores:
                ok = True
        # every yield outside such a try must be on the path that changed nothing
        for y in (n for n in own_nodes(fn) if isinstance(n, ast.Yield)):
            in_try = any(isinstance(a, ast.Try) and any(y in ast.walk(s) for s in a.body) for a in tries)
            if not in_try:
                guard = parent(parent(y))
                unchanged = isinstance(guard, ast.If) and "is_disabled" in norm(guard.test) and not any(isinstance(c, ast.Call) and norm(c.func) in ("self.enable", "self.disable") for s in guard.body for c in ast.walk(s))
                if not unchanged:
                    ok = False
        ctx.check("C03.restore", fn, ok, f"{name} does not restore the tracing state in a `finally`: an exception in the with-body (e.g. from a distance computation) leaves the tracer {'disabled' if name == 'temporarily_disable' else 'enabled'} for the rest of the execution and later outcomes are not reported", what=f"{name}: yield inside try/finally that calls {last}()", stmt=f"[{name}]")
    for cb in ("executed_compare_predicate", "executed_bool_predicate", "executed_exception_match"):
        fn = repo.func(TR, f"ExecutionTracer.{cb}")
        w = [n for n in fn.body if isinstance(n, ast.With) and any("temporarily_disable" in norm(i.context_expr) for i in n.items)]
        outside = [s for s in fn.body if s not in w and not (isinstance(s, ast.Expr) and isinstance(s.value, ast.Constant))]
        ctx.check("C03.restore", fn, bool(w) and not outside, f"{cb} computes outside `with self.temporarily_disable()`: operators of the module under test that the distance computation calls are traced as if the module executed them", what=f"{cb} computes under temporarily_disable()", stmt=f"[{cb} disabled]")


def _fresh(ctx, repo) -> None:
    """Outcomes of an earlier load of the module must not be reported for the predicates of the current one."""
    tmod = repo.module(TR)
    cres = peval.repo_class_resolver(repo, only={"ExecutionTracer", "AbstractExecutionTracer"})
    counter = [0]

    def new_trace():
        counter[0] += 1
        t = peval.Obj(f"trace#{counter[0]}", fields={"merged": []})
        t.methods["merge"] = lambda other: t.fields["merged"].extend([other.label, *other.fields.get("merged", [])])
        return t

    def tracer():
        it = peval.Interp(resolver=peval.repo_resolver(repo), class_resolver=cres, externs={"ExecutionTrace": new_trace})
        old_import = new_trace(); old_import.label = "OLD-IMPORT"
        old_rec = new_trace(); old_rec.label = "OLD-RECORDING"
        obj = it.instantiate("ExecutionTracer", cres("ExecutionTracer", tmod), [], {"_import_trace": old_import, "_thread_local_state": peval.Obj("tls", fields={"trace": old_rec, "enabled": True})}, init=False)
        return obj

    for meth, law in (("reset", "fresh"), ("init_trace", "import-only"), ("store_import_trace", "promote")):
        fn = repo.func(TR, f"ExecutionTracer.{meth}")
        ctx.analysed(fn)
        tag = f"[{meth}]"
        try:
            obj = tracer()
            obj.methods[meth]()
            rec = obj.fields["_thread_local_state"].fields["trace"]
            imp = obj.fields["_import_trace"]
            if law == "fresh":
                ok = rec.label not in ("OLD-IMPORT", "OLD-RECORDING") and not any(x.startswith("OLD") for x in rec.fields["merged"]) and imp.label not in ("OLD-IMPORT", "OLD-RECORDING")
                why = f"after reset() the recording trace is {rec.label} and has merged {rec.fields['merged']}; the import trace is {imp.label}: outcomes recorded before the reset (e.g. by an earlier load of the module, whose predicate ids are reused) are reported for the new predicates"
            elif law == "import-only":
                ok = rec.label != "OLD-RECORDING" and rec.fields["merged"][:1] == ["OLD-IMPORT"] and "OLD-RECORDING" not in rec.fields["merged"]
                why = f"after init_trace() the recording trace is {rec.label} and has merged {rec.fields['merged']} (expected: a new trace that merged the import trace only)"
            else:
                ok = imp.label == "OLD-RECORDING" and rec.label not in ("OLD-RECORDING",) and rec.fields["merged"][:1] == ["OLD-RECORDING"]
                why = f"after store_import_trace() the import trace is {imp.label} and the recording trace {rec.label} has merged {rec.fields['merged']} (expected: import trace = what was recorded, new recording trace starts from it)"
        except (peval.Undecided, peval.Raises) as exc:
            ctx.undecide("C03.fresh", fn, f"{tag}: {exc}")
            continue
        ctx.check("C03.fresh", fn, ok, f"{tag}: {why}", what=f"{tag}: {law}", stmt=tag)
