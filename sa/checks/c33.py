"""C33 — worker crashes never hang Pynguin and restarts are bounded.

Decides the structural clauses: recv() on the result pipe is reached only after poll() reported data,
in a poll(timeout) loop that ends when the worker is no longer alive (EOF can be withheld by a process
the worker forked; while get_result relies on EOF instead, the master must keep no writer of the pipe);
every restart passes the search-time adjustment and the
`<= 0` abort; the adjustment strictly reduces a positive budget for any positive elapsed time
(evaluated over a boundary partition of (budget, elapsed)); get_result recurses only after a
successful restart and converts any receive failure into the restart path; the master never
fabricates a return code and the client maps every worker return code.  Timing is not decided.
"""

from __future__ import annotations

import ast
import itertools

from sa.engine import peval
from sa.engine.cfg import CFG
from sa.engine.guards import unguarded_path
from sa.engine.index import AnalysisError, last_attr, norm, own_nodes, parent

MA = "pynguin.master_worker.master"
CL = "pynguin.master_worker.client"
WO = "pynguin.master_worker.worker"


def _stmt(n):
    while n is not None and not isinstance(n, ast.stmt):
        n = parent(n)
    return n


def _waits_with_liveness(gr) -> bool:
    """get_result waits in `while not <conn>.poll(timeout)` and leaves the loop when the worker is not alive:
    it does not depend on the pipe reporting EOF."""
    for lp in own_nodes(gr):
        if isinstance(lp, ast.While) and isinstance(lp.test, ast.UnaryOp) and isinstance(lp.test.op, ast.Not) and isinstance(lp.test.operand, ast.Call) and last_attr(lp.test.operand) == "poll" and (lp.test.operand.args or lp.test.operand.keywords):
            for i in ast.walk(lp):
                if isinstance(i, ast.If) and any(isinstance(x, (ast.Raise, ast.Return, ast.Break)) for x in ast.walk(i)):
                    for lit in _flat_and(i.test):
                        if isinstance(lit, ast.UnaryOp) and isinstance(lit.op, ast.Not) and isinstance(lit.operand, ast.Call) and last_attr(lit.operand) == "is_alive":
                            return True
    return False


def _flat_and(test):
    if isinstance(test, ast.BoolOp) and isinstance(test.op, ast.And):
        return [x for v in test.values for x in _flat_and(v)]
    return [test]


def _monotonic(ctx, repo) -> None:
    """The time a worker has been running is measured on a clock that cannot step: with time.time() a wall-clock step back
    (NTP, manual change) makes the elapsed time negative and the budget of the restarted worker LARGER than before."""
    n = 0
    for mod, qn, fn in repo.all_functions(MA):
        for st in own_nodes(fn):
            if not isinstance(st, (ast.Assign, ast.AnnAssign, ast.AugAssign)):
                continue
            text = norm(st)
            if "_start_time" not in text:
                continue
            calls = [norm(c.func) for c in ast.walk(st) if isinstance(c, ast.Call) and norm(c.func).startswith("time.")]
            if not calls:
                continue
            n += 1
            ctx.analysed(fn)
            bad = [c for c in calls if c not in ("time.monotonic", "time.perf_counter", "time.monotonic_ns", "time.perf_counter_ns")]
            ctx.check("C33.monotonic", st, not bad, f"{qn}: `{text[:80]}` measures the worker's running time with {bad}: after a wall-clock step back the elapsed time is negative and _adjust_search_time_after_crash RAISES the remaining budget (10 s became 109 s) - restarts are no longer bounded by a strictly shrinking budget", what=f"{qn}: running time on a monotonic clock", stmt=f"[{qn}] {text[:60]}")
    if n < 2:
        raise AnalysisError(f"C33.monotonic: only {n} start-time / elapsed computations found (confirmed by reading: 2)")


def check(ctx) -> None:
    repo = ctx.repo
    ctx.rule("C33.monotonic", "the start time of a worker and the elapsed time taken from it use a monotonic clock", floor=2)
    _monotonic(ctx, repo)
    ctx.rule("C33.eof", "when get_result relies on EOF (no liveness-watching wait): the parent's copy of the pipe's sending end is closed after process.start() on every path and never escapes into an attribute / container; always: the receiving end is stored and the worker gets (task, sending end)", floor=4)
    ctx.rule("C33.variant", "every path of _restart to _start_worker passes _adjust_search_time_after_crash(elapsed since start) and the `maximum_search_time <= 0` abort", floor=4)
    ctx.rule("C33.decrease", "ABSINT over a boundary partition: for budget > 0 and elapsed > 0 the adjusted budget is an int, >= 0 and strictly smaller than the old one", floor=1)
    ctx.rule("C33.recurse", "get_result: recv failures of any kind enter the restart path; recursion only after _restart() returned true; a failed restart returns an ERROR result", floor=4)
    ctx.rule("C33.liveness", "GUARD-DOM: recv() on the result pipe is reached only after poll() reported data, the wait is a loop over poll(timeout) that ends (raise / return / break) when the worker process is not alive: the master does not depend on EOF, which a process forked by the worker can withhold", floor=3)
    ctx.rule("C33.codes", "the master builds WorkerResult only with return_code=None and ERROR; the worker reports OK with the pipeline's own return code only after run_pynguin returned; the client maps every WorkerReturnCode and never invents success", floor=6)

    # ------------------------------------------------------------------ C33.eof
    sw = repo.func(MA, "RunningTask._start_worker")
    ctx.analysed(sw)
    pipe = [n for n in own_nodes(sw) if isinstance(n, ast.Assign) and isinstance(n.value, ast.Call) and norm(n.value.func) in ("mp.Pipe", "multiprocessing.Pipe")]
    if len(pipe) != 1 or not isinstance(pipe[0].targets[0], ast.Tuple):
        raise AnalysisError("_start_worker: mp.Pipe() unpacking not found")
    dup = next((k.value for k in pipe[0].value.keywords if k.arg == "duplex"), None)
    # a master that watches the worker's liveness does not need EOF; the writer-side discipline is then not a condition of the property
    needs_eof = not _waits_with_liveness(repo.func(MA, "RunningTask.get_result"))
    ctx.extra["master_relies_on_eof"] = needs_eof
    ctx.check("C33.eof", pipe[0], (dup is not None and norm(dup) == "False") or not needs_eof, "the result pipe is duplex: the master's own end is also a writer and recv never sees EOF", what="one-way pipe")
    recv_name, send_name = (norm(e) for e in pipe[0].targets[0].elts)
    cfg = CFG(sw)
    starts = [n for n in cfg.nodes if n.kind == "stmt" and n.stmt is not None and isinstance(n.stmt, ast.Expr) and isinstance(n.stmt.value, ast.Call) and last_attr(n.stmt.value) == "start"]
    closes = {n.id for n in cfg.nodes if n.kind == "stmt" and n.stmt is not None and norm(n.stmt) == f"{send_name}.close()"}
    ok = bool(starts) and bool(closes)
    p = None
    if ok:
        nxt = [b for s in starts for b, lab in cfg.succ[s.id] if lab != "exc"]
        p = cfg.path(nxt, [cfg.exit], avoid_nodes=closes, labels_excluded=("exc",))
        # close must come after start (closing before start would hand the child a closed handle)
        before = cfg.path([cfg.entry], [s.id for s in starts], avoid_nodes=closes)
        ok = p is None and before is not None
    ctx.paths += 2
    ctx.check("C33.eof", starts[0].stmt if starts else sw, ok or not needs_eof, f"the parent's `{send_name}` is not closed after process.start() on every path: with a writer left open in the master, recv() blocks forever when the worker dies without sending a result", what="parent closes its sending end after start", path=cfg.describe_path(p) if p else [])
    # escape analysis: the sending end may only be passed to mp.Process(args=...) and closed
    escapes = []
    for n in own_nodes(sw):
        if isinstance(n, ast.Name) and n.id == send_name and isinstance(n.ctx, ast.Load):
            par = parent(n)
            if isinstance(par, ast.Attribute) and par.attr == "close":
                continue
            # inside the args tuple of the Process(...) call
            anc = par
            okp = False
            while anc is not None and anc is not sw:
                if isinstance(anc, ast.Call) and norm(anc.func) in ("mp.Process", "multiprocessing.Process"):
                    okp = True
                    break
                anc = parent(anc)
            if not okp:
                escapes.append(_stmt(n))
    ctx.check("C33.eof", escapes[0] if escapes else sw, not escapes or not needs_eof, f"the sending end `{send_name}` escapes `{norm(escapes[0])[:80] if escapes else ''}`: a stored reference keeps a writer of the pipe alive in the master", what="sending end only handed to the worker process", stmt="[escape]")
    # the receiving end is the one stored
    st = [n for n in own_nodes(sw) if isinstance(n, ast.Assign) and norm(n.targets[0]) == "self._receiving_connection"]
    ctx.check("C33.eof", st[0] if st else sw, len(st) == 1 and norm(st[0].value) == recv_name, "self._receiving_connection is not the receiving end of the pipe", what="receiving end stored", stmt="[recv]")
    # the worker gets the sending end
    procs = [n for n in own_nodes(sw) if isinstance(n, ast.Call) and norm(n.func) in ("mp.Process", "multiprocessing.Process")]
    args = next((k.value for k in procs[0].keywords if k.arg == "args"), None) if procs else None
    wm = repo.func(WO, "worker_main")
    params = [a.arg for a in wm.args.args]
    ok = isinstance(args, ast.Tuple) and [norm(e) for e in args.elts] == ["task", send_name] and params[:2] == ["task", "sending_connection"]
    ctx.check("C33.eof", procs[0] if procs else sw, ok, "mp.Process(args=...) no longer passes (task, sending end) in the order of worker_main's parameters", what="Process args match worker_main(task, sending_connection)", stmt="[args]")

    # ------------------------------------------------------------------ C33.variant
    rs = repo.func(MA, "RunningTask._restart")
    ctx.analysed(rs)
    cfg = CFG(rs)
    sws = [n.id for n in cfg.nodes if n.kind == "stmt" and n.stmt is not None and any(isinstance(c, ast.Call) and norm(c.func) == "self._start_worker" for c in ast.walk(n.stmt))]
    if not sws:
        raise AnalysisError("_restart no longer calls _start_worker")
    adj = {n.id for n in cfg.nodes if n.kind == "stmt" and n.stmt is not None and any(isinstance(c, ast.Call) and norm(c.func) == "self._adjust_search_time_after_crash" for c in ast.walk(n.stmt))}
    p = cfg.path([cfg.entry], sws, avoid_nodes=adj)
    ctx.paths += 1
    ctx.check("C33.variant", rs, p is None and bool(adj), "a path restarts the worker without charging the crashed worker's elapsed time to the budget: restarts are unbounded", what="adjustment precedes every restart", path=cfg.describe_path(p) if p else [])

    def budget_left(lit):
        _k, e, pol = lit
        t = norm(e)
        return pol and t in ("self._task.configuration.stopping.maximum_search_time > 0", "0 < self._task.configuration.stopping.maximum_search_time")

    p = unguarded_path(cfg, sws, budget_left)
    ctx.paths += 1
    ctx.check("C33.variant", rs, p is None, "a path restarts the worker although no search time remains (`maximum_search_time <= 0` abort bypassed)", what="restart only while search time remains", path=cfg.describe_path(p) if p else [], stmt="[abort]")
    # order: adjustment before the abort test
    tests = [n.id for n in cfg.nodes if n.kind == "test" and "maximum_search_time <= 0" in norm(n.stmt.test)]
    p = cfg.path([cfg.entry], tests, avoid_nodes=adj)
    ctx.check("C33.variant", rs, p is None and bool(tests), "the `<= 0` abort is tested before the budget was adjusted", what="abort tested on the adjusted budget", stmt="[order]")
    call = [c for c in own_nodes(rs) if isinstance(c, ast.Call) and norm(c.func) == "self._adjust_search_time_after_crash"]
    charged = call[0].args[0] if call and call[0].args else None
    el = [n for n in own_nodes(rs) if isinstance(n, ast.Assign) and isinstance(charged, ast.Name) and norm(n.targets[0]) == charged.id]
    if isinstance(charged, ast.Name) and len(el) == 1:
        charged = el[0].value
    ok = isinstance(charged, ast.BinOp) and isinstance(charged.op, ast.Sub) and norm(charged.right) == "self._start_time" and isinstance(charged.left, ast.Call) and norm(charged.left.func) in ("time.time", "time.monotonic", "time.perf_counter")
    ctx.check("C33.variant", el[0] if el else rs, bool(ok), "the time charged to the budget is not `time.time() - self._start_time` of the crashed worker", what="elapsed = now - start of the crashed worker", stmt="[elapsed]")
    st = [n for n in own_nodes(sw) if isinstance(n, ast.Assign) and norm(n.targets[0]) == "self._start_time"]
    ctx.check("C33.variant", st[0] if st else sw, len(st) == 1 and norm(st[0].value) in ("time.time()", "time.monotonic()", "time.perf_counter()") and (not ok or norm(st[0].value) == norm(charged.left)), "_start_worker no longer stamps the start time of each worker", what="start time stamped per worker", stmt="[stamp]")

    # ------------------------------------------------------------------ C33.decrease
    ad = repo.func(MA, "RunningTask._adjust_search_time_after_crash")
    ctx.analysed(ad)
    KEY = "self._task.configuration.stopping.maximum_search_time"
    budgets = [1, 2, 10, 600]
    elapsed = [0.001, 0.5, 0.999, 1.0, 1.5, 9.999, 10.0, 10.5, 1e6]
    rows = 0
    bad = None
    undec = None
    for b, e in itertools.product(budgets, elapsed):
        env = {KEY: b, "elapsed_time": e}
        stores = {}
        try:
            peval.run_block([s for s in ad.body], env, on_store=lambda t, v: stores.__setitem__(t, v))
        except peval.Undecided as exc:
            undec = str(exc)
            break
        except peval.Raises as exc:
            bad = (b, e, f"raises {exc}")
            break
        rows += 1
        new = stores.get(KEY, env.get(KEY))
        if not (isinstance(new, int) and not isinstance(new, bool)) or new < 0 or not new < b:
            bad = (b, e, new)
            break
    # non-positive budgets stay untouched
    for b in (0, -1):
        env = {KEY: b, "elapsed_time": 3.0}
        stores = {}
        try:
            peval.run_block(list(ad.body), env, on_store=lambda t, v: stores.__setitem__(t, v))
            rows += 1
            if stores.get(KEY, b) > 0:
                bad = (b, 3.0, stores.get(KEY))
        except (peval.Undecided, peval.Raises) as exc:
            undec = undec or str(exc)
    ctx.extra["decrease_partition_rows"] = rows
    if undec:
        ctx.undecide("C33.decrease", ad, f"adjustment not interpretable: {undec}")
    else:
        ctx.check("C33.decrease", ad, bad is None, f"budget={bad[0]}s, crashed worker ran {bad[1]}s -> new budget {bad[2]!r}: a restart that does not strictly reduce the remaining search time (e.g. a worker dying within its first second) can repeat without bound" if bad else "", what=f"{rows} (budget, elapsed) cells: new budget is an int in [0, old)")

    # ------------------------------------------------------------------ C33.recurse
    gr = repo.func(MA, "RunningTask.get_result")
    ctx.analysed(gr)
    cfg = CFG(gr)
    tries = [n for n in own_nodes(gr) if isinstance(n, ast.Try)]
    recv = [n for n in own_nodes(gr) if isinstance(n, ast.Call) and norm(n.func) == "self._receiving_connection.recv"]
    ok = len(tries) == 1 and len(recv) == 1 and any(recv[0] in list(ast.walk(s)) for s in tries[0].body)
    hs = tries[0].handlers if tries else []
    wide = [h for h in hs if h.type is None or norm(h.type) in ("Exception", "BaseException") or (isinstance(h.type, ast.Tuple) and any(norm(x) in ("Exception", "BaseException") for x in h.type.elts))]
    ok = ok and bool(wide) and any(isinstance(c, ast.Call) and norm(c.func) == "self._restart" for c in ast.walk(wide[0]))
    # no earlier narrower handler that swallows EOFError/OSError without restarting
    for h in hs:
        if h in wide:
            break
        if not any(isinstance(c, ast.Call) and norm(c.func) == "self._restart" for c in ast.walk(h)) and not any(isinstance(x, ast.Raise) for x in ast.walk(h)):
            ok = False
    ctx.check("C33.recurse", tries[0] if tries else gr, ok, "a failing recv() (EOF because the worker died, unpickling error, OSError) does not enter the restart path", what="any receive failure -> _restart()")
    rec = [n.id for n in cfg.nodes if n.kind == "stmt" and n.stmt is not None and any(isinstance(c, ast.Call) and norm(c.func) == "self.get_result" for c in ast.walk(n.stmt))]
    succ_names = {norm(n.targets[0]) for n in own_nodes(gr) if isinstance(n, ast.Assign) and isinstance(n.value, ast.Call) and norm(n.value.func) == "self._restart"}

    def restarted(lit):
        _k, e, pol = lit
        return pol and (norm(e) in succ_names or norm(e) == "self._restart()")

    p = unguarded_path(cfg, rec, restarted) if rec else None
    ctx.paths += 1
    ctx.check("C33.recurse", gr, bool(rec) and p is None, "get_result waits again although no worker was restarted: the call blocks on a dead pipe / recurses without bound", what="recursion only after a successful restart", path=cfg.describe_path(p) if p else [], stmt="[recurse]")
    # loops are not allowed to retry recv without restart
    loops = [n for n in own_nodes(gr) if isinstance(n, (ast.While, ast.For))]

    def bounded_wait(lp) -> bool:
        """`while not <conn>.poll(<timeout>)`: waits for data, nothing is retried"""
        return isinstance(lp, ast.While) and isinstance(lp.test, ast.UnaryOp) and isinstance(lp.test.op, ast.Not) and isinstance(lp.test.operand, ast.Call) and last_attr(lp.test.operand) == "poll" and bool(lp.test.operand.args or lp.test.operand.keywords)

    other = [lp for lp in loops if not bounded_wait(lp)]
    ctx.check("C33.recurse", other[0] if other else gr, not other, "get_result retries in a loop (not covered by the restart-variant argument)", what="no retry loop", stmt="[loop]")
    # ------------------------------------------------------------------ C33.liveness
    for r in recv:
        conn = norm(r.func.value)

        def polled(lit, conn=conn):
            _k, e, pol = lit
            return pol and isinstance(e, ast.Call) and norm(e.func) == f"{conn}.poll"

        st = r
        while not isinstance(st, ast.stmt):
            st = parent(st)
        p = unguarded_path(cfg, cfg.nodes_of(st), polled)
        ctx.paths += 1
        ctx.check("C33.liveness", st, p is None, f"`{norm(r)}` blocks until the pipe delivers data or EOF, and EOF needs every copy of the sending end to be closed: a process forked by the worker (subprocess mode forks executor children) inherits it, so when the worker is killed while such a child lives - or hangs in a non-terminating test - the master waits forever. recv() must only be reached after `{conn}.poll(...)` reported data", what="recv only after poll() reported data", path=cfg.describe_path(p) if p else None, stmt="[recv after poll]")
    waits = [lp for lp in loops if bounded_wait(lp)]
    for lp in waits:
        exits = [i for i in ast.walk(lp) if isinstance(i, ast.If) and any(isinstance(c, ast.Call) and last_attr(c) == "is_alive" for c in ast.walk(i.test)) and any(isinstance(x, (ast.Raise, ast.Return, ast.Break)) for x in ast.walk(i))]
        neg = False
        for i in exits:
            for lit in _flat_and(i.test):
                if isinstance(lit, ast.UnaryOp) and isinstance(lit.op, ast.Not) and isinstance(lit.operand, ast.Call) and last_attr(lit.operand) == "is_alive":
                    neg = True
        ctx.check("C33.liveness", lp, bool(exits) and neg, "the wait for the worker's result does not end when the worker process is no longer alive: a worker that died while one of its children keeps the pipe open leaves the master waiting", what="the wait loop ends when the worker is dead", stmt="[wait ends with the worker]")
    ctx.check("C33.liveness", gr, bool(waits), "get_result does not wait with a timeout: nothing observes the death of the worker while the pipe stays open", what="bounded wait present", stmt="[bounded wait]")
    errs = [n for n in own_nodes(gr) if isinstance(n, ast.Call) and norm(n.func) == "WorkerResult"]
    okc = bool(errs) and all({k.arg: norm(k.value) for k in c.keywords}.get("worker_return_code") == "WorkerReturnCode.ERROR" and {k.arg: norm(k.value) for k in c.keywords}.get("return_code") == "None" for c in errs)
    ctx.check("C33.recurse", gr, okc, "a failed restart does not produce an ERROR result without return code", what="failed restart -> ERROR result", stmt="[error-result]")

    # ------------------------------------------------------------------ C33.codes
    mm = repo.module(MA)
    for qn, fn in mm.functions.items():
        for c in own_nodes(fn):
            if isinstance(c, ast.Call) and norm(c.func) == "WorkerResult":
                kw = {k.arg: norm(k.value) for k in c.keywords}
                ctx.analysed(fn)
                ctx.check("C33.codes", c, kw.get("return_code") == "None" and kw.get("worker_return_code") == "WorkerReturnCode.ERROR", f"{qn}: the master fabricates a result with {kw.get('worker_return_code')} / return_code={kw.get('return_code')}: success could be reported although no worker delivered", what=f"{qn}: master-made results are ERROR / None")
    ctx.analysed(wm)
    oks = [c for c in own_nodes(wm) if isinstance(c, ast.Call) and norm(c.func) == "WorkerResult"]
    with_code = [c for c in oks if {k.arg: norm(k.value) for k in c.keywords}.get("return_code") != "None"]
    ok = len(with_code) == 1
    if ok:
        rc = {k.arg: norm(k.value) for k in with_code[0].keywords}["return_code"]
        d = [n for n in own_nodes(wm) if isinstance(n, ast.Assign) and norm(n.targets[0]) == rc]
        ok = len(d) == 1 and norm(d[0].value) == "run_pynguin()" and not any(isinstance(a, ast.ExceptHandler) for a in _ancestors(with_code[0]))
    ctx.check("C33.codes", wm, ok, "the worker reports a return code that is not the value returned by run_pynguin() on the normal path", what="worker: return_code = run_pynguin() on the normal path only")
    sends = [c for c in own_nodes(wm) if isinstance(c, ast.Call) and norm(c.func) == "sending_connection.send"]
    ctx.check("C33.codes", wm, len(sends) >= 2, "the worker no longer sends a result on both the normal and the error path", what="result sent on normal and error path", stmt="[sends]")
    rp = repo.func(CL, "PynguinClient.run_pynguin")
    ctx.analysed(rp)
    enum_cls = repo.cls(WO, "WorkerReturnCode")
    members = [norm(s.targets[0]) for s in enum_cls.body if isinstance(s, ast.Assign)]
    mt = next((n for n in own_nodes(rp) if isinstance(n, ast.Match)), None)
    if mt is None or norm(mt.subject) != "result.worker_return_code":
        ctx.undecide("C33.codes", rp, "client no longer matches on result.worker_return_code")
    else:
        arms = {norm(c.pattern).split(".")[-1]: c for c in mt.cases}
        for m in members:
            ctx.check("C33.codes", mt, m in arms or "_" in arms, f"client has no arm for WorkerReturnCode.{m}: run_pynguin falls through and returns None", what=f"client arm for {m}", stmt=f"[{m}]")
        if "ERROR" in arms:
            r = [norm(s.value) for s in ast.walk(arms["ERROR"]) if isinstance(s, ast.Return)]
            ctx.check("C33.codes", arms["ERROR"], bool(r) and all(x != "ReturnCode.OK" and "result.return_code" not in x for x in r), "the ERROR arm can report success", what="ERROR arm never reports OK", stmt="[ERROR-arm]")
        if "OK" in arms:
            r = [s for s in ast.walk(arms["OK"]) if isinstance(s, ast.Return)]
            ok = any(norm(x.value) == "result.return_code" for x in r) and all(norm(x.value) in ("result.return_code", "ReturnCode.NO_TESTS_GENERATED", "ReturnCode.SETUP_FAILED") for x in r)
            guard = any(isinstance(s, ast.If) and norm(s.test) == "result.return_code is None" for s in ast.walk(arms["OK"]))
            ctx.check("C33.codes", arms["OK"], ok and guard, "the OK arm does not return exactly the worker's own return code (or a failure code when it is missing)", what="OK arm returns the worker's return code, failure if None", stmt="[OK-arm]")
    allrets = [norm(n.value) for n in own_nodes(rp) if isinstance(n, ast.Return) and n.value is not None]
    ctx.check("C33.codes", rp, "ReturnCode.OK" not in allrets, "the client returns a literal ReturnCode.OK", what="no literal success in the client", stmt="[no-literal-ok]")


def _ancestors(n):
    p = parent(n)
    while p is not None:
        yield p
        p = parent(p)
