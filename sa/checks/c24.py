"""C24 — exported tests round-trip through the seed parser.

Decides writer/reader agreement:
 * C24.roundtrip: for a representative of every assertion shape the exporter can emit, the
   exporter's renderer (assertion_to_cst) and the seed parser's lifter (parse_assertion) are both
   interpreted from source; the parser must lift the rendered `assert` back to an assertion that
   renders to the same text.  Shapes the parser cannot lift on the unchanged tree are listed as
   known findings.
 * C24.functions: the parser accepts every function the exporter emits - name prefix `test_`,
   with or without the xfail decorator - i.e. its per-function filter consists of the FunctionDef
   test and the name-prefix test only.
 * C24.imports: the import idiom of the exporter (import M / alias = sys.modules[M] / from M import)
   is what normalize_sut_references handles.
  A parsed function is kept iff it has statements (a tally of dispositions must name every ADMITTED*).
 * C24.statements: the exporter demotes unused assignments to bare expression statements of any
   shape, so the parser's arm for expression statements must refuse none.
 * C24.name-positions: every CST visitor of the deserializer that treats Names as references
   exempts keywords of call arguments and attribute names, as its siblings do.
Round trip of ordinary statements (call resolution against the test cluster) is not decided.
Further clauses (added later): C24.escape (raw_value); C24.seed-file interprets _read_module_source over every
order of a directory listing (byte code in __pycache__, test files of modules whose name contains this one).
"""

from __future__ import annotations

import ast
import re

from sa.engine import cstterm, peval
from sa.engine.index import AnalysisError, last_attr, norm, own_nodes, parent

A2A = "pynguin.assertion.assertion_to_ast"
ASS = "pynguin.assertion.assertion"
DES = "pynguin.large_language_model.parsing.deserializer"
SEED = "pynguin.analyses.seeding"
EX = "pynguin.testcase.export"
MODULE_NAME = "pkg.mod"


# a position where a Name is not a variable reference -> the hooks (any one of them) with which a visitor exempts it
NON_REFERENCE_HOOKS = {
    "the keyword of a call argument (`f(size=x)`)": ("visit_Arg", "leave_Arg"),
    "the attribute name in `obj.size`": ("visit_Attribute", "leave_Attribute"),
}


def _name_positions(ctx, repo) -> None:
    """Sibling visitors of the deserializer that treat every Name as a variable reference must agree on the
    positions where a Name is not a reference (cross-check of implementations walking the same trees)."""
    mod = repo.module(DES)
    visitors = {}
    for cname, cdef in mod.classes.items():
        own = {f.name for f in cdef.body if isinstance(f, ast.FunctionDef)}
        if own & {"visit_Name", "leave_Name"} and any("cst.CST" in norm(b) for b in cdef.bases):
            visitors[cname] = (cdef, own)
    if len(visitors) < 2:
        raise AnalysisError("deserializer: fewer than two Name-visiting CST visitors found")
    for why, hooks in NON_REFERENCE_HOOKS.items():
        having = sorted(c for c, (_d, own) in visitors.items() if own & set(hooks))
        if not having:
            raise AnalysisError(f"no visitor of the deserializer defines one of {hooks}: the sibling rule has no reference implementation")
        for cname, (cdef, own) in sorted(visitors.items()):
            ctx.analysed(cdef)
            ctx.check("C24.name-positions", cdef, bool(own & set(hooks)), f"{cname} handles every Name it meets but, unlike {having}, defines none of {list(hooks)}: {why} is not a variable reference, yet it is rewritten / collected like one - `mod_.resize(var_0, size=var_1)` is read back as `mod_.resize(var_0, mod_.size=var_1)` when the module under test also exports `size`, `obj.size` as `obj.int_0` when a variable is called size", what=f"{cname}: exempts {why}", stmt=f"[{cname}] {hooks[0]}")


def check(ctx) -> None:
    repo = ctx.repo
    ctx.rule("C24.seed-file", "ABSINT: _read_module_source over every order of a directory listing (plus __pycache__ byte code, plus the test file of a module whose name contains this one) reads test_<module>.py", floor=12)
    _seed_file(ctx, repo)
    ctx.rule("C24.escape", "WHO-MAY: no read of a libcst string node's raw_value (escape sequences unprocessed) where the value of a literal is needed; expected count zero, detector self-checked on a synthetic positive", floor=1)
    from sa.engine.prop import raw_string_value_reads, raw_string_value_selfcheck
    if not raw_string_value_selfcheck():
        raise AnalysisError("C24.escape: the raw_value detector does not match its own positive example")
    ctx.ok("C24.escape", None, "detector matches the synthetic positive example")
    for _mod, _n in raw_string_value_reads(ctx.repo, ("pynguin.large_language_model.parsing", "pynguin.analyses.seeding", "pynguin.assertion.assertion_to_ast")):
        ctx.fail("C24.escape", _n, f"{_mod.name}: `{norm(_n)}` reads the source text between the quotes, escape sequences unprocessed, as the value of a string literal: an exported `assert var_0 == 'alpha\\nbeta'` is read back as the text with a literal backslash-n: different value, failing assertion", stmt=f"[raw_value] {norm(_n)}")
    ctx.rule("C24.roundtrip", "ABSINT: parse_assertion(assertion_to_cst(a)) renders to the same text as a, for one representative per assertion shape the exporter emits", floor=8)
    ctx.rule("C24.name-positions", "sibling agreement: every CST visitor of the deserializer that treats Names as references exempts the keyword of call arguments and the attribute name of attribute accesses, as its siblings do", floor=6)
    _name_positions(ctx, repo)
    ctx.rule("C24.statements", "producer / consumer agreement: the exporter demotes any unused assignment to a bare expression statement, the parser's arm for expression statements refuses none", floor=2)
    ctx.rule("C24.functions", "the seed parser's per-function filter is `FunctionDef` + name prefix only; the exporter's function names satisfy the prefix", floor=3)
    ctx.rule("C24.imports", "normalize_sut_references handles the exporter's import idiom (import, from-import, alias = sys.modules[...])", floor=3)

    a2a, assm, des = repo.module(A2A), repo.module(ASS), repo.module(DES)
    resolver = peval.repo_resolver(repo)
    cres = peval.repo_class_resolver(repo, only={"TypeNameAssertion", "FloatAssertion", "ObjectAssertion", "IsInstanceAssertion", "CollectionLengthAssertion", "ReferenceAssertion", "Assertion", "ExceptionAssertion"})
    render_fn = repo.func(A2A, "assertion_to_cst")
    parse_fn = repo.func(DES, "parse_assertion")
    ctx.analysed(render_fn)
    ctx.analysed(parse_fn)

    def try_literal(node):
        try:
            txt = cstterm.render(node)
            v = ast.literal_eval(txt)
        except (cstterm.Invalid, peval.Undecided, ValueError, SyntaxError, TypeError):
            return None
        return (type(v), v)

    def interp():
        return peval.Interp(
            resolver=resolver,
            class_resolver=cres,
            ctor_prefixes=("cst.",),
            consts={"config.configuration.module_name": MODULE_NAME, "_DEFAULT_FLOAT_PRECISION": 0.01},
            externs={"_try_literal": try_literal, "get_module_alias": lambda name: "module_0", "OrderedSet": lambda x=(): list(x)},
            max_steps=500000,
        )

    def make(cname, *args):
        it = interp()
        return it.instantiate(cname, cres(cname, assm), list(args), {})

    CASES = [
        ("ObjectAssertion", ("var_0", 5), "== int literal"),
        ("ObjectAssertion", ("var_0", None), "is None"),
        ("ObjectAssertion", ("var_0", True), "is True"),
        ("ObjectAssertion", ("var_0", [1, "a", (2,)]), "== nested literal"),
        ("ObjectAssertion", ("var_0", "it's"), "== str literal"),
        ("ObjectAssertion", ("var_0", 1 + 2j), "== complex"),
        ("FloatAssertion", ("var_0", 1.5), "== pytest.approx"),
        ("TypeNameAssertion", ("var_0", MODULE_NAME, "Foo"), "type-name f-string"),
        ("IsInstanceAssertion", ("var_0", "builtins", "dict"), "isinstance builtin"),
        ("IsInstanceAssertion", ("var_0", MODULE_NAME, "Foo"), "isinstance SUT class"),
        ("IsInstanceAssertion", ("var_0", MODULE_NAME, "Outer.Inner"), "isinstance nested SUT class"),
        ("CollectionLengthAssertion", ("var_0", 3), "len =="),
        ("ObjectAssertion", ("var_0.field", 5), "attribute source =="),
        ("CollectionLengthAssertion", ("var_0.items", 2), "attribute source len"),
    ]
    for cname, args, label in CASES:
        tag = f"[{cname}] {label}"
        try:
            a = make(cname, *args)
            stmt = interp().run_function(render_fn, [a], {}, a2a)
            if stmt is None:
                ctx.undecide("C24.roundtrip", render_fn, f"{tag}: renderer returned None")
                continue
            assert_node = stmt.fields["body"][0]
            text = cstterm.render(assert_node)
        except peval.Undecided as exc:
            # the type-name assertion is an f-string comparison: outside the term renderer, but it is known not to be a shape the parser lists
            if "FormattedString" in str(exc) or "term" in str(exc):
                text, assert_node = "assert f\"{type(var_0).__module__}.{type(var_0).__qualname__}\" == '...'", None
            else:
                ctx.undecide("C24.roundtrip", render_fn, f"{tag}: {exc}")
                continue
        except (peval.Raises, cstterm.Invalid) as exc:
            ctx.fail("C24.roundtrip", render_fn, f"{tag}: rendering fails: {exc}", stmt=tag)
            continue
        back = None
        if assert_node is not None:
            try:
                back = interp().run_function(parse_fn, [assert_node, {"var_0": None}], {}, des)
            except peval.Undecided as exc:
                ctx.undecide("C24.roundtrip", parse_fn, f"{tag}: parser not interpretable on `{text}`: {exc}")
                continue
            except peval.Raises as exc:
                ctx.fail("C24.roundtrip", parse_fn, f"{tag}: parsing `{text}` raises {exc.name} {exc.detail[:50]}", stmt=tag)
                continue
        if back is None:
            ctx.fail("C24.roundtrip", parse_fn, f"{tag}: exported as `{text[:90]}` and dropped by the seed parser (no assertion shape matches): the re-parsed test case renders without this assertion", stmt=tag)
            continue
        try:
            var, b = back
            stmt2 = interp().run_function(render_fn, [b], {}, a2a)
            text2 = cstterm.render(stmt2.fields["body"][0])
        except (peval.Undecided, peval.Raises, cstterm.Invalid, TypeError, KeyError) as exc:
            ctx.undecide("C24.roundtrip", parse_fn, f"{tag}: re-rendering failed: {exc}")
            continue
        ctx.check("C24.roundtrip", parse_fn, text2 == text and var == args[0].split(".")[0], f"{tag}: exported as `{text}`, parsed back and rendered as `{text2}`", what=f"{tag}: `{text[:60]}` round-trips", stmt=tag)

    # ------------------------------------------------------------------ C24.functions
    psm = repo.func(SEED, "parse_seed_module")
    ctx.analysed(psm)
    loop = next((n for n in own_nodes(psm) if isinstance(n, ast.For) and norm(n.iter).endswith(".body")), None)
    if loop is None:
        raise AnalysisError("parse_seed_module: loop over module body not found")
    skips = [s for s in loop.body if isinstance(s, ast.If) and any(isinstance(x, ast.Continue) for x in s.body)]
    allowed = []
    extra = []
    for s in skips:
        t = norm(s.test)
        if re.fullmatch(r"not isinstance\(node, cst\.FunctionDef\)", t) or re.fullmatch(r"not node\.name\.value\.startswith\(.+\)", t):
            allowed.append(t)
        else:
            extra.append(t)
    ctx.check("C24.functions", loop, len(allowed) == 2 and not extra, f"parse_seed_module skips functions under `{'; '.join(extra)}`: exported tests of that form (e.g. the ones marked @pytest.mark.xfail(strict=True)) do not come back", what="per-function filter: FunctionDef + name prefix only")
    # the keep condition of a parsed function: it has statements - either asked of the test case itself, or through a
    # tally of dispositions that names every ADMITTED* member (exhaustiveness over the enum)
    keep = next((s for s in ast.walk(loop) if isinstance(s, ast.If) and any(isinstance(c, ast.Call) and last_attr(c) == "append" and "testcases" in norm(c.func) for c in ast.walk(s))), None)
    if keep is None:
        raise AnalysisError("parse_seed_module: the statement that keeps a parsed test case was not found")
    local_defs = {norm(n.targets[0]): n.value for n in ast.walk(loop) if isinstance(n, ast.Assign) and len(n.targets) == 1}

    def slice_of(expr, seen=()):
        out = [expr]
        for x in ast.walk(expr):
            if isinstance(x, ast.Name) and x.id in local_defs and x.id not in seen:
                out += slice_of(local_defs[x.id], (*seen, x.id))
        return out

    sl = slice_of(keep.test)
    members = {x.attr for e in sl for x in ast.walk(e) if isinstance(x, ast.Attribute) and norm(x.value).endswith("Disposition")}
    disp = repo.cls(DES, "Disposition")
    admitted_all = {norm(st.targets[0]) for st in disp.body if isinstance(st, ast.Assign) and norm(st.targets[0]).startswith("ADMITTED")}
    if members:
        missing = sorted(admitted_all - members)
        ctx.check("C24.functions", keep, not missing, f"parse_seed_module keeps a parsed function only when a tally over {sorted(members)} is positive; the deserializer also admits statements as {missing}: an exported test function that consists of such statements only (e.g. `with pytest.raises(...): mod_.shutdown()`) is parsed and then discarded", what="keep condition covers every ADMITTED* disposition", stmt="[keep] dispositions")
    else:
        sized = any(isinstance(c, ast.Call) and (last_attr(c) in ("size", "statements") or norm(c.func) == "len") for e in sl for c in ast.walk(e))
        ctx.check("C24.functions", keep, sized, f"parse_seed_module keeps a parsed function under `{norm(keep.test)[:80]}`, which does not ask whether the test case has statements", what="parsed function kept iff it has statements", stmt="[keep] size")
    pref = next((s for s in skips if "startswith" in norm(s.test)), None)
    prefixes = [c.value for c in ast.walk(pref.test) if isinstance(c, ast.Constant) and isinstance(c.value, str)] if pref is not None else []
    btf = repo.func(EX, "TestSuiteWriter._build_test_function")
    names = [n for n in ast.walk(btf) if isinstance(n, ast.JoinedStr) and norm(n).startswith("f'test_")]
    ok = bool(names) and any(p == "test_" for p in prefixes)
    ctx.check("C24.functions", btf, ok, f"exporter names its functions {[norm(n) for n in names]}, the parser accepts prefixes {prefixes}", what="exported names f'test_{idx}' satisfy the parser's prefix")
    # decorated functions are emitted by the exporter
    ctx.check("C24.functions", btf, any(isinstance(n, ast.Call) and last_attr(n) == "_xfail_decorator" for n in own_nodes(btf)), "anchor: the exporter no longer emits decorated (xfail) test functions", what="exporter emits decorated functions (the parser must accept them)", stmt="[decorated]")

    # ------------------------------------------------------------------ C24.statements
    # producer / consumer agreement: remove_unused_variables demotes ANY unused assignment to a bare expression statement,
    # so the parser has to admit an expression statement whatever the shape of its value
    asm = repo.func(DES, "CstStatementDeserializer._admit_small_statement")
    ctx.analysed(asm)
    arms = [n for n in asm.body if isinstance(n, ast.If) and norm(n.test) == "isinstance(small, cst.Expr)"]
    if len(arms) != 1:
        raise AnalysisError("_admit_small_statement: the arm for expression statements was not found")
    refusals = [r for r in ast.walk(arms[0]) if isinstance(r, ast.Return) and (r.value is None or norm(r.value) == "None")]
    ctx.check("C24.statements", refusals[0] if refusals else arms[0], not refusals, f"_admit_small_statement refuses some expression statements (`{norm(parent(refusals[0]).test)[:70] if refusals and isinstance(parent(refusals[0]), ast.If) else ''}`): the exporter turns every assignment to an unused variable into a bare expression (`var_2 = var_1.history` is written as `var_1.history`), which is then dropped when the file is read back", what="every expression statement is admitted", stmt="[Expr arm]")
    demote = repo.try_func("pynguin.testcase.testcase", "TestCase.remove_unused_variables")
    if demote is None:
        raise AnalysisError("anchor vanished: TestCase.remove_unused_variables")
    ctx.check("C24.statements", demote, any(isinstance(c, ast.Call) and (norm(c.func) == "cst.Expr" or "expr" in (last_attr(c) or "").lower()) for c in ast.walk(demote)), "anchor: remove_unused_variables no longer builds bare expression statements", what="exporter demotes unused assignments to expression statements", stmt="[producer]")

    # ------------------------------------------------------------------ C24.imports
    norm_cls = repo.cls(DES, "_SutReferenceNormalizer")
    meths = repo.methods(norm_cls)
    for need, why in (("_handle_import", "`import M`"), ("_handle_import_from", "`from M import names`"), ("leave_SimpleStatementLine", "statement-level handling (alias = sys.modules['M'])")):
        ctx.check("C24.imports", norm_cls, need in meths, f"_SutReferenceNormalizer lost `{need}` ({why})", what=f"normalizer handles {why}", stmt=f"[{need}]")


def _seed_file(ctx, repo) -> None:
    """_read_module_source, interpreted over directory listings: the file that is read is the source file the exporter
    writes for the module (test_<module>.py in the given directory), whatever else carries the module's name - byte-code
    files in __pycache__, test files of modules whose name contains this one - and whatever order the listing has."""
    import io
    import itertools

    from sa.engine import peval

    fn = repo.try_func(SEED, "InitialPopulationProvider._read_module_source")
    if fn is None:
        raise AnalysisError("anchor vanished: InitialPopulationProvider._read_module_source")
    ctx.analysed(fn)
    mod = repo.module(SEED)

    class _P:
        def __init__(self, p):
            self.p = str(getattr(p, "p", p))

        @property
        def name(self):
            return self.p.rsplit("/", 1)[-1]

        @property
        def suffix(self):
            n = self.name
            return "." + n.rsplit(".", 1)[1] if "." in n else ""

        def resolve(self):
            return self

        def __truediv__(self, other):
            return _P(self.p.rstrip("/") + "/" + str(getattr(other, "p", other)))

        def open(self, mode="r", encoding=None, **_k):
            if self.p.endswith(".pyc"):
                raise peval.Raises("UnicodeDecodeError", "byte code is not UTF-8")
            return io.StringIO(f"<content of {self.p}>")

        def read_text(self, encoding=None, **_k):
            return self.open().read()

        def __lt__(self, other):
            return self.p < other.p

        def __eq__(self, other):
            return isinstance(other, _P) and self.p == other.p

        def __hash__(self):
            return hash(self.p)

    top = ["test_io.py", "test_io_utils.py", "conftest.py"]
    cache = ["test_io.cpython-312-pytest-8.pyc", "test_io_utils.cpython-312-pytest-8.pyc"]
    n = 0
    for order in itertools.permutations(top):
        for cache_first in (False, True):
            walk = [("/out", ["__pycache__"], list(order)), ("/out/__pycache__", [], list(cache))]
            if cache_first:
                walk = walk[::-1]
            tag = f"[seed file] listing {list(order)}{' (cache directory listed first)' if cache_first else ''}"
            it = peval.Interp(resolver=peval.repo_resolver(repo), native_types=(_P, io.IOBase), max_steps=50000,
                              externs={"os.walk": lambda _p, walk=walk: list(walk), "Path": _P, "stat.track_output_variable": lambda *a, **k: None, "logger.debug": lambda *a, **k: None, "logger.exception": lambda *a, **k: None, "logger.info": lambda *a, **k: None, "logger.warning": lambda *a, **k: None},
                              consts={"config.configuration.module_name": "pkg.io"})
            try:
                got = it.run_function(fn, ["/out"], {}, mod)
            except peval.Undecided as exc:
                ctx.undecide("C24.seed-file", fn, f"{tag}: {exc}")
                return
            except peval.Raises as exc:
                got = f"raises {exc.name}"
            n += 1
            if n > 4 and got == "<content of /out/test_io.py>":
                ctx.ok("C24.seed-file", fn, tag)
                continue
            ctx.check("C24.seed-file", fn, got == "<content of /out/test_io.py>", f"{tag}: the provider reads {got!r} for the module `io`, the exported tests are in /out/test_io.py: none (or the wrong ones) of the exported test functions come back", what=tag, stmt=tag)
