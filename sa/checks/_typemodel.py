"""A small universe of proper types over a fixed class hierarchy, for interpreting the subtype
visitors of pynguin.analyses.typesystem with sa.engine.peval (nothing of pynguin is imported)."""

from __future__ import annotations

import itertools

from sa.engine import peval

TS = "pynguin.analyses.typesystem"

# class -> direct bases (object is the root); the numeric tower edges are those enable_numeric_tower adds
BASES = {
    "object": [], "A": ["object"], "B": ["A"], "C": ["B"], "D": ["A"], "E": ["B", "D"], "X": ["object"],
    "complex": ["object"], "float": ["complex"], "int": ["float"], "bool": ["int"], "str": ["object"],
    "list": ["object"], "set": ["object"], "dict": ["object"],
}
GENERIC = {"list": 1, "set": 1, "dict": 2}
ANY_DISTANCE = 30


def ancestors(c):
    seen, stack = {c}, [c]
    while stack:
        x = stack.pop()
        for b in BASES[x]:
            if b not in seen:
                seen.add(b)
                stack.append(b)
    return seen


def path_len(sup, sub):
    """Shortest number of subclass steps from sup down to sub, or None."""
    frontier, d, seen = {sub}, 0, {sub}
    while frontier:
        if sup in frontier:
            return d
        nxt = set()
        for x in frontier:
            for b in BASES[x]:
                if b not in seen:
                    seen.add(b)
                    nxt.add(b)
        frontier, d = nxt, d + 1
    return None


class Model:
    def __init__(self, repo):
        self.repo = repo
        self.mod = repo.module(TS)
        self.resolver = peval.repo_resolver(repo)
        self.class_resolver = peval.repo_class_resolver(repo, only={"_SubtypeVisitor", "_MaybeSubtypeVisitor", "_SubtypeDistanceVisitor", "AnyType", "NoneType", "Instance", "TupleType", "UnionType", "Unsupported", "StringSubtype", "ProperType", "TypeVisitor"})
        self.infos = {c: peval.Obj(f"TypeInfo({c})", fields={"name": c, "full_name": c, "num_hardcoded_generic_parameters": GENERIC.get(c)}, classes=["TypeInfo"]) for c in BASES}
        self.memo = {}
        g = peval.Obj("TypeSystem", classes=["TypeSystem"])
        g.methods["is_subclass"] = lambda l, r: r.fields["name"] in ancestors(l.fields["name"])
        g.methods["get_shortest_path_length"] = lambda start, end: path_len(start.fields["name"], end.fields["name"])
        for name in ("is_subtype", "is_maybe_subtype", "subtype_distance"):
            g.methods[name] = (lambda n: (lambda a, b: self.query(n, a, b)))(name)
        self.graph = g
        self.types = {}
        self._build_universe()

    # -------------------------------------------------------------- representatives
    def _t(self, label, kind, fields, visit):
        o = peval.Obj(label, fields=fields, classes=[kind, "ProperType"])
        o.methods["accept"] = lambda visitor, o=o, visit=visit: visitor.methods[visit](o)
        self.types[label] = o
        return o

    def inst(self, c, args=()):
        label = c if not args else f"{c}[{', '.join(a.label for a in args)}]"
        if label in self.types:
            return self.types[label]
        return self._t(label, "Instance", {"type": self.infos[c], "args": tuple(args)}, "visit_instance")

    def tup(self, *args):
        label = f"tuple[{', '.join(a.label for a in args)}]"
        return self.types.get(label) or self._t(label, "TupleType", {"args": tuple(args), "unknown_size": False}, "visit_tuple_type")

    def union(self, *items):
        label = " | ".join(a.label for a in items)
        return self.types.get(label) or self._t(label, "UnionType", {"items": tuple(items)}, "visit_union_type")

    def _build_universe(self):
        self.any = self._t("Any", "AnyType", {}, "visit_any_type")
        self.none = self._t("None", "NoneType", {}, "visit_none_type")
        i = self.inst
        for c in ("object", "A", "B", "C", "D", "E", "X", "int", "float", "bool", "complex", "str"):
            i(c)
        for c, a in (("list", "int"), ("list", "float"), ("list", "A"), ("list", "B"), ("set", "int")):
            i(c, (i(a),))
        i("dict", (i("int"), i("A")))
        self.tup(i("int"))
        self.tup(i("int"), i("int"))
        self.tup(i("bool"), i("int"))
        self.tup(i("A"), i("B"))
        self.tup(i("B"), i("A"))
        self.tup(i("int"), i("str"))
        self.tup(i("int"), i("int"), i("int"))
        self.union(i("int"), i("str"))
        self.union(i("A"), i("X"))
        self.union(i("B"), i("C"))
        self.union(i("int"), self.none)
        self.union(i("bool"), i("int"))
        self.union(self.tup(i("int"), i("int")), self.none)
        # unions nested inside a non-union type, and unions of such types (the strict and the lenient relation differ there)
        self.tup(i("str"))
        self.tup(self.union(i("int"), i("str")))
        self.union(self.tup(i("int")), self.none)
        self.tup(self.union(i("A"), i("X")), i("B"))
        self.union(self.tup(i("A"), i("B")), self.none)

    # -------------------------------------------------------------- queries (interpreted from source)
    def query(self, name, a, b):
        key = (name, a.label, b.label)
        if key in self.memo:
            v = self.memo[key]
            if isinstance(v, Exception):
                raise v
            return v
        fn = self.repo.func(TS, f"TypeSystem.{name}")
        it = peval.Interp(resolver=self.resolver, class_resolver=self.class_resolver, consts={"config.configuration.generator_selection.generator_any_distance": ANY_DISTANCE}, externs={"starmap": itertools.starmap, "map": map}, max_steps=2_000_000)
        try:
            v = it.run_function(fn, [self.graph, a, b], {}, self.mod)
        except (peval.Undecided, peval.Raises) as exc:
            self.memo[key] = exc
            raise
        self.memo[key] = v
        return v

    def universe(self):
        return list(self.types.values())
