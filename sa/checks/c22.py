"""C22 — minimization never reduces coverage, adds nothing, keeps asserted statements.

Decides, for every statement-level / test-level remover in ga/postprocess.py, that a removal is
applied to the original only in the true branch of an `all(map(isclose, A, B))` test where A was
computed from the unmodified object before the loop and B from a clone on which the SAME removal
(same index) was applied; that statement-level removers skip assertion-protected variables; that
the backward closure of the protected set is a real fixed point (sticky change flag); that an
in-place change of a test case that stays in a suite is followed by invalidation of its
chromosome; that the visitors only remove; and that _minimize snapshots before and restores after
a failed coverage comparison - locals identified by role: the suite is marked changed between the
minimisers and the coverages it is judged by, no minimiser runs after them, no coverage query takes the
whole collection of functions; _directly_asserted_variables is interpreted over representative test
cases.  Exactness of coverage after minimisation is not decided.
Further clauses (added later): Statement removers also skip statements that carry assertions themselves
(carrier rule). Guards that live in a predicate helper are inlined; statements that use a protected variable
must be skipped as well.
"""

from __future__ import annotations

import ast
import re

from sa.engine.cfg import CFG
from sa.engine.guards import inline_predicates, unguarded_path
from sa.engine.index import AnalysisError, last_attr, norm, own_nodes, parent, qualname

PP = "pynguin.ga.postprocess"
GEN = "pynguin.generator"

REMOVERS = ("remove_statement_with_forward_dependencies", "remove_statement", "remove_statements_batch", "delete_test_case_chromosome")
ADDERS = ("add_statement", "add_statements", "insert_statement", "append_test_case", "append_test_case_from", "add_test_case_chromosome", "add_test_case_chromosomes", "append_statement", "replace_statement", "set_statement")
INVALIDATORS = ("remove_last_execution_result", "set_test_case_chromosome", "invalidate_cache")

# coverage-guarded visitors: (class, method, statement-level?)
VISITORS = [
    ("ForwardIterativeMinimizationVisitor", "visit_default_test_case", True),
    ("BackwardIterativeMinimizationVisitor", "visit_default_test_case", True),
    ("CombinedMinimizationVisitor", "_minimize_statements_across_test_suite", True),
    ("TestSuiteMinimizationVisitor", "visit_test_suite_chromosome", False),
]


def _stmt(n):
    while n is not None and not isinstance(n, ast.stmt):
        n = parent(n)
    return n


def _loops_around(n, fn):
    out = []
    p = parent(n)
    while p is not None and p is not fn:
        if isinstance(p, (ast.For, ast.While)):
            out.append(p)
        p = parent(p)
    return out


def _is_isclose_guard(lit, names_a=None):
    _k, e, pol = lit
    if not pol or not (isinstance(e, ast.Call) and norm(e.func) == "all" and len(e.args) == 1):
        return False
    m = e.args[0]
    return isinstance(m, ast.Call) and norm(m.func) == "map" and len(m.args) == 3 and norm(m.args[0]) in ("math.isclose", "isclose")


def sticky_flag_check(ctx, rule, fn, flag: str, inner_loop_pred):
    """Inside the loop(s) selected by inner_loop_pred the flag may only be assigned the constant True."""
    n_ok = 0
    for n in own_nodes(fn):
        if isinstance(n, (ast.Assign, ast.AugAssign, ast.AnnAssign)):
            tg = n.targets[0] if isinstance(n, ast.Assign) else n.target
            if not (isinstance(tg, ast.Name) and tg.id == flag):
                continue
            loops = _loops_around(n, fn)
            inner = [l for l in loops if inner_loop_pred(l)]
            if not inner:
                continue
            val = norm(n.value) if n.value is not None else ""
            sticky = val == "True" or re.fullmatch(rf"{flag} or .+", val) or re.fullmatch(rf".+ or {flag}", val) or (isinstance(n, ast.AugAssign) and isinstance(n.op, ast.BitOr))
            ctx.check(rule, n, bool(sticky), f"`{norm(n)}` inside the scan overwrites the fixed-point flag `{flag}`: a later element that contributes nothing clears what an earlier element raised, and the iteration stops before the closure is reached", what=f"`{flag}` only raised inside the scan")
            n_ok += 1
    return n_ok


_RW: dict = {}


def _rewriter(repo):
    if id(repo) not in _RW:
        pmod = repo.module(PP)
        _RW.clear()
        _RW[id(repo)] = inline_predicates(lambda name: next((f for f in pmod.tree.body if isinstance(f, ast.FunctionDef) and f.name == name), None))
    return _RW[id(repo)]


def check(ctx) -> None:
    repo = ctx.repo
    ctx.rule("C22.guard", "GUARD-DOM + dataflow: every removal applied to the original is in the true branch of all(map(isclose, A, B)); A computed before the loops from the original, B from a clone on which the same removal (same index) was applied", floor=12)
    ctx.rule("C22.protected", "every statement-level coverage-guarded remover skips statements whose bound variable is in get_assertion_protected_variables(test case), statements that have assertions attached and statements that use a protected variable (guards inside predicate helpers are inlined)", floor=9)
    ctx.rule("C22.closure", "the backward closure of the protected set iterates to a fixed point: the change flag is only ever raised inside a scan, reset only at the start of a pass", floor=3)
    ctx.rule("C22.stale", "an in-place change of a test case that stays inside a suite/chromosome is followed, before the next coverage computation, by invalidation of its chromosome (fresh TestCaseChromosome / remove_last_execution_result / changed=True)", floor=3)
    ctx.rule("C22.asserted", "ABSINT: _directly_asserted_variables returns the root variable of the source of every reference assertion of every statement (bound or not), and no exception assertion", floor=3)
    _asserted(ctx, repo)
    ctx.rule("C22.subset", "WHO-MAY: no minimisation visitor adds or replaces statements or test cases", floor=6)
    ctx.rule("C22.restore", "_minimize clones the suite before any minimiser runs and restores from that clone when _check_coverage reports a difference; _check_coverage compares all coverages with isclose", floor=5)

    mod = repo.module(PP)
    # ------------------------------------------------------------------ C22.guard / C22.protected
    for cls, meth, stmt_level in VISITORS:
        fn = repo.func(PP, f"{cls}.{meth}")
        ctx.analysed(fn)
        cfg = CFG(fn)
        # clone variables
        clones = {}
        for n in own_nodes(fn):
            if isinstance(n, (ast.Assign, ast.AnnAssign)) and n.value is not None and isinstance(n.value, ast.Call) and last_attr(n.value) == "clone":
                tg = n.targets[0] if isinstance(n, ast.Assign) else n.target
                if isinstance(tg, ast.Name):
                    clones[tg.id] = norm(n.value.func.value)
        # derived from clones: x = <clone>.get_test_case_chromosome(..) / x = <derived>.test_case
        derived = set(clones)
        changed = True
        while changed:
            changed = False
            for n in own_nodes(fn):
                if isinstance(n, (ast.Assign, ast.AnnAssign)) and n.value is not None:
                    tg = n.targets[0] if isinstance(n, ast.Assign) else n.target
                    if isinstance(tg, ast.Name) and tg.id not in derived:
                        root = norm(n.value).split(".")[0].split("(")[0]
                        if root in derived:
                            derived.add(tg.id)
                            changed = True
        removals = [n for n in own_nodes(fn) if isinstance(n, ast.Call) and last_attr(n) in REMOVERS and isinstance(n.func, ast.Attribute)]
        orig_removals = [r for r in removals if norm(r.func.value).split(".")[0] not in derived]
        clone_removals = [r for r in removals if norm(r.func.value).split(".")[0] in derived]
        if not orig_removals:
            raise AnalysisError(f"{cls}.{meth}: no removal on the original found")
        for r in orig_removals:
            st = _stmt(r)
            targets = cfg.nodes_of(st)
            p = unguarded_path(cfg, targets, _is_isclose_guard)
            ctx.paths += 1
            ctx.check("C22.guard", st, p is None, f"{cls}: `{norm(r)[:90]}` on the original is reachable without all(map(isclose, original, minimized)) being true: a removal that loses coverage is applied", what=f"{cls}: removal on the original only when coverage unchanged", path=cfg.describe_path(p) if p else [])
            # the guard's operands
            g = None
            pp_ = parent(st)
            while pp_ is not None and pp_ is not fn:
                if isinstance(pp_, ast.If) and _is_isclose_guard(("lit", pp_.test, True)):
                    g = pp_
                    break
                pp_ = parent(pp_)
            if g is None:
                continue
            a_name, b_name = norm(g.test.args[0].args[1]), norm(g.test.args[0].args[2])
            # A: defined outside every loop (or a parameter), B: defined inside the same innermost loop as the guard
            params = [a.arg for a in fn.args.args]
            a_defs = [n for n in own_nodes(fn) if isinstance(n, (ast.Assign, ast.AnnAssign)) and norm(n.targets[0] if isinstance(n, ast.Assign) else n.target) == a_name]
            ok_a = (a_name in params and not a_defs) or (len(a_defs) == 1 and not _loops_around(a_defs[0], fn))
            if a_defs:
                # computed from the original object, not from a clone
                roots = {x.id for x in ast.walk(a_defs[0].value) if isinstance(x, ast.Name)}
                ok_a = ok_a and not (roots & derived)
            ctx.check("C22.guard", g, ok_a, f"{cls}: the reference coverage `{a_name}` is not computed once, before the loops, from the unmodified object", what=f"{cls}: reference coverage fixed before the loop", stmt=f"[A] {norm(g.test)}")
            b_defs = [n for n in own_nodes(fn) if isinstance(n, (ast.Assign, ast.AnnAssign)) and norm(n.targets[0] if isinstance(n, ast.Assign) else n.target) == b_name]
            ok_b = len(b_defs) == 1 and bool(_loops_around(b_defs[0], fn)) and _loops_around(b_defs[0], fn)[0] is _loops_around(g, fn)[0]
            roots = {x.id for x in ast.walk(b_defs[0].value) if isinstance(x, ast.Name)} if b_defs else set()
            ok_b = ok_b and bool(roots & derived)
            ctx.check("C22.guard", g, ok_b, f"{cls}: the candidate coverage `{b_name}` is not recomputed from the clone inside the loop iteration that decides the removal", what=f"{cls}: candidate coverage from the clone, per iteration", stmt=f"[B] {norm(g.test)}")
            # same removal on the clone: same method and same argument (statement-level), or the element at the same index (test-level)
            if stmt_level:
                same = [c for c in clone_removals if last_attr(c) == last_attr(r) and [norm(a) for a in c.args] == [norm(a) for a in r.args]]
                ok_same = bool(same) and all(b_defs and c.lineno < b_defs[0].lineno for c in same)
                ctx.check("C22.guard", st, ok_same, f"{cls}: the clone is not subjected to the same removal `{last_attr(r)}({', '.join(norm(a) for a in r.args)})` before its coverage is computed: the comparison does not predict the effect of the removal", what=f"{cls}: clone and original undergo the same removal", stmt=f"[same] {norm(r)[:90]}")
            else:
                arg = norm(r.args[0]) if r.args else ""
                m = re.fullmatch(r"(\w+)\[(\w+)\]", arg)
                idx = m.group(2) if m else None
                same = [c for c in clone_removals if last_attr(c) == last_attr(r)]
                ok_same = False
                if same and idx:
                    carg = norm(same[0].args[0])
                    cdef = [n for n in own_nodes(fn) if isinstance(n, (ast.Assign, ast.AnnAssign)) and norm(n.targets[0] if isinstance(n, ast.Assign) else n.target) == carg]
                    ok_same = len(cdef) == 1 and re.search(rf"\(\s*{idx}\s*\)", norm(cdef[0].value)) is not None
                ctx.check("C22.guard", st, ok_same, f"{cls}: the clone's deleted test case is not the one at the same index as the test deleted from the original", what=f"{cls}: same test index deleted from clone and original", stmt=f"[same] {norm(r)[:90]}")
            if stmt_level:
                prot_names = {norm(n.targets[0]) for n in own_nodes(fn) if isinstance(n, ast.Assign) and isinstance(n.value, ast.Call) and last_attr(n.value) == "get_assertion_protected_variables"}

                def not_protected(lit, prot_names=prot_names):
                    _k, e, pol = lit
                    return pol and isinstance(e, ast.Compare) and isinstance(e.ops[0], ast.NotIn) and norm(e.comparators[0]) in prot_names and norm(e.left).endswith(".bound_variable")

                rw = _rewriter(repo)
                p = unguarded_path(cfg, targets, not_protected, rewrite=rw) if prot_names else [cfg.entry]
                ctx.paths += 1
                ok = p is None
                if ok:
                    # the statement tested is the one at the index that is removed, and the set belongs to the same test case
                    idx = norm(r.args[0]) if r.args else "?"
                    recv = norm(r.func.value)
                    pd = [n for n in own_nodes(fn) if isinstance(n, ast.Assign) and isinstance(n.value, ast.Call) and last_attr(n.value) == "get_assertion_protected_variables"]
                    ok = all(norm(n.value.args[0]) == recv for n in pd)
                    tests = [n for n in own_nodes(fn) if isinstance(n, ast.If) and any(nm in norm(n.test) for nm in prot_names)]
                    for t in tests:
                        cmp_ = next((x for x in ast.walk(rw(t.test)) if isinstance(x, ast.Compare) and isinstance(x.ops[0], (ast.In, ast.NotIn)) and norm(x.comparators[0]) in prot_names), None)
                        lhs = norm(cmp_.left) if cmp_ is not None else ""
                        base = lhs.rsplit(".bound_variable", 1)[0]
                        src = base
                        d = [n for n in own_nodes(fn) if isinstance(n, ast.Assign) and norm(n.targets[0]) == base]
                        if d:
                            src = norm(d[0].value)
                        ok = ok and src == f"{recv}.get_statement({idx})"
                # a statement that carries assertions is kept as well: its assertions go with it
                def no_assertions(lit):
                    _k, e, pol = lit
                    if isinstance(e, ast.Call) and norm(e.func) == "bool" and len(e.args) == 1:
                        e = e.args[0]
                    return (not pol) and isinstance(e, ast.Attribute) and e.attr == "assertions"

                pc = unguarded_path(cfg, targets, no_assertions, rewrite=rw)
                # ... and so is a statement that uses a protected variable: it may change the state a later assertion observes
                def not_a_user(lit, prot_names=prot_names):
                    _k, e, pol = lit
                    if isinstance(e, ast.Call) and isinstance(e.func, ast.Attribute) and e.func.attr == "isdisjoint" and len(e.args) == 1:
                        a, b = norm(e.func.value), norm(e.args[0])
                        return pol and ((a.endswith(".used_variables()") and b in prot_names) or (b.endswith(".used_variables()") and a in prot_names))
                    if isinstance(e, ast.BinOp) and isinstance(e.op, ast.BitAnd):
                        a, b = norm(e.left), norm(e.right)
                        return (not pol) and ((a.endswith(".used_variables()") and b in prot_names) or (b.endswith(".used_variables()") and a in prot_names))
                    return False

                pu = unguarded_path(cfg, targets, not_a_user, rewrite=rw)
                ctx.paths += 1
                ctx.check("C22.protected", st, pu is None, f"{cls}: `{norm(r)[:80]}` can remove a statement that uses an assertion-protected variable: a coverage-neutral `var_0.add(2)` is removed although the kept `var_1 = var_0.size(); assert var_1 == 3` observes the state it builds - the exported test fails", what=f"{cls}: statements that use a protected variable are skipped", path=cfg.describe_path(pu) if pu else None, stmt=norm(st)[:60] + " [user]")
                ctx.paths += 1
                ctx.check("C22.protected", st, pc is None, f"{cls}: `{norm(r)[:80]}` can remove a statement that has assertions attached (no skip under `<statement>.assertions`): a call without a bound variable, e.g. `var_0.toggle()`, carries the assertions on var_0 observed after it; when it is coverage-neutral it is removed together with these oracles, and an earlier assertion may be left describing a state that is no longer reached", what=f"{cls}: statements with assertions are skipped", path=cfg.describe_path(pc) if pc else None, stmt=norm(st)[:60] + " [carrier]")
                ctx.check("C22.protected", st, ok, f"{cls}: `{norm(r)[:80]}` can remove a statement whose variable is asserted on (no skip of get_assertion_protected_variables({norm(r.func.value)}) for the statement at the removed index)", what=f"{cls}: protected variables skipped", path=cfg.describe_path(p) if p else [])

    # ------------------------------------------------------------------ C22.closure
    gp = repo.func(PP, "get_assertion_protected_variables")
    ctx.analysed(gp)
    calls = [last_attr(n) for n in own_nodes(gp) if isinstance(n, ast.Call)]
    ctx.check("C22.closure", gp, "_directly_asserted_variables" in calls and "_add_backward_dependencies" in calls, "get_assertion_protected_variables no longer closes the directly asserted variables under backward dependencies", what="direct sources + backward closure")
    abd = repo.func(PP, "_add_backward_dependencies")
    ctx.analysed(abd)
    whiles = [n for n in own_nodes(abd) if isinstance(n, ast.While)]
    if len(whiles) != 1 or not isinstance(whiles[0].test, ast.Name):
        ctx.undecide("C22.closure", abd, "fixed-point loop is not `while <flag>:`")
    else:
        flag = whiles[0].test.id
        w = whiles[0]
        first = w.body[0]
        ctx.check("C22.closure", first, isinstance(first, ast.Assign) and norm(first) == f"{flag} = False", "a pass of the closure does not start by resetting the change flag", what="flag reset at the start of a pass")
        got = sticky_flag_check(ctx, "C22.closure", abd, flag, lambda l: isinstance(l, ast.For))
        if got == 0:
            ctx.fail("C22.closure", abd, "the closure loop never raises its change flag inside the scan", stmt="[raise]")
        # every used variable of a protected-bound statement is added
        adds = [n for n in own_nodes(abd) if isinstance(n, ast.Call) and norm(n.func) in ("protected.add", "protected.update") or isinstance(n, ast.AugAssign) and norm(n.target) == "protected"]
        ctx.check("C22.closure", abd, bool(adds) and "used_variables()" in " ".join(norm(n) for n in own_nodes(abd)), "the closure no longer adds the used variables of protected statements", what="used variables of protected statements added", stmt="[adds]")
    # the same sticky rule for the visitors' `statements_changed`
    for cls, meth, _sl in VISITORS[:3]:
        fn = repo.func(PP, f"{cls}.{meth}")
        outer = [n for n in own_nodes(fn) if isinstance(n, ast.While) and isinstance(n.test, (ast.Name, ast.BoolOp)) and "statements_changed" in norm(n.test)]
        if outer:
            sticky_flag_check(ctx, "C22.closure", fn, "statements_changed", lambda l, outer=outer: l not in outer)

    # ------------------------------------------------------------------ C22.stale
    for qn, fn in mod.functions.items():
        # test cases taken out of a chromosome that stays alive: V = <C>.test_case
        holders = {}
        for n in own_nodes(fn):
            if isinstance(n, ast.Assign) and isinstance(n.targets[0], ast.Name) and isinstance(n.value, ast.Attribute) and n.value.attr == "test_case":
                holders[n.targets[0].id] = norm(n.value.value)
        muts = []
        for n in own_nodes(fn):
            if isinstance(n, ast.Call) and isinstance(n.func, ast.Attribute):
                recv = norm(n.func.value)
                if last_attr(n) in (*REMOVERS[:3], "chop", "remove_unused_variables") and (recv in holders or recv.endswith(".test_case")):
                    owner = holders.get(recv, recv.rsplit(".test_case", 1)[0])
                    if owner.split(".")[0].split("(")[0] in ("test_suite_clone", "clone_test_case_chrom"):
                        continue
                    muts.append((n, owner, recv))
                # visitor.visit_default_test_case(chromosome.test_case)
                if last_attr(n) == "visit_default_test_case" and n.args and norm(n.args[0]).endswith(".test_case"):
                    muts.append((n, norm(n.args[0]).rsplit(".test_case", 1)[0], norm(n.args[0])))
        if not muts:
            continue
        ctx.analysed(fn)
        cfg = CFG(fn)
        for call, owner, recv in muts:
            st = _stmt(call)
            if last_attr(call) == "chop" and call.args and isinstance(call.args[0], ast.Name):
                # chop(<position of the first raising statement>): the statements removed were never executed,
                # so the cached execution result describes the chopped test case exactly (read and accepted).
                pd = [n for n in own_nodes(fn) if isinstance(n, ast.Assign) and norm(n.targets[0]) == call.args[0].id]
                if len(pd) == 1 and norm(pd[0].value) == f"{owner}.get_last_mutatable_statement()":
                    ctx.ok("C22.stale", st, f"{qn}: chop at the last executed statement leaves the cached result valid")
                    continue
            # skip clone-derived owners
            odef = [n for n in own_nodes(fn) if isinstance(n, (ast.Assign, ast.AnnAssign)) and norm(n.targets[0] if isinstance(n, ast.Assign) else n.target) == owner.split(".")[0]]
            if any("clone" in norm(d.value) for d in odef if d.value is not None):
                continue
            inval = set()
            for n in cfg.nodes:
                if n.kind != "stmt" or n.stmt is None:
                    continue
                t = norm(n.stmt)
                if any(isinstance(c, ast.Call) and last_attr(c) in INVALIDATORS and (owner in norm(c) or recv in norm(c)) for c in ast.walk(n.stmt)):
                    inval.add(n.id)
                if re.match(rf"{re.escape(owner)}\.changed = True", t):
                    inval.add(n.id)
            starts = [b for s in cfg.nodes_of(st) for b, lab in cfg.succ[s] if lab != "exc"]
            # goals: next coverage computation / loop back to a clone / function exit
            goals = {cfg.exit}
            for n in cfg.nodes:
                if n.stmt is not None and n.kind == "stmt" and any(isinstance(c, ast.Call) and last_attr(c) in ("clone", "compute_coverage", "get_coverage_for") for c in ast.walk(n.stmt)):
                    goals.add(n.id)
            p = cfg.path(starts, goals, avoid_nodes=inval, labels_excluded=("exc",))
            ctx.paths += 1
            # ExceptionTruncation chops inside the chromosome: TestCaseChromosome tracks `changed` through its own test case size? accept only explicit invalidation
            ctx.check("C22.stale", st, p is None, f"{qn}: after `{norm(call)[:80]}` changed the test case of `{owner}` in place, a path reaches the next coverage computation / the end of the visitor without invalidating that chromosome (fresh TestCaseChromosome, remove_last_execution_result or changed=True): its cached execution result still claims the goals of the removed statements", what=f"{qn}: in-place change followed by invalidation", path=cfg.describe_path(p) if p else [])

    # ------------------------------------------------------------------ C22.subset
    visitor_classes = [c for c in mod.classes if any(k in c for k in ("Minimization", "Truncation", "Remover", "UnusedStatements", "PostProcessor"))]
    for cname in visitor_classes:
        cdef = mod.classes[cname]
        bad = []
        for n in ast.walk(cdef):
            if isinstance(n, ast.Call) and last_attr(n) in ADDERS:
                recv = norm(n.func.value) if isinstance(n.func, ast.Attribute) else ""
                if recv.split(".")[0] in ("suite", "test_suite_clone"):
                    continue
                bad.append(n)
        ctx.check("C22.subset", cdef, not bad, f"{cname} adds or replaces statements/test cases ({[norm(b)[:60] for b in bad][:2]}): the minimised suite may contain statements that were not in the original", what=f"{cname} only removes")
    cov = repo.func(PP, "_coverages")
    ctx.analysed(cov)
    ctx.check("C22.subset", cov, any(isinstance(n, ast.Call) and norm(n.func).endswith("TestCaseChromosome") for n in own_nodes(cov)), "_coverages no longer wraps the test case in a fresh TestCaseChromosome (stale execution results would be reused)", what="_coverages evaluates a fresh chromosome")

    # ------------------------------------------------------------------ C22.restore
    # Locals are identified by the role they play (data flow), not by their names.
    mn = repo.func(GEN, "_minimize")
    ctx.analysed(mn)
    cfg = CFG(mn)
    S = mn.args.args[0].arg  # the suite that is minimised in place

    def stmts(pred):
        return [n for n in cfg.nodes if n.kind == "stmt" and n.stmt is not None and pred(n.stmt)]

    def single_target(st):
        return norm(st.targets[0]) if isinstance(st, ast.Assign) and len(st.targets) == 1 else norm(st.target) if isinstance(st, ast.AnnAssign) else None

    defs: dict[str, list] = {}
    for n in stmts(lambda st: isinstance(st, (ast.Assign, ast.AnnAssign)) and getattr(st, "value", None) is not None):
        defs.setdefault(single_target(n.stmt), []).append(n)
    # F: the coverage functions of the algorithm
    fvars = {t for t, ds in defs.items() if any(norm(d.stmt.value).endswith(".test_suite_coverage_functions") for d in ds)}
    if not fvars:
        raise AnalysisError("_minimize no longer reads the algorithm's test_suite_coverage_functions: C22.restore cannot interpret it")

    def mentions(expr, names, seen=()):
        """expr reads one of `names`, directly or through locals defined from them."""
        for x in ast.walk(expr):
            if isinstance(x, ast.Name):
                if x.id in names:
                    return True
                if x.id in defs and x.id not in seen and any(mentions(d.stmt.value, names, (*seen, x.id)) for d in defs[x.id]):
                    return True
        return False

    snap = stmts(lambda st: isinstance(st, (ast.Assign, ast.AnnAssign)) and st.value is not None and norm(st.value) == f"{S}.clone()")
    # coverage-guarded minimisers: visitors built (transitively) from the coverage functions and applied to the suite
    accepts = stmts(lambda st: any(isinstance(c, ast.Call) and norm(c.func) == f"{S}.accept" and c.args and mentions(c.args[0], fvars) for c in ast.walk(st)))
    ctx.check("C22.restore", mn, len(snap) == 1 and len(accepts) >= 3, "_minimize no longer snapshots the suite / runs the coverage-guarded minimisers", what="snapshot and minimiser calls present", stmt="[anchors]")
    cmp_calls = [c for c in own_nodes(mn) if isinstance(c, ast.Call) and last_attr(c) == "_check_coverage"]
    if len(cmp_calls) != 1 or len(cmp_calls[0].args) != 2 or not all(isinstance(x, ast.Name) for x in cmp_calls[0].args):
        raise AnalysisError("_minimize no longer compares the coverages with one _check_coverage(<before>, <after>) call: C22.restore cannot interpret it")
    before_name, after_name = (x.id for x in cmp_calls[0].args)
    cmp_nodes = [n for n in cfg.nodes if n.stmt is not None and n.kind in ("stmt", "cond", "test") and any(c is cmp_calls[0] for c in ast.walk(n.stmt if n.kind == "stmt" else getattr(n.stmt, "test", n.stmt)))]
    cmp_stmt = next((n for n in cmp_nodes), None)
    verdict = single_target(cmp_stmt.stmt) if cmp_stmt is not None and cmp_stmt.kind == "stmt" and isinstance(cmp_stmt.stmt, (ast.Assign, ast.AnnAssign)) else None

    def cov_of_suite(d):
        return any(isinstance(c, ast.Call) and norm(c.func) == f"{S}.get_coverage_for" for c in ast.walk(d.stmt.value))

    orig_cov = [d for d in defs.get(before_name, []) if cov_of_suite(d)]
    mcov = [d for d in defs.get(after_name, []) if cov_of_suite(d)]
    ctx.check("C22.restore", cmp_calls[0], len(orig_cov) == 1 == len(defs.get(before_name, [])) and len(mcov) == 1 == len(defs.get(after_name, [])), f"_check_coverage({before_name}, {after_name}): its operands are not each computed once, from the coverage of `{S}`", what="compared values are coverages of the suite", stmt="[operands]")
    marks = stmts(lambda st: norm(st) == f"{S}.changed = True")
    if snap:
        snap_name = single_target(snap[0].stmt)
        for a in accepts:
            p = cfg.path([cfg.entry], [a.id], avoid_nodes={snap[0].id})
            ctx.paths += 1
            ctx.check("C22.restore", a.stmt, p is None, "a minimiser runs before the suite was cloned: the restore copy is already minimised", what="snapshot dominates the minimiser")
        for a in accepts:
            p = cfg.path([cfg.entry], [a.id], avoid_nodes={n.id for n in orig_cov})
            ctx.check("C22.restore", a.stmt, p is None and bool(orig_cov), "a minimiser runs before the reference coverages were computed", what="reference coverages dominate the minimiser", stmt="[orig-cov] " + norm(a.stmt)[:80])
        rest = stmts(lambda st: isinstance(st, ast.Assign) and norm(st.targets[0]) == f"{S}.test_case_chromosomes")
        ok = len(rest) == 1 and snap_name in {x.id for x in ast.walk(rest[0].stmt.value) if isinstance(x, ast.Name)}
        ctx.check("C22.restore", rest[0].stmt if rest else mn, ok, "the restore branch does not rebuild the suite from the pre-minimisation snapshot", what="restore from the snapshot")
        if rest:
            vtxt = verdict if verdict is not None else norm(cmp_calls[0])

            def lost(lit):
                _k, e, pol = lit
                return (pol and norm(e) == f"not {vtxt}") or (not pol and norm(e) == vtxt)

            p = unguarded_path(cfg, [rest[0].id], lost)
            ctx.check("C22.restore", rest[0].stmt, p is None, f"restore is not tied to `not {vtxt}`", what="restore iff coverage differs", stmt="[cond]")
            # and the verdict is computed on every path that can skip the restore: no path from the comparison leaves
            # with a differing coverage and without the restore (checked by the guard above in the other direction)
            p = cfg.path([b for b, lab in cfg.succ[rest[0].id] if lab != "exc"], [cfg.exit], avoid_nodes={n.id for n in marks}, labels_excluded=("exc",))
            ctx.check("C22.restore", rest[0].stmt, p is None, "after restoring the suite its changed flag is not raised: cached (minimised) coverage would be reported", what="restored suite marked changed", stmt="[changed]")
        if verdict is not None:
            ctx.check("C22.restore", cmp_stmt.stmt, len(defs.get(verdict, [])) == 1, f"`{verdict}` is assigned more than once: the restore decision no longer follows from the coverage comparison alone", what="verdict assigned once, from _check_coverage(before, after)")
    # the comparison must see the minimized suite, and no coverage query takes the whole collection of coverage functions
    if mcov:
        # every path from a minimiser run to the computation of the minimized coverages raises the changed flag of the suite
        unmarked = None
        for a in accepts:
            pth = cfg.path([b for b, lab in cfg.succ[a.id] if lab != "exc"], [mcov[0].id], avoid_nodes={n.id for n in marks}, labels_excluded=("exc",))
            if pth is not None:
                unmarked = a
            # and no minimiser runs after the coverages it is judged by were computed
            late = cfg.path([b for b, lab in cfg.succ[mcov[0].id] if lab != "exc"], [a.id], labels_excluded=("exc",))
            ctx.check("C22.restore", a.stmt, late is None, "a minimiser runs after the coverages of the minimised suite were computed: what it removes is never compared", what="minimiser precedes the minimised coverages", stmt="[late] " + norm(a.stmt)[:80])
        ctx.paths += 2 * len(accepts)
        ctx.check("C22.restore", mcov[0].stmt, unmarked is None, "the minimisers change the test cases of the suite in place, but the suite is not marked as changed before its coverage is computed again: the comparison reads the values cached before the minimisation and can never notice a loss" + (f" (path from `{norm(unmarked.stmt)[:60]}`)" if unmarked is not None else ""), what="suite marked changed between the minimisers and the comparison", stmt="[stale comparison]")
    bad_q = [c for c in own_nodes(mn) if isinstance(c, ast.Call) and last_attr(c) == "get_coverage_for" and c.args and (norm(c.args[0]) in fvars or norm(c.args[0]).endswith(".test_suite_coverage_functions"))]
    ctx.check("C22.restore", bad_q[0] if bad_q else mn, not bad_q, "_minimize asks for the coverage of the whole collection of coverage functions (`get_coverage_for(<all coverage functions>)`): the collection is unhashable, the restore path raises TypeError exactly when it is needed", what="coverage queried per coverage function", stmt="[coverage query]")
    cc = repo.func(GEN, "_check_coverage")
    ctx.analysed(cc)
    d = [n for n in own_nodes(cc) if isinstance(n, ast.Assign) and _is_isclose_guard(("lit", n.value, True))]
    rets = [n for n in own_nodes(cc) if isinstance(n, ast.Return)]
    ok = len(d) == 1 and all(norm(r.value) == norm(d[0].targets[0]) for r in rets) and [norm(a) for a in d[0].value.args[0].args[1:]] == [a.arg for a in cc.args.args]
    ctx.check("C22.restore", cc, ok, "_check_coverage no longer returns all(map(isclose, original, minimized))", what="_check_coverage = all(map(isclose, original, minimized))")


def _asserted(ctx, repo) -> None:
    from sa.engine import peval

    PP = "pynguin.ga.postprocess"
    fn = repo.func(PP, "_directly_asserted_variables")
    ctx.analysed(fn)
    pmod = repo.module(PP)

    def assertion(kind, source):
        return peval.Obj(kind, fields={"source": source}, classes=[kind, "ReferenceAssertion"] if kind != "ExceptionAssertion" else ["ExceptionAssertion", "Assertion"])

    def stmt(bound, assertions):
        return peval.Obj("Statement", fields={"bound_variable": bound, "assertions": list(assertions)})

    cases = {
        "assertion on the statement's own variable": ([stmt("var_0", [assertion("ObjectAssertion", "var_0")])], {"var_0"}),
        "attribute path as source": ([stmt("var_0", []), stmt("var_1", [assertion("ObjectAssertion", "var_0.count")])], {"var_0"}),
        "assertion carried by a statement without a bound variable": ([stmt("var_0", []), stmt(None, [assertion("ObjectAssertion", "var_0.size")])], {"var_0"}),
        "assertion on another variable than the one the statement binds": ([stmt("var_0", []), stmt("var_1", []), stmt("var_2", [assertion("FloatAssertion", "var_0"), assertion("IsInstanceAssertion", "var_1.x.y")])], {"var_0", "var_1"}),
        "exception assertions protect nothing": ([stmt("var_0", [assertion("ExceptionAssertion", None)])], set()),
    }
    for label, (stmts, want) in cases.items():
        tc = peval.Obj("TestCase")
        tc.methods["statements"] = lambda stmts=stmts: list(stmts)
        tag = f"[asserted: {label}]"
        try:
            got = peval.Interp(resolver=peval.repo_resolver(repo), consts={"ExceptionAssertion": peval.Token("ExceptionAssertion"), "ReferenceAssertion": peval.Token("ReferenceAssertion")}).run_function(fn, [tc], {}, pmod)
        except (peval.Undecided, peval.Raises) as exc:
            ctx.undecide("C22.asserted", fn, f"{tag}: {exc}")
            continue
        ctx.check("C22.asserted", fn, set(got) == want, f"{tag}: protected variables are {sorted(got)}, the asserted ones are {sorted(want)}: the minimisers delete a statement although an assertion refers to the variable it defines", what=f"{tag} -> {sorted(want)}", stmt=tag)
