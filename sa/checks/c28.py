"""C28 — mutation analysis yields genuine mutants and leaves the original intact.

Decides: (restore) the in-place splice of a mutated child into the shared tree is
undone on every exit of the visiting generators, including GeneratorExit at the
yield; (pure) no mutate_* visitor writes through its `node` parameter or an alias
of a part of it; (count) mutation_count and the selection enumerate the same
expression; (exhaust) mutators that regenerate a selected mutation exhaust the
operator generator after use so the splice is undone before the next one;
(index-space) a position bound by enumerate(E) stores only into the list E enumerates;
a mutator with its own mutate() has its own (or the generic) mutation_count.
Further clauses (added later): C28.splice (must-pass): both _generic_visit_* generators write the mutated
child into the parent before every yield.
"""

from __future__ import annotations

import ast

from sa.engine.cfg import CFG
from sa.engine.index import AnalysisError, norm, own_nodes, parent, qualname, last_attr

BASE = "pynguin.assertion.mutation_analysis.operators.base"
MUT = "pynguin.assertion.mutation_analysis.mutators"
MUTATING_METHODS = {"append", "extend", "insert", "pop", "remove", "clear", "sort", "reverse", "update", "setdefault", "popitem", "add", "discard", "__setitem__", "__delitem__"}
FRESH_CALLS = ("copy_node", "copy.deepcopy", "deepcopy", "copy.copy")


def _base_name(e):
    while isinstance(e, (ast.Attribute, ast.Subscript)):
        e = e.value
    return e.id if isinstance(e, ast.Name) else None


def _bound_names(tg):
    if isinstance(tg, ast.Name):
        return [tg]
    if isinstance(tg, (ast.Tuple, ast.List)):
        return [y for e in tg.elts for y in _bound_names(e)]
    if isinstance(tg, ast.Starred):
        return _bound_names(tg.value)
    return []


def _tainted(fn, seed):
    """Names that may alias (a part of) the object bound to `seed` (flow-insensitive)."""
    t = {seed}
    changed = True
    while changed:
        changed = False
        for n in own_nodes(fn):
            src = None
            tgts = []
            if isinstance(n, ast.Assign):
                src, tgts = n.value, n.targets
            elif isinstance(n, ast.AnnAssign) and n.value is not None:
                src, tgts = n.value, [n.target]
            elif isinstance(n, ast.NamedExpr):
                src, tgts = n.value, [n.target]
            elif isinstance(n, (ast.For, ast.comprehension)):
                src, tgts = n.iter, [n.target]
            if src is None:
                continue
            srcs = [src]
            if isinstance(src, ast.IfExp):
                srcs = [src.body, src.orelse]
            if isinstance(src, (ast.Tuple, ast.List)):
                srcs = list(src.elts)
            if isinstance(src, ast.Call) and norm(src.func) in ("enumerate", "zip", "reversed", "iter", "list", "tuple", "cast"):
                srcs = list(src.args)
            flows = False
            for s in srcs:
                if isinstance(s, (ast.Name, ast.Attribute, ast.Subscript)) and _base_name(s) in t:
                    flows = True
                if isinstance(s, ast.Starred) and _base_name(s.value) in t:
                    flows = True
            if flows:
                for tg in tgts:
                    for x in _bound_names(tg):
                        if isinstance(x, ast.Name) and x.id not in t:
                            # `seed = copy_node(seed)` style rebinding of a *different* name never reaches here
                            t.add(x.id)
                            changed = True
    return t


def check(ctx) -> None:
    repo = ctx.repo
    ctx.rule("C28.splice", "MUST-PASS: in both _generic_visit_* generators every path from the visit loop's header to its yield writes the mutated child into the parent first", floor=2)
    _splice_before_yield(ctx, repo)
    ctx.rule("C28.restore", "PAIR-FINALLY: after a mutated child is spliced into the shared tree every path to any exit of the visiting generator (incl. GeneratorExit at the yield) passes the restoring write", floor=2)
    ctx.rule("C28.pure", "TAINT: no mutate_* visitor assigns, deletes or calls a mutating method through its `node` parameter or an alias of a part of it", floor=60)
    ctx.rule("C28.index-space", "a position bound by enumerate(E) subscript-stores only into the list E enumerates (itself or a plain copy): splice and restore hit the slot of the visited child", floor=2)
    ctx.rule("C28.count", "mutation_count / _select_mutations / _generate_all_mutations enumerate `op.mutate(target_ast, module)` over self.operators", floor=3)
    ctx.rule("C28.exhaust", "after a regenerated mutant is yielded the operator generator is driven to exhaustion before the next mutation is applied", floor=2)

    # ------------------------------------------------------------------ C28.restore
    for name in ("_generic_visit_list", "_generic_visit_real_node"):
        fn = repo.func(BASE, f"MutationOperator.{name}")
        ctx.analysed(fn)
        cfg = CFG(fn)
        params = {a.arg for a in fn.args.args}
        # names bound by iterating self.visit(...): carry the mutated node
        mutated_names = set()
        for n in own_nodes(fn):
            if isinstance(n, ast.For) and isinstance(n.iter, ast.Call) and norm(n.iter.func) == "self.visit":
                mutated_names |= {x.id for x in ast.walk(n.target) if isinstance(x, ast.Name)}
        if not mutated_names:
            raise AnalysisError(f"{name}: no loop over self.visit(...) found")
        writes = []  # (cfg node ids, stmt, location text, value names)
        for n in cfg.nodes:
            s = n.stmt
            if n.kind != "stmt":
                continue
            loc = val = None
            if isinstance(s, ast.Assign) and isinstance(s.targets[0], (ast.Subscript, ast.Attribute)) and _base_name(s.targets[0]) in params:
                loc, val = norm(s.targets[0]), s.value
            elif isinstance(s, ast.Expr) and isinstance(s.value, ast.Call) and norm(s.value.func) == "setattr" and len(s.value.args) == 3 and _base_name(s.value.args[0]) in params:
                loc, val = f"setattr({norm(s.value.args[0])},{norm(s.value.args[1])})", s.value.args[2]
            if loc is None:
                continue
            vnames = {x.id for x in ast.walk(val) if isinstance(x, ast.Name)}
            writes.append((n.id, s, loc, vnames))
        splices = [w for w in writes if w[3] & mutated_names]
        if not splices:
            raise AnalysisError(f"{name}: no splice write found")
        for nid, s, loc, _v in splices:
            restores = {w[0] for w in writes if w[2] == loc and not (w[3] & mutated_names)}
            starts = [b for b, lab in cfg.succ[nid] if lab != "exc"]
            bad = cfg.path(starts, [cfg.exit, cfg.raise_exit], avoid_nodes=restores)
            ctx.paths += 1
            ctx.check(
                "C28.restore",
                s,
                bad is None and bool(restores),
                f"{name}: after the mutated child is spliced into `{loc}` a path leaves the generator without restoring the original "
                "(closing the generator at the yield keeps the shared tree mutated)",
                what=f"{name}: `{loc}` restored on all exits ({len(restores)} restore copies)",
                path=cfg.describe_path(bad) if bad else [],
            )

    # ------------------------------------------------------------------ C28.pure
    repo.cls(BASE, "MutationOperator")
    ops = [(BASE, "MutationOperator"), *repo.subclasses(BASE, "MutationOperator")]
    n_visitors = 0
    for m, c in sorted(set(ops)):
        cdef = repo.modules[m].classes[c]
        for mname, fn in repo.methods(cdef).items():
            if not mname.startswith("mutate_") or len(fn.args.args) < 2:
                continue
            n_visitors += 1
            ctx.analysed(fn)
            seed = fn.args.args[1].arg
            # rebinding the parameter itself to a fresh copy makes later writes harmless: handled by position
            rebind_line = None
            for n in own_nodes(fn):
                if isinstance(n, ast.Assign) and any(isinstance(t, ast.Name) and t.id == seed for t in n.targets):
                    if isinstance(n.value, ast.Call) and norm(n.value.func) in FRESH_CALLS:
                        rebind_line = n.lineno if rebind_line is None else min(rebind_line, n.lineno)
            tainted = _tainted(fn, seed)
            bad = []
            for n in own_nodes(fn):
                tg = []
                if isinstance(n, ast.Assign):
                    tg = n.targets
                elif isinstance(n, (ast.AugAssign, ast.AnnAssign)):
                    tg = [n.target]
                elif isinstance(n, ast.Delete):
                    tg = n.targets
                for t in tg:
                    for x in ([t] if not isinstance(t, (ast.Tuple, ast.List)) else t.elts):
                        if isinstance(x, (ast.Attribute, ast.Subscript)) and _base_name(x) in tainted:
                            bad.append((n, f"writes `{norm(x)}`"))
                if isinstance(n, ast.Call):
                    f = n.func
                    if isinstance(f, ast.Attribute) and f.attr in MUTATING_METHODS and _base_name(f.value) in tainted:
                        bad.append((n, f"calls `{norm(f)}` on a part of the original node"))
                    if norm(f) in ("setattr", "delattr") and n.args and _base_name(n.args[0]) in tainted:
                        bad.append((n, f"{norm(f)} on the original node"))
            bad = [(n, why) for n, why in bad if not (rebind_line is not None and n.lineno > rebind_line and _base_name_of_stmt(n) == seed)]
            if bad:
                for n, why in bad:
                    st = n
                    while not isinstance(st, ast.stmt):
                        st = parent(st)
                    ctx.fail("C28.pure", st, f"{c}.{mname} {why}: the original syntax tree is modified, not a copy")
            else:
                ctx.ok("C28.pure", fn, f"{c}.{mname}: no write through `{seed}` ({len(tainted)} alias names)")
    ctx.extra["mutate_visitors"] = n_visitors

    # ------------------------------------------------------------------ C28.index-space
    # a position obtained from enumerate(E) may only subscript-store into a list that has E's length and order
    n_idx = 0
    for qn, fn in repo.module(BASE).functions.items():
        for lp in own_nodes(fn):
            if not (isinstance(lp, ast.For) and isinstance(lp.iter, ast.Call) and norm(lp.iter.func) == "enumerate" and isinstance(lp.target, ast.Tuple) and isinstance(lp.target.elts[0], ast.Name) and lp.iter.args):
                continue
            idx, src = lp.target.elts[0].id, lp.iter.args[0]
            for st in ast.walk(lp):
                if isinstance(st, ast.Assign) and isinstance(st.targets[0], ast.Subscript) and isinstance(st.targets[0].slice, ast.Name) and st.targets[0].slice.id == idx:
                    lst = norm(st.targets[0].value)
                    src_txt = norm(src)
                    if isinstance(src, ast.Name):
                        defs = [n.value for n in own_nodes(fn) if isinstance(n, ast.Assign) and norm(n.targets[0]) == src.id]
                        src_txt = norm(defs[0]) if len(defs) == 1 else src_txt
                    same = src_txt in (lst, f"{lst}.copy()", f"list({lst})", f"tuple({lst})", f"{lst}[:]")
                    n_idx += 1
                    ctx.analysed(fn)
                    ctx.check("C28.index-space", st, same, f"{qn}: `{norm(st)[:60]}` stores at a position counted over `{src_txt[:60]}`, which is not `{lst}` itself: when entries were filtered out or reordered the mutated child is spliced into - and the original restored into - the wrong slot, so the original tree is changed for good and the mutant differs outside its mutated node", what=f"{qn}: position of {lst} from enumerate({src_txt[:30]})", stmt=f"[{qn}] {norm(st)[:50]}")
    if n_idx == 0:
        raise AnalysisError("C28.index-space: no positional splice found in the operator base")

    # ------------------------------------------------------------------ C28.count
    def enum_exprs(fn):
        out = []
        for n in own_nodes(fn):
            if isinstance(n, (ast.GeneratorExp, ast.ListComp)):
                for g in n.generators:
                    if isinstance(g.iter, ast.Call) and isinstance(g.iter.func, ast.Attribute) and g.iter.func.attr == "mutate":
                        out.append((n, g.iter, [norm(x.iter) for x in n.generators]))
            if isinstance(n, ast.For) and isinstance(n.iter, ast.Call) and isinstance(n.iter.func, ast.Attribute) and n.iter.func.attr == "mutate":
                outer = [norm(a.iter) for a in _anc(n) if isinstance(a, ast.For)]
                out.append((n, n.iter, [*outer, norm(n.iter)]))
        return out

    ref = None
    for qn in ("FirstOrderMutator.mutation_count", "FirstOrderMutator._select_mutations", "HighOrderMutator._generate_all_mutations"):
        fn = repo.func(MUT, qn)
        ctx.analysed(fn)
        es = enum_exprs(fn)
        if not es:
            ctx.undecide("C28.count", fn, "no op.mutate(...) enumeration found")
            continue
        node, call, iters = es[0]
        args = sorted(norm(a) for a in call.args)
        over_ops = any(i == "self.operators" for i in iters) or any(
            isinstance(a, ast.comprehension) for a in []
        )
        # the operator loop may be the enclosing comprehension
        if not over_ops:
            for a in _anc(node):
                if isinstance(a, (ast.ListComp, ast.GeneratorExp)) and any(norm(g.iter) == "self.operators" for g in a.generators):
                    over_ops = True
        sig = (tuple(args), len(call.args), bool(call.keywords))
        if ref is None:
            ref = sig
        ok = over_ops and sig == ref and len(call.args) == 2 and not call.keywords
        ctx.check("C28.count", node, ok, f"{qn} does not enumerate op.mutate(target_ast, module) over all of self.operators like its siblings: reported count and yielded mutants disagree", what=f"{qn}: enumerates {norm(call)} over self.operators")
    # a mutator that enumerates differently must count differently: mutate() and mutation_count() come from the same class
    # (or the count is the base class's, which enumerates self.mutate itself)
    mm = repo.module(MUT)
    for cname, cdef in mm.classes.items():
        own = {f.name: f for f in cdef.body if isinstance(f, ast.FunctionDef)}
        if "mutate" not in own or any(norm(d).endswith("abstractmethod") for d in own["mutate"].decorator_list):
            continue
        resolved = repo.resolve_method(MUT, cname, "mutation_count")
        if resolved is None:
            raise AnalysisError(f"{cname}: mutation_count cannot be resolved")
        mc_fn = resolved[-1] if isinstance(resolved, tuple) else resolved
        generic = any(isinstance(n, ast.Call) and norm(n.func) == "self.mutate" for n in own_nodes(mc_fn))
        ctx.check("C28.count", cdef, "mutation_count" in own or generic, f"{cname} enumerates its mutants with its own mutate() but reports the count of an inherited mutation_count() that does not go through it: the reported number of mutants is not the number the enumeration yields", what=f"{cname}: mutate and mutation_count agree", stmt=f"[{cname}] count follows mutate")
    # the count must not be filtered or capped
    mc = repo.func(MUT, "FirstOrderMutator.mutation_count")
    rets = [n for n in own_nodes(mc) if isinstance(n, ast.Return)]
    ok = len(rets) == 1 and isinstance(rets[0].value, ast.Call) and norm(rets[0].value.func) == "sum" and isinstance(rets[0].value.args[0], ast.GeneratorExp) and norm(rets[0].value.args[0].elt) == "1" and not any(g.ifs for g in rets[0].value.args[0].generators)
    ctx.check("C28.count", mc, ok, "mutation_count is not an unfiltered count of the full enumeration", what="mutation_count = sum(1 for ...) unfiltered")

    # ------------------------------------------------------------------ C28.exhaust
    for qn in ("FirstOrderMutator.mutate", "HighOrderMutator.mutate"):
        fn = repo.func(MUT, qn)
        ctx.analysed(fn)
        cfg = CFG(fn)
        gens = [n for n in cfg.nodes if n.kind == "stmt" and isinstance(n.stmt, ast.Assign) and isinstance(n.stmt.value, ast.Call) and isinstance(n.stmt.value.func, ast.Attribute) and n.stmt.value.func.attr == "mutate" and len(n.stmt.value.args) == 3]
        if not gens:
            raise AnalysisError(f"{qn}: regenerating call operator.mutate(ast, module, mutation) not found")
        yields = [n.id for n in cfg.nodes if n.kind == "stmt" and any(isinstance(x, ast.Yield) for x in ast.walk(n.stmt)) and not isinstance(n.stmt, (ast.FunctionDef,))]
        for g in gens:
            gname = norm(g.stmt.targets[0])
            # exhausting statements: `next(gname, None)` after the yield, or a call to _finish_generators
            ex = set()
            for n in cfg.nodes:
                if n.kind != "stmt":
                    continue
                txt = norm(n.stmt)
                if (f"next({gname}, None)" in txt and isinstance(n.stmt, ast.Assert)) or "_finish_generators(" in txt:
                    ex.add(n.id)
            # yields reachable from this generator creation
            reach = cfg.reachable([g.id])
            ys = [y for y in yields if y in reach]
            bad = None
            for y in ys:
                nxt = [b for b, lab in cfg.succ[y] if lab != "exc"]
                # next application of a mutation or normal end of the function without exhausting
                p = cfg.path(nxt, [g.id, cfg.exit], avoid_nodes=ex, labels_excluded=("exc",))
                ctx.paths += 1
                if p:
                    bad = p
            ctx.check("C28.exhaust", g.stmt, bad is None and bool(ys), f"{qn}: the operator generator `{gname}` is not exhausted after its mutant was yielded; the splice stays in the shared tree while the next mutation is applied", what=f"{qn}: `{gname}` exhausted before the next mutation", path=cfg.describe_path(bad) if bad else [])
    ff = repo.func(MUT, "HighOrderMutator._finish_generators")
    ok = any(isinstance(n, ast.For) and "generators" in norm(n.iter) and any(isinstance(x, ast.Call) and norm(x.func) == "next" for x in ast.walk(n)) for n in own_nodes(ff))
    ctx.check("C28.exhaust", ff, ok, "_finish_generators does not advance every generator", what="_finish_generators advances every generator")
    # nested in-place splices must be undone in reverse order of application (LIFO): the generators are
    # appended in application order, each later one was started on the tree as mutated by the earlier ones
    hom = repo.func(MUT, "HighOrderMutator.mutate")
    appended_in_order = any(isinstance(n, ast.Call) and isinstance(n.func, ast.Attribute) and n.func.attr == "append" and "generator" in norm(n.func.value) for n in own_nodes(hom))
    prepended = any(isinstance(n, ast.Call) and isinstance(n.func, ast.Attribute) and n.func.attr == "insert" and n.args and norm(n.args[0]) == "0" and "generator" in norm(n.func.value) for n in own_nodes(hom))
    par = ff.args.args[-1].arg
    loops = [n for n in own_nodes(ff) if isinstance(n, ast.For) and par in norm(n.iter)]
    rev = any(norm(l.iter) in (f"reversed({par})", f"{par}[::-1]") for l in loops) or any(
        isinstance(n, ast.While) and any(isinstance(x, ast.Call) and norm(x.func) == f"{par}.pop" and not x.args for x in ast.walk(n)) for n in own_nodes(ff)
    )
    if not (appended_in_order or prepended) or not (loops or rev):
        ctx.undecide("C28.exhaust", ff, "cannot tell the application order of the generators")
    else:
        lifo = (appended_in_order and rev) or (prepended and not rev)
        ctx.check(
            "C28.exhaust",
            loops[0] if loops else ff,
            lifo,
            "_finish_generators restores the spliced mutations in application order instead of reverse order: an earlier restore "
            "re-installs a list element while a later generator still holds a splice inside it, so the shared tree stays mutated",
            what="higher-order splices are undone last-in first-out",
            stmt="[lifo]",
        )


def _base_name_of_stmt(n):
    if isinstance(n, ast.Assign):
        return _base_name(n.targets[0])
    if isinstance(n, (ast.AugAssign, ast.AnnAssign)):
        return _base_name(n.target)
    if isinstance(n, ast.Call) and isinstance(n.func, ast.Attribute):
        return _base_name(n.func.value)
    return None


def _anc(n):
    p = parent(n)
    while p is not None:
        yield p
        p = parent(p)


def _splice_before_yield(ctx, repo) -> None:
    """Before a mutant is handed out, the parent's field holds exactly the child that belongs to this mutant: every path
    from the loop header of a _generic_visit_* generator to its yield passes the write of the field (a write that is
    skipped when 'nothing changed' leaves the previous mutant's replacement spliced in)."""
    from sa.engine.cfg import CFG

    BASE = "pynguin.assertion.mutation_analysis.operators.base"
    n = 0
    for qn in ("MutationOperator._generic_visit_real_node", "MutationOperator._generic_visit_list"):
        fn = repo.try_func(BASE, qn)
        if fn is None:
            raise AnalysisError(f"anchor vanished: {qn}")
        ctx.analysed(fn)
        cfg = CFG(fn)
        loops = [f for f in own_nodes(fn) if isinstance(f, ast.For) and any(isinstance(c, ast.Call) and last_attr(c) == "visit" for c in ast.walk(f.iter))]
        for lp in loops:
            heads = cfg.nodes_of(lp)
            yields = [nd.id for nd in cfg.nodes if nd.stmt is not None and nd.kind == "stmt" and any(isinstance(y, ast.Yield) for y in ast.walk(nd.stmt)) and any(nd.stmt is s or any(nd.stmt is x for x in ast.walk(s)) for s in lp.body)]
            writes = {nd.id for nd in cfg.nodes if nd.stmt is not None and nd.kind == "stmt" and not isinstance(nd.stmt, (ast.If, ast.For, ast.While, ast.Try, ast.With)) and any((isinstance(c, ast.Call) and norm(c.func) == "setattr") or (isinstance(c, ast.Assign) and isinstance(c.targets[0], ast.Subscript)) for c in ast.walk(nd.stmt)) and any(nd.stmt is s or any(nd.stmt is x for x in ast.walk(s)) for s in lp.body)}
            if not yields:
                continue
            start = [b for h in heads for b, lab in cfg.succ[h] if lab not in ("exc", "exit", "false")]
            p = cfg.path(start, yields, avoid_nodes=writes, labels_excluded=("exc",))
            n += 1
            ctx.check("C28.splice", lp, p is None and bool(writes), f"{qn}: a mutant is yielded on a path that does not write the mutated child into the parent's field first: when the child itself was replaced by the previous mutant and the next mutant changes a descendant, the previous replacement is still spliced in - the mutant that is handed out is not the one that is reported (and not one of the full enumeration)", what=f"{qn}: field written before every yield", path=cfg.describe_path(p) if p else [], stmt=f"[{qn}] write before yield")
    if n < 2:
        raise AnalysisError(f"C28.splice: only {n} visit loops with a yield found (confirmed by reading: 2)")
