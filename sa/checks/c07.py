"""C07 — every branch goal is reachable in the DynaMOSA goal graph.

Decides, by interpreting the four cooperating pieces from source over representative control-dependence
graphs (networkx graphs built by the checker; nothing of pynguin is imported or run):
 * C07.agree   the two sites that decide "this basic block carries a predicate" agree: for a block that ends
               in a conditional jump, InstrumentationTransformer._create_covered_cdg keeps it in the CDG
               exactly when BranchCoverageInstrumentation.visit_node (every version) reaches a predicate
               visitor - over all combinations of excluded / covered lines and conditional statements;
 * C07.relink  after _create_covered_cdg removed an excluded block, every successor of it is attached to
               every predecessor (also a successor that keeps another incoming edge, e.g. a loop header),
               so no kept block loses its connection to the entry;
 * C07.deps    get_control_dependencies looks through unlabelled (re-linked) edges and terminates on
               cycles; is_control_dependent_on_root finds the entry through unlabelled edges only;
 * C07.graph   _BranchFitnessGraph._build_graph over the representative shapes: does not fail, roots are
               the branch-less code objects and the root-dependent predicates, one edge per dependency,
               nothing without incoming edge outside the roots;
 * C07.update  _GoalsManager.update driven with an archive that covers what it is handed: every goal of
               every shape becomes a current goal; an uncovered current goal stays current.
Not decided: that the shapes cover every CDG a Python module can produce (they are representatives: nested,
sequential, loop, excluded block in the middle, excluded loop header in front of a loop, handler block).
Further clauses (added later): C07.deps interprets the control-dependence queries over graphs with chains of
unlabelled edges, a single-call fixed point and roots reached through two unlabelled controllers.
"""

from __future__ import annotations

import ast
import itertools

from sa.checks import _instr as I
from sa.engine import peval
from sa.engine.index import AnalysisError, norm, own_nodes

TRF = "pynguin.instrumentation.transformer"
CF = "pynguin.instrumentation.controlflow"
DYN = "pynguin.ga.algorithms.dynamosaalgorithm"


class OSet(list):
    """Order-preserving set stand-in for pynguin's OrderedSet inside interpreted code."""

    def __init__(self, it=()):
        super().__init__()
        for x in it:
            self.add(x)

    def add(self, x):
        if x not in self:
            self.append(x)

    def update(self, it):
        for x in it:
            self.add(x)

    def discard(self, x):
        if x in self:
            self.remove(x)

    def issubset(self, other):
        return all(x in other for x in self)


class Goal:
    def __init__(self, code_object_id, predicate_id=None, value=None):
        self.code_object_id, self.predicate_id, self.value = code_object_id, predicate_id, value
        self.is_branch = predicate_id is not None
        self.is_branchless_code_object = predicate_id is None

    def __eq__(self, other):
        return isinstance(other, Goal) and (self.code_object_id, self.predicate_id, self.value) == (other.code_object_id, other.predicate_id, other.value)

    def __hash__(self):
        return hash((self.code_object_id, self.predicate_id, self.value))

    def __repr__(self):
        return f"goal(p{self.predicate_id}={self.value})" if self.is_branch else f"goal(code{self.code_object_id})"


class Archive:
    """Covers every goal it was handed at the next update."""

    def __init__(self, never=()):
        self.objectives, self.covered, self.never = OSet(), OSet(), set(never)

    def add_goals(self, goals):
        self.objectives.update(goals)

    def update(self, solutions):
        self.covered.update(g for g in self.objectives if g not in self.never)
        return True

    @property
    def covered_goals(self):
        return OSet(self.covered)


def _nx():
    try:
        import networkx as nx
    except ImportError as exc:  # the repository's own environment ships it
        raise AnalysisError(f"networkx is not importable: {exc}") from exc
    return nx


def _instr(name, line, artificial=False):
    return peval.Obj(f"{name}@{line}", fields={"name": name, "lineno": line, "arg": 0}, classes=(["ArtificialInstr", "Instr"] if artificial else ["Instr"]))


def _block(index, instrs, cond_jump=True):
    node = peval.Obj(f"B{index}", fields={"index": index, "basic_block": list(instrs), "original_instructions": list(instrs), "instructions": list(instrs)}, classes=["BasicBlockNode"])
    node.methods["try_get_instruction"] = lambda i: instrs[i] if -len(instrs) <= i < len(instrs) else None
    for ins in instrs:
        ins.methods["is_cond_jump"] = (lambda n: (lambda: n.startswith("POP_JUMP") or n.startswith("JUMP_IF")))(ins.fields["name"])
    return node


def _ast_info(cover_line, cover_cond):
    info = peval.Obj("AstInfo", fields={"module": peval.Obj("ModuleAstInfo", fields={"only_cover_lines": set(), "no_cover_lines": {0}})})
    info.methods["should_cover_line"] = lambda l: cover_line.get(l, True)
    info.methods["should_cover_conditional_statement"] = lambda l: cover_cond.get(l, True)
    info.methods["should_be_covered"] = lambda *a: True
    return info


def check(ctx) -> None:
    repo = ctx.repo
    ctx.rule("C07.agree", "ABSINT: block kept in the covered CDG <=> visit_node reaches a predicate visitor, over 16 exclusion combinations x versions", floor=60)
    ctx.rule("C07.relink", "ABSINT: removal of an excluded block connects every predecessor with every successor, also for chained excluded blocks in either removal order; entry reachability preserved", floor=6)
    ctx.rule("C07.deps", "ABSINT: control dependencies look through unlabelled edges, terminate on cycles; root dependence through unlabelled edges only", floor=5)
    ctx.rule("C07.graph", "ABSINT: _build_graph over representative shapes: no failure, roots, edges, no orphan outside the roots", floor=5)
    ctx.rule("C07.update", "ABSINT: _GoalsManager.update makes every goal of every shape current; uncovered goals stay current", floor=6)
    ctx.rule("C07.node-key", "a basic-block node (equal by index only) keys a mapping only among the blocks of one code object", floor=1)
    for n, ok, desc in I.node_key_uses(repo, ["pynguin.ga"]):
        ctx.check("C07.node-key", n, ok, f"{desc}: predicates of one code object are looked up with the blocks of another - goals hang below the wrong parent (or the lookup fails)", what=desc, stmt=f"[node-key] {desc[:80]}")
    nx = _nx()
    edge_key = repo.fold(repo.module(CF), repo.module(CF).assigns["EDGE_DATA_BRANCH_VALUE"])
    if not isinstance(edge_key, str):
        raise AnalysisError("EDGE_DATA_BRANCH_VALUE is not a string constant")
    tools = _Tools(ctx, repo, nx, edge_key)
    _agree(ctx, repo, tools)
    _relink(ctx, repo, tools)
    _deps(ctx, repo, tools)
    _pipeline(ctx, repo, tools)


class _Tools:
    def __init__(self, ctx, repo, nx, edge_key):
        self.ctx, self.repo, self.nx, self.key = ctx, repo, nx, edge_key
        self.cfmod = repo.module(CF)
        self.cres = peval.repo_class_resolver(repo, only={"ControlDependency", "BasicBlockNode", "ControlDependenceGraph", "ProgramGraph", "_BranchFitnessGraph", "_GoalsManager"})
        self.ccd = repo.func(TRF, "InstrumentationTransformer._create_covered_cdg")
        ctx.analysed(self.ccd)

    def interp(self, extra_externs=None, sinks=()):
        ext = {"OrderedSet": OSet, "nx.DiGraph": self.nx.DiGraph, "cast": lambda _t, v: v, "bg.BranchGoal": Goal}
        ext.update(extra_externs or {})
        return peval.Interp(resolver=peval.repo_resolver(self.repo), class_resolver=self.cres, externs=ext, sinks=set(sinks), max_steps=600000,
                            consts={"Instr": peval.Token("Instr"), "EDGE_DATA_BRANCH_VALUE": self.key, "AST_FILENAME": "<ast>"},
                            native_types=(self.nx.DiGraph, Goal, Archive, OSet, self.nx.classes.reportviews.OutEdgeView, self.nx.classes.reportviews.NodeView))

    def cdg(self, it, graph):
        mro = self.cres("ControlDependenceGraph", self.cfmod)
        return it.instantiate("ControlDependenceGraph", mro, [], {"_graph": graph}, init=False)

    def covered_cdg(self, graph, ast_info):
        """Interpret _create_covered_cdg(cfg, ast_info) with ControlDependenceGraph.compute(cfg) = the given graph."""
        it = self.interp()
        cdg = self.cdg(it, graph)
        it.externs["cf.ControlDependenceGraph.compute"] = lambda _cfg: cdg
        out = it.run_function(self.ccd, [peval.Obj("transformer"), peval.Obj("cfg"), ast_info], {}, self.repo.module(TRF))
        return out


# ------------------------------------------------------------------------------------------------ agreement of the two deciders
def _agree(ctx, repo, tools) -> None:
    nx = tools.nx
    L1, LJ = 10, 11
    for v in I.VERSIONS:
        fns = {f.name: f for f in I.effective_functions(repo, v, "BranchCoverageInstrumentation")}
        vn = fns.get("visit_node")
        if vn is None:
            raise AnalysisError(f"{v}: BranchCoverageInstrumentation.visit_node vanished")
        ctx.analysed(vn)
        jump_name = "POP_JUMP_IF_FALSE"
        for c1, cj, cond, jline in itertools.product((True, False), (True, False), (True, False), (LJ, None)):
            tag = f"[{v} cover(first)={c1} cover(jump line)={cj} cond(jump line)={cond} jump line={'int' if jline else 'none'}]"
            instrs = [_instr("LOAD_FAST", L1), _instr(jump_name, jline)]
            node = _block(2, instrs)
            entry = peval.Obj("ENTRY", classes=["ArtificialNode"])
            other = _block(1, [_instr("POP_JUMP_IF_TRUE", 5)])
            succ = _block(3, [_instr("RETURN_VALUE", 12)], cond_jump=False)
            g = nx.DiGraph()
            g.add_edge(entry, other)
            g.add_edge(other, node, **{tools.key: True})
            g.add_edge(node, succ, **{tools.key: True})
            info = _ast_info({L1: c1, LJ: cj}, {LJ: cond})
            try:
                tools.covered_cdg(g, info)
                kept = node in g
            except peval.Undecided as exc:
                ctx.undecide("C07.agree", tools.ccd, f"{tag}: _create_covered_cdg: {exc}")
                continue
            except peval.Raises as exc:
                ctx.fail("C07.agree", tools.ccd, f"{tag}: _create_covered_cdg raises {exc.name} ({exc.detail[:60]})", stmt=tag)
                continue
            # visit_node: does it reach a predicate visitor?
            reached = []
            selfobj = peval.Obj("adapter")
            for nm in ("visit_for_loop", "visit_compare_based_conditional_jump", "visit_exception_based_conditional_jump", "visit_bool_based_conditional_jump", "visit_none_based_conditional_jump", "visit_subscr_access"):
                selfobj.methods[nm] = (lambda n: (lambda *a, **k: reached.append(n)))(nm)
            selfobj.fields["NONE_BASED_JUMPS_MAPPING"] = {}
            node2 = _block(2, instrs)
            node2.fields["instrumentation_original_instructions"] = list(enumerate(instrs))
            node2.methods["find_instruction_by_original_index"] = lambda i: (i % len(instrs), instrs[i])
            it = tools.interp()
            it.consts.update({"JUMP_OP_POS": -1, "COMPARE_OP_POS": -2, "BINARY_SUBSCR_NAMES": ("BINARY_SUBSCR",), "COMPARE_NAMES": ("COMPARE_OP", "IS_OP", "CONTAINS_OP"), "python3_10.COMPARE_NAMES": ("COMPARE_OP", "IS_OP", "CONTAINS_OP")})
            try:
                it.run_function(vn, [selfobj, info, peval.Obj("cfg"), 1, node2], {}, vn._module)
            except peval.Undecided as exc:
                ctx.undecide("C07.agree", vn, f"{tag}: visit_node: {exc}")
                continue
            except peval.Raises as exc:
                ctx.fail("C07.agree", vn, f"{tag}: visit_node raises {exc.name}", stmt=tag)
                continue
            registered = bool(reached)
            ctx.check("C07.agree", vn, kept == registered,
                      f"{tag}: the covered CDG {'keeps' if kept else 'removes'} the block but visit_node {'registers' if registered else 'does not register'} its predicate: "
                      + ("a kept block whose dependants refer to it has no predicate id - _build_graph fails with a KeyError" if kept and not registered else "a registered predicate whose block is not in the CDG - get_control_dependencies asserts"),
                      what=f"{tag}: kept == registered == {kept}", stmt=tag)


# ------------------------------------------------------------------------------------------------ re-linking
def _shape_excluded(tools, loop_successor: bool):
    """ENTRY -> P -T-> R(excluded) -T-> S [, S -T-> S, S -T-> B]  and R -F-> S2."""
    nx, key = tools.nx, tools.key
    entry = peval.Obj("ENTRY", classes=["ArtificialNode"])
    p = _block(1, [_instr("LOAD_FAST", 1), _instr("POP_JUMP_IF_FALSE", 1)])
    r = _block(2, [_instr("LOAD_FAST", 20), _instr("POP_JUMP_IF_FALSE", 20)])
    s = _block(3, [_instr("LOAD_FAST", 3), _instr("POP_JUMP_IF_FALSE", 3)])
    s2 = _block(4, [_instr("LOAD_FAST", 4), _instr("POP_JUMP_IF_TRUE", 4)])
    b = _block(5, [_instr("LOAD_FAST", 5), _instr("POP_JUMP_IF_FALSE", 5)])
    g = nx.DiGraph()
    g.add_edge(entry, p)
    g.add_edge(p, r, **{key: True})
    g.add_edge(r, s, **{key: True})
    g.add_edge(r, s2, **{key: False})
    if loop_successor:
        g.add_edge(s, s, **{key: True})
        g.add_edge(s, b, **{key: True})
        g.add_edge(b, s, **{key: False})  # another incoming edge the successor keeps
    info = _ast_info({20: False}, {})
    return g, dict(entry=entry, p=p, r=r, s=s, s2=s2, b=b), info


def _shape_chain(tools):
    """ENTRY -> P -T-> R1(excluded) -T-> R2(excluded) -T-> S: two guards that depend on each other, covered code below."""
    nx, key = tools.nx, tools.key
    entry = peval.Obj("ENTRY", classes=["ArtificialNode"])
    p = _block(1, [_instr("LOAD_FAST", 1), _instr("POP_JUMP_IF_FALSE", 1)])
    r1 = _block(2, [_instr("LOAD_FAST", 20), _instr("POP_JUMP_IF_FALSE", 20)])
    r2 = _block(3, [_instr("LOAD_FAST", 30), _instr("POP_JUMP_IF_FALSE", 30)])
    s = _block(4, [_instr("LOAD_FAST", 4), _instr("POP_JUMP_IF_FALSE", 4)])
    g = nx.DiGraph()
    g.add_edge(entry, p)
    g.add_edge(p, r1, **{key: True})
    g.add_edge(r1, r2, **{key: False})
    g.add_edge(r2, s, **{key: False})
    return g, dict(entry=entry, p=p, r1=r1, r2=r2, s=s), _ast_info({20: False, 30: False}, {})


def _relink(ctx, repo, tools) -> None:
    nx = tools.nx
    # two excluded blocks in a row, in both removal orders (the graph is iterated in insertion order)
    for order in ("outer first", "inner first"):
        tag = f"[relink two chained excluded blocks, {order}]"
        g, n, info = _shape_chain(tools)
        if order == "inner first":
            g2 = nx.DiGraph()
            g2.add_nodes_from([n["entry"], n["p"], n["r2"], n["r1"], n["s"]])
            g2.add_edges_from(g.edges(data=True))
            g = g2
        try:
            tools.covered_cdg(g, info)
        except peval.Undecided as exc:
            ctx.undecide("C07.relink", tools.ccd, f"{tag}: {exc}")
            continue
        except peval.Raises as exc:
            ctx.fail("C07.relink", tools.ccd, f"{tag}: _create_covered_cdg raises {exc.name} ({exc.detail[:60]})", stmt=tag)
            continue
        gone = n["r1"] not in g and n["r2"] not in g
        reach = all(nx.has_path(g, n["entry"], x) for x in g.nodes if x is not n["entry"])
        ctx.check("C07.relink", tools.ccd, gone and g.has_edge(n["p"], n["s"]) and reach and set(g.nodes) == {n["entry"], n["p"], n["s"]},
                  f"{tag}: nodes left {[getattr(x, 'label', x) for x in g.nodes]}, P->S={g.has_edge(n['p'], n['s'])}, every block reachable from the entry={reach}: the covered predicate below two consecutive `# pragma: no cover` guards "
                  "is attached to a block that was already removed (it comes back as a parentless node) and loses its dependency: its goals never become current, or the fitness graph refuses a non-root branch without parent",
                  what=f"{tag}: S hangs below P, nothing else left", stmt=tag)
    for loop in (False, True):
        tag = f"[relink {'successor is a loop header with a back edge' if loop else 'plain successors'}]"
        g, n, info = _shape_excluded(tools, loop)
        try:
            tools.covered_cdg(g, info)
        except peval.Undecided as exc:
            ctx.undecide("C07.relink", tools.ccd, f"{tag}: {exc}")
            continue
        except peval.Raises as exc:
            ctx.fail("C07.relink", tools.ccd, f"{tag}: _create_covered_cdg raises {exc.name} ({exc.detail[:60]})", stmt=tag)
            continue
        removed = n["r"] not in g
        linked = removed and g.has_edge(n["p"], n["s"]) and g.has_edge(n["p"], n["s2"])
        reach = removed and all(nx.has_path(g, n["entry"], x) for x in g.nodes if x is not n["entry"])
        ctx.check("C07.relink", tools.ccd, removed and linked and reach,
                  f"{tag}: after removing the excluded block: removed={removed}, P->S={g.has_edge(n['p'], n['s'])}, P->S2={g.has_edge(n['p'], n['s2'])}, every block reachable from the entry={reach}: "
                  "a successor that is not re-attached loses its only dependency from outside and its goals never become current",
                  what=f"{tag}: predecessors x successors connected, entry reaches every block", stmt=tag)
        ctx.check("C07.relink", tools.ccd, removed and not any(tools.key in g.get_edge_data(n["p"], x, {}) for x in (n["s"], n["s2"]) if g.has_edge(n["p"], x)),
                  f"{tag}: a re-linked edge carries a branch value: the successor would depend on an outcome of the predecessor it never depended on", what=f"{tag}: re-linked edges are unlabelled (dependants inherit the predecessor's controllers)", stmt=f"{tag} labels")


# ------------------------------------------------------------------------------------------------ dependency queries
def _deps(ctx, repo, tools) -> None:
    nx, key = tools.nx, tools.key
    entry = peval.Obj("ENTRY", classes=["ArtificialNode"])
    a, p, s, b, t = (_block(i, [_instr("POP_JUMP_IF_FALSE", i)]) for i in range(1, 6))
    g = nx.DiGraph()
    g.add_edge(entry, a)
    g.add_edge(a, p, **{key: True})
    g.add_edge(p, s)              # re-linked: unlabelled
    g.add_edge(s, b, **{key: False})
    g.add_edge(b, s)              # unlabelled cycle
    g.add_edge(entry, t)          # handler-like block without label
    g.add_edge(t, t)
    # X is controlled by two blocks that are no predicates: N1 (first in predecessor order) is only reached through
    # a branch of A, N2 hangs below the entry - as the finally body after try / except in CPython 3.12
    n1, n2, x = (_block(i, [_instr("NOP", i)], cond_jump=False) for i in (6, 7, 8))
    g.add_edge(a, n1, **{key: False})
    g.add_edge(n1, x)
    g.add_edge(entry, n2)
    g.add_edge(n2, x)
    fn = repo.func(CF, "ControlDependenceGraph.get_control_dependencies")
    fr = repo.func(CF, "ControlDependenceGraph.is_control_dependent_on_root")
    ctx.analysed(fn)
    ctx.analysed(fr)

    def deps(node):
        it = tools.interp()
        cdg = tools.cdg(it, g)
        res = cdg.methods["get_control_dependencies"](node)
        return sorted({(d.fields["node"].label, d.fields["branch_value"]) for d in res})

    def root(node):
        it = tools.interp()
        return bool(tools.cdg(it, g).methods["is_control_dependent_on_root"](node))

    for node, want, what in ((p, [("B1", True)], "a directly labelled dependency"), (s, [("B1", True), ("B3", False)], "through a re-linked (unlabelled) edge and an unlabelled cycle"), (b, [("B3", False)], "inside the cycle")):
        tag = f"[deps {node.label}] {what}"
        try:
            got = deps(node)
        except peval.Undecided as exc:
            ctx.undecide("C07.deps", fn, f"{tag}: {exc}")
            continue
        except peval.Raises as exc:
            ctx.fail("C07.deps", fn, f"{tag}: raises {exc.name}", stmt=tag)
            continue
        ctx.check("C07.deps", fn, got == want, f"{tag}: get_control_dependencies = {got}, expected {want}", what=f"{tag} = {want}", stmt=tag)
    for node, want, what in ((a, True, "edge from the entry"), (t, True, "entry edge plus unlabelled self loop"), (s, False, "only reachable through a labelled edge"), (p, False, "labelled edge from a predicate"),
                             (x, True, "two unlabelled controlling blocks, the first only below a branch, the second below the entry"), (n1, False, "block below a branch")):
        tag = f"[root {node.label}] {what}"
        try:
            got = root(node)
        except peval.Undecided as exc:
            ctx.undecide("C07.deps", fr, f"{tag}: {exc}")
            continue
        except peval.Raises as exc:
            ctx.fail("C07.deps", fr, f"{tag}: raises {exc.name}", stmt=tag)
            continue
        ctx.check("C07.deps", fr, got is want, f"{tag}: is_control_dependent_on_root = {got}, expected {want}", what=f"{tag} = {want}", stmt=tag)


# ------------------------------------------------------------------------------------------------ goal graph and goal manager
def _shapes(tools):
    nx, key = tools.nx, tools.key

    def mk():
        return peval.Obj("ENTRY", classes=["ArtificialNode"]), tools.nx.DiGraph()

    out = []
    # nested
    e, g = mk()
    a, b, c = (_block(i, [_instr("POP_JUMP_IF_FALSE", i)]) for i in (1, 2, 3))
    leaf = _block(9, [_instr("RETURN_VALUE", 9)])
    g.add_edge(e, a); g.add_edge(a, b, **{key: True}); g.add_edge(b, c, **{key: False}); g.add_edge(c, leaf, **{key: True})
    out.append(("nested", g, [a, b, c], None))
    # sequential + loop
    e, g = mk()
    a, h, b = (_block(i, [_instr("POP_JUMP_IF_FALSE", i)]) for i in (1, 2, 3))
    g.add_edge(e, a); g.add_edge(e, h); g.add_edge(h, h, **{key: True}); g.add_edge(h, b, **{key: True})
    out.append(("sequential and loop", g, [a, h, b], None))
    # excluded block in the middle / excluded block in front of a loop header
    for loop in (False, True):
        g, n, info = _shape_excluded(tools, loop)
        preds = [n["p"], n["s"], n["s2"]] + ([n["b"]] if loop else [])
        out.append((f"excluded block{' in front of a loop header' if loop else ' in the middle'}", g, preds, info))
    # handler: block without instructions between entry and a predicate
    e, g = mk()
    t = peval.Obj("B7", fields={"index": 7, "basic_block": [peval.Obj("TryBegin", classes=["TryBegin"])], "original_instructions": [], "instructions": []}, classes=["BasicBlockNode"])
    t.methods["try_get_instruction"] = lambda i: None
    p = _block(1, [_instr("POP_JUMP_IF_FALSE", 1)])
    q = _block(2, [_instr("POP_JUMP_IF_TRUE", 2)])
    g.add_edge(e, t); g.add_edge(t, p); g.add_edge(p, q, **{key: False})
    out.append(("handler block", g, [p, q], _ast_info({}, {})))
    return out


def _pipeline(ctx, repo, tools) -> None:
    bfg = repo.cls(DYN, "_BranchFitnessGraph")
    gm = repo.cls(DYN, "_GoalsManager")
    build = repo.methods(bfg).get("_build_graph")
    update = repo.methods(gm).get("update")
    if build is None or update is None:
        raise AnalysisError("anchor vanished: _BranchFitnessGraph._build_graph / _GoalsManager.update")
    ctx.analysed(build)
    ctx.analysed(update)
    dmod = repo.module(DYN)
    for name, g, preds, info in _shapes(tools):
        tag = f"[{name}]"
        try:
            if info is not None:
                tools.covered_cdg(g, info)
            preds = [p for p in preds if p in g]
            it = tools.interp()
            cdg = tools.cdg(it, g)
            sp = peval.Obj("SubjectProperties", fields={
                "existing_predicates": {i: peval.Obj("PredicateMetaData", fields={"node": p, "code_object_id": 1, "line_no": 1}) for i, p in enumerate(preds)},
                "existing_code_objects": {1: peval.Obj("CodeObjectMetaData", fields={"cdg": cdg}), 2: peval.Obj("CodeObjectMetaData", fields={"cdg": cdg})},
            })
            goals = [Goal(2)] + [Goal(1, i, val) for i in range(len(preds)) for val in (True, False)]
            ffs = OSet(peval.Obj(f"ff:{gl!r}", fields={"goal": gl}) for gl in goals)
            graph = it.instantiate("_BranchFitnessGraph", tools.cres("_BranchFitnessGraph", dmod), [], {"_graph": tools.nx.DiGraph(), "_root_branches": OSet()}, init=False)
            graph.methods["_build_graph"](ffs, sp)
        except peval.Undecided as exc:
            ctx.undecide("C07.graph", build, f"{tag}: {exc}")
            continue
        except peval.Raises as exc:
            ctx.fail("C07.graph", build, f"{tag}: building the goal graph fails with {exc.name} ({exc.detail[:80]})", stmt=tag)
            continue
        fg = graph.fields["_graph"]
        roots = graph.fields["_root_branches"]
        orphans = [n.label for n in fg.nodes if fg.in_degree(n) == 0 and n not in roots]
        ctx.check("C07.graph", build, not orphans and len(fg.nodes) == len(ffs) and any(f.fields["goal"].is_branchless_code_object for f in roots),
                  f"{tag}: goal graph has {len(fg.nodes)} of {len(ffs)} goals, goals without incoming edge outside the roots: {orphans}", what=f"{tag}: graph built, roots = {len(roots)}, edges = {fg.number_of_edges()}", stmt=tag)
        # drive the manager
        try:
            arch = Archive()
            it2 = tools.interp()
            graph2 = graph
            mgr = it2.instantiate("_GoalsManager", tools.cres("_GoalsManager", dmod), [], {"_archive": arch, "_graph": graph2, "_current_goals": OSet(roots)}, init=False)
            arch.add_goals(OSet(roots))
            for _ in range(len(ffs) + 2):
                mgr.methods["update"]([])
        except peval.Undecided as exc:
            ctx.undecide("C07.update", update, f"{tag}: {exc}")
            continue
        except peval.Raises as exc:
            ctx.fail("C07.update", update, f"{tag}: update fails with {exc.name} ({exc.detail[:80]})", stmt=tag)
            continue
        never = [f.label for f in ffs if f not in arch.objectives]
        ctx.check("C07.update", update, not never, f"{tag}: goals that never became current although every goal handed out was covered: {never}", what=f"{tag}: all {len(ffs)} goals become current", stmt=tag)
        # one call is a fixed point: with a population that covers whatever it is handed, a single update() hands out the
        # whole graph (the search loop stops as soon as the archive has no uncovered goal left - there may be no second call)
        try:
            arch1 = Archive()
            mgr1 = tools.interp().instantiate("_GoalsManager", tools.cres("_GoalsManager", dmod), [], {"_archive": arch1, "_graph": graph, "_current_goals": OSet(roots)}, init=False)
            arch1.add_goals(OSet(roots))
            mgr1.methods["update"]([])
        except (peval.Undecided, peval.Raises) as exc:
            ctx.undecide("C07.update", update, f"{tag} single call: {exc}")
            continue
        late = [f.label for f in ffs if f not in arch1.objectives]
        ctx.check("C07.update", update, not late, f"{tag}: after ONE update() with solutions that cover every goal they are handed, {len(late)} goals are still not current ({late[:4]}): the expansion stops before its fixed point; when nothing uncovered is left the search loop ends and these goals are never targeted although all their parents are covered", what=f"{tag}: one update() reaches the fixed point", stmt=f"{tag} single call")
    # an uncovered current goal stays current, its children are not handed out
    name, g, preds, info = _shapes(tools)[0]
    try:
        it = tools.interp()
        cdg = tools.cdg(it, g)
        sp = peval.Obj("SubjectProperties", fields={"existing_predicates": {i: peval.Obj("PredicateMetaData", fields={"node": p, "code_object_id": 1, "line_no": 1}) for i, p in enumerate(preds)},
                                                    "existing_code_objects": {1: peval.Obj("CodeObjectMetaData", fields={"cdg": cdg})}})
        goals = [Goal(1, i, val) for i in range(len(preds)) for val in (True, False)]
        ffs = OSet(peval.Obj(f"ff:{gl!r}", fields={"goal": gl}) for gl in goals)
        graph = it.instantiate("_BranchFitnessGraph", tools.cres("_BranchFitnessGraph", dmod), [], {"_graph": tools.nx.DiGraph(), "_root_branches": OSet()}, init=False)
        graph.methods["_build_graph"](ffs, sp)
        roots = graph.fields["_root_branches"]
        blocked = next(f for f in roots if f.fields["goal"].value is True)
        arch = Archive(never=[blocked])
        mgr = it.instantiate("_GoalsManager", tools.cres("_GoalsManager", dmod), [], {"_archive": arch, "_graph": graph, "_current_goals": OSet(roots)}, init=False)
        arch.add_goals(OSet(roots))
        for _ in range(4):
            mgr.methods["update"]([])
        cur = mgr.fields["_current_goals"]
        children = list(graph.fields["_graph"].successors(blocked))
        ok = blocked in cur and not any(c in arch.objectives for c in children)
        ctx.check("C07.update", update, ok, f"[uncovered goal] after updates the uncovered goal {blocked.label} is current: {blocked in cur}; its children handed out: {[c.label for c in children if c in arch.objectives]}", what="[uncovered goal] stays current, children withheld", stmt="[uncovered goal]")
    except (peval.Undecided, peval.Raises) as exc:
        ctx.undecide("C07.update", update, f"[uncovered goal]: {exc}")
