"""C13 — the archive never loses a covered goal or a better solution.

Decides: who may write the covered map; the guard that dominates the write; the
replacement rule of `_is_better_than_current` as a truth table over its atoms
(error-free override and strictly-shorter); MIO capacity discipline; the
DynaMOSA goal manager keeps every uncovered goal.  C13.iterable: update archives the same goals for a list, a tuple, an iterator and a
generator of the same solutions.  C13.aliasing: archived solutions reach
local search, which edits test cases in place, only through clone().  Re-execution behaviour of
archived tests is not decided.
Further clauses (added later): C13.aliasing (taint): archived solutions reach local search only through
clone(). C13.iterable: update archives the same goals for a list, a tuple, an iterator and a generator of the
same solutions.
"""

from __future__ import annotations

import ast
import itertools
import re

from sa.engine.cfg import CFG, edge_implies, guarded_by
from sa.engine.index import AnalysisError, last_attr, norm, own_nodes, parent, qualname
from sa.engine.prop import Undecided, collect_function

AR = "pynguin.ga.algorithms.archive"
DY = "pynguin.ga.algorithms.dynamosaalgorithm"


def _anc(n):
    p = parent(n)
    while p is not None:
        yield p
        p = parent(p)


def _atom_value(text, st):
    """Truth value of an atom of _is_better_than_current under state `st`; raises Undecided if unknown."""
    t = text.replace(" ", "")
    for who in ("current", "candidate"):
        res = f"{who}.get_last_execution_result()"
        if t == f"{res}isnotNone":
            return not st[f"{who}_none"]
        if t == f"{res}isNone":
            return st[f"{who}_none"]
        if t == f"{res}.timeout":
            return st[f"{who}_timeout"]
        if t == f"{res}.has_test_exceptions()":
            return st[f"{who}_exc"]
    m = re.fullmatch(r"(current|candidate)\.size\(\)(<=|>=|<|>|==|!=)(current|candidate)\.size\(\)", t)
    if m:
        a, op, b = m.groups()
        rel = st["rel"]  # candidate size relative to current size: -1, 0, 1
        va = rel if a == "candidate" else 0
        vb = rel if b == "candidate" else 0
        return {"<": va < vb, "<=": va <= vb, ">": va > vb, ">=": va >= vb, "==": va == vb, "!=": va != vb}[op]
    raise Undecided(f"unknown atom `{text}`")


def _states():
    keys = ("current_none", "current_timeout", "current_exc", "candidate_none", "candidate_timeout", "candidate_exc")
    for bits in itertools.product((False, True), repeat=6):
        for rel in (-1, 0, 1):
            st = dict(zip(keys, bits))
            st["rel"] = rel
            yield st


def check_better(ctx, fn, strict: bool, label: str):
    """Truth-table comparison of a `_is_better_than_current(current, candidate)` with the property's rule."""
    try:
        atoms, run = collect_function(fn)
    except Undecided as exc:
        ctx.undecide("C13.better", fn, str(exc))
        return
    bad = []
    n = 0
    for st in _states():
        try:
            val = {a: _atom_value(a, st) for a in atoms}
            out = run(val)
            if out not in ("True", "False"):
                out = "True" if _atom_value(out, st) else "False"
        except Undecided as exc:
            ctx.undecide("C13.better", fn, str(exc))
            return
        n += 1
        cur_fail = (not st["current_none"]) and (st["current_timeout"] or st["current_exc"])
        cand_ok = (not st["candidate_none"]) and not st["candidate_timeout"] and not st["candidate_exc"]
        shorter = st["rel"] < 0 if strict else st["rel"] <= 0
        want = (cur_fail and cand_ok) or shorter
        if (out == "True") != want:
            bad.append((st, out, want))
    ctx.extra.setdefault("better_truth_table_rows", 0)
    ctx.extra["better_truth_table_rows"] += n
    if bad:
        st, out, want = bad[0]
        desc = ", ".join(f"{k}={v}" for k, v in st.items())
        ctx.fail(
            "C13.better",
            fn,
            f"{label}: replacement rule differs from 'candidate is error-free where the current one is not, or otherwise "
            f"{'strictly shorter' if strict else 'not longer'}' in {len(bad)} of {n} cases, e.g. [{desc}] -> {out}, expected {want}",
        )
    else:
        ctx.ok("C13.better", fn, f"{label}: {n} truth-table rows agree with the replacement rule ({'strict <' if strict else '<='} on size)")


def _archive_aliasing(ctx, repo) -> None:
    """Search operators that change test cases in place (local search) get clones of the archived solutions: a
    function that runs local search on data derived from `<archive>.solutions` passes every solution through
    clone() first (taint from the archive, cleared by .clone())."""
    n = 0
    for mod, qn, fn in repo.all_functions("pynguin.ga.algorithms"):
        ls_calls = [c for c in own_nodes(fn) if isinstance(c, ast.Call) and last_attr(c) == "local_search" and c.args]
        reads = [x for x in own_nodes(fn) if isinstance(x, ast.Attribute) and x.attr == "solutions" and "archive" in norm(x.value)]
        if not ls_calls or not reads:
            continue
        ctx.analysed(fn)
        tainted: set[str] = set()

        def is_tainted(e) -> bool:
            if isinstance(e, ast.Call) and isinstance(e.func, ast.Attribute) and e.func.attr == "clone":
                return False  # a clone is the caller's own object
            if isinstance(e, ast.Attribute) and e.attr == "solutions" and "archive" in norm(e.value):
                return True
            if isinstance(e, ast.Name):
                return e.id in tainted
            return any(is_tainted(c) for c in ast.iter_child_nodes(e))

        changed = True
        while changed:
            changed = False
            for st in own_nodes(fn):
                new = None
                if isinstance(st, ast.For) and is_tainted(st.iter):
                    new = {x.id for x in ast.walk(st.target) if isinstance(x, ast.Name)}
                elif isinstance(st, (ast.Assign, ast.AnnAssign)) and st.value is not None and is_tainted(st.value):
                    tgts = st.targets if isinstance(st, ast.Assign) else [st.target]
                    new = {x.id for t in tgts for x in ast.walk(t) if isinstance(x, ast.Name)}
                elif isinstance(st, ast.Call) and isinstance(st.func, ast.Attribute) and st.func.attr in ("add", "append", "extend", "update", "add_test_case_chromosome") and isinstance(st.func.value, ast.Name) and any(is_tainted(a) for a in st.args):
                    new = {st.func.value.id}
                elif isinstance(st, (ast.ListComp, ast.GeneratorExp, ast.SetComp)):
                    for g in st.generators:
                        if is_tainted(g.iter):
                            new = (new or set()) | {x.id for x in ast.walk(g.target) if isinstance(x, ast.Name)}
                if new and not new <= tainted:
                    tainted |= new
                    changed = True
        for c in ls_calls:
            bad = [norm(a) for a in c.args if is_tainted(a)]
            n += 1
            ctx.check("C13.aliasing", c, not bad, f"{mod.name}:{qn}: local search runs on `{bad}`, which holds the archive's own solutions (no clone() on the way from `{norm(reads[0])}`): local search edits the archived test cases in place - an archived solution changes without being a legal replacement and may stop covering its goal", what=f"{qn}: local search works on clones of the archived solutions", stmt=f"[{qn}] local search operands")
    if n == 0:
        raise AnalysisError("C13.aliasing: no function runs local search on archived solutions (DynaMOSAAlgorithm.local_search)")


def check(ctx) -> None:
    repo = ctx.repo
    ctx.rule("C13.writers", "WHO-MAY: CoverageArchive._covered is written only by update (insert) and reset (clear); reset has no caller on the search path; _uncovered shrinks only together with the insert", floor=3)
    ctx.rule("C13.guard", "GUARD-DOM: the insert into _covered is dominated by `covers and (best is None or _is_better_than_current(best, solution))` for the same objective/solution", floor=3)
    ctx.rule("C13.better", "ABSINT/prop: _is_better_than_current is, for all 192 states of its atoms, 'error-free where the current is not, or (strictly) shorter'", floor=2)
    ctx.rule("C13.mio-cap", "MIO: _solutions grows only under `len < capacity` or after capacity:=1 + clear; a covered population never changes its capacity; is_covered requires exactly one solution", floor=5)
    ctx.rule("C13.aliasing", "TAINT: archived solutions reach an in-place search operator (local search) only through clone()", floor=1)
    _archive_aliasing(ctx, repo)
    ctx.rule("C13.iterable", "ABSINT: CoverageArchive.update archives the same goals for a list, a tuple, a one-shot iterator and a generator of the same solutions", floor=3)
    _one_shot(ctx, repo)
    ctx.rule("C13.goals", "DynaMOSA goal manager re-adds every uncovered current goal and adds children only of covered goals", floor=2)

    ca = repo.cls(AR, "CoverageArchive")
    meths = repo.methods(ca)
    # ------------------------------------------------------------------ C13.writers
    for mod, qn, fn in repo.all_functions("pynguin"):
        for n in own_nodes(fn):
            hit = None
            if isinstance(n, ast.Assign):
                for t in n.targets:
                    if (isinstance(t, ast.Subscript) and isinstance(t.value, ast.Attribute) and t.value.attr == "_covered") or (isinstance(t, ast.Attribute) and t.attr == "_covered"):
                        hit = ("assign", n)
            if isinstance(n, ast.Call) and isinstance(n.func, ast.Attribute) and isinstance(n.func.value, ast.Attribute) and n.func.value.attr == "_covered" and n.func.attr in ("clear", "pop", "popitem", "update", "setdefault", "__delitem__", "__setitem__"):
                hit = (n.func.attr, n)
            if isinstance(n, ast.Delete) and any("_covered" in norm(t) for t in n.targets):
                hit = ("del", n)
            if hit is None:
                continue
            ctx.analysed(fn)
            kind, node = hit
            where = (mod.name, qn)
            ok = where == (AR, "CoverageArchive.update") and kind == "assign" or where == (AR, "CoverageArchive.__init__") or (where == (AR, "CoverageArchive.reset") and kind == "clear")
            st = node
            while not isinstance(st, ast.stmt):
                st = parent(st)
            ctx.check("C13.writers", st, ok, f"{mod.name}:{qn} modifies CoverageArchive._covered ({kind}); only update may insert and only reset may clear", what=f"{qn}: {kind} of _covered")
    # reset has no caller
    callers = []
    for mod, qn, fn in repo.all_functions("pynguin.ga"):
        for n in own_nodes(fn):
            if isinstance(n, ast.Call) and last_attr(n) == "reset" and isinstance(n.func, ast.Attribute) and "archive" in norm(n.func.value).lower():
                callers.append((mod.name, qn, n))
    ctx.check("C13.writers", meths["reset"], not callers, f"CoverageArchive.reset() is called on the search path: {[c[1] for c in callers]}", what="archive.reset() has no caller in pynguin.ga", stmt="[reset-callers]")

    # ------------------------------------------------------------------ C13.guard
    upd = meths["update"]
    ctx.analysed(upd)
    cfg = CFG(upd)
    writes = [n for n in cfg.nodes if n.kind == "stmt" and isinstance(n.stmt, ast.Assign) and any(isinstance(t, ast.Subscript) and norm(t.value) == "self._covered" for t in n.stmt.targets)]
    if not writes:
        raise AnalysisError("CoverageArchive.update: insert into _covered not found")
    for w in writes:
        key = norm(w.stmt.targets[0].slice)
        val = norm(w.stmt.value)
        # covers := <val>.get_is_covered(<key>)
        cov_names = {n.targets[0].id for n in own_nodes(upd) if isinstance(n, ast.Assign) and isinstance(n.targets[0], ast.Name) and norm(n.value) == f"{val}.get_is_covered({key})"}
        best_names = {n.targets[0].id for n in own_nodes(upd) if isinstance(n, ast.Assign) and isinstance(n.targets[0], ast.Name) and norm(n.value).startswith(f"self._covered.get({key}")}

        def is_cov(atom):
            return (isinstance(atom, ast.Name) and atom.id in cov_names) or norm(atom) == f"{val}.get_is_covered({key})"

        p = guarded_by(cfg, [w.id], is_cov, True)
        ctx.paths += 1
        ctx.check("C13.guard", w.stmt, p is None, f"`{norm(w.stmt)}` is reachable without `{val}.get_is_covered({key})` being true: a test that does not cover the goal can be archived for it", what="insert guarded by covers", path=cfg.describe_path(p) if p else [])

        def is_better_or_first(atom):
            if isinstance(atom, ast.BoolOp) and isinstance(atom.op, ast.Or):
                parts = [norm(v) for v in atom.values]
                first = any(re.fullmatch(rf"({'|'.join(map(re.escape, best_names)) or 'best_solution'}) is None", x) for x in parts)
                better = any(re.fullmatch(rf"self\._is_better_than_current\(({'|'.join(map(re.escape, best_names)) or 'best_solution'}), {re.escape(val)}\)", x) for x in parts)
                return first and better and len(parts) == 2
            return False

        p = guarded_by(cfg, [w.id], is_better_or_first, True)
        ctx.paths += 1
        ctx.check("C13.guard", w.stmt, p is None, f"`{norm(w.stmt)}` is reachable without `<best> is None or self._is_better_than_current(<best>, {val})` (current first, candidate second)", what="insert guarded by first-or-better(best, candidate)", path=cfg.describe_path(p) if p else [], stmt=norm(w.stmt) + " [better]")
        # best_solution tracks the write (otherwise later candidates are compared with a stale solution)
        tracks = [n for n in cfg.nodes if n.kind == "stmt" and isinstance(n.stmt, ast.Assign) and isinstance(n.stmt.targets[0], ast.Name) and n.stmt.targets[0].id in best_names and norm(n.stmt.value) == val]
        nxt = [b for b, lab in cfg.succ[w.id] if lab != "exc"]
        loop_heads = [n.id for n in cfg.nodes if n.kind == "for"]
        p = cfg.path(nxt, loop_heads, avoid_nodes={t.id for t in tracks}, labels_excluded=("exc",))
        ctx.paths += 1
        ctx.check("C13.guard", w.stmt, p is None and bool(tracks), "after archiving a solution the running best is not updated: the next candidate is compared with the replaced test", what="running best updated with the insert", stmt=norm(w.stmt) + " [track]")
    # _uncovered.remove only after the write
    removes = [n for n in cfg.nodes if n.kind == "stmt" and isinstance(n.stmt, ast.Expr) and norm(n.stmt.value).startswith("self._uncovered.remove(")]
    for r in removes:
        p = cfg.path([cfg.entry], [r.id], avoid_nodes={w.id for w in writes})
        ctx.paths += 1
        ctx.check("C13.writers", r.stmt, p is None, "a goal is removed from _uncovered without a solution being archived for it", what="_uncovered.remove dominated by the insert")

    # ------------------------------------------------------------------ C13.better
    fn = repo.func(AR, "CoverageArchive._is_better_than_current")
    ctx.analysed(fn)
    check_better(ctx, fn, strict=True, label="CoverageArchive._is_better_than_current")
    fn2 = repo.func(AR, "MIOPopulation._is_better_than_current")
    ctx.analysed(fn2)
    check_better(ctx, fn2, strict=False, label="MIOPopulation._is_better_than_current")

    # ------------------------------------------------------------------ C13.mio-cap
    add = repo.func(AR, "MIOPopulation.add_solution")
    ctx.analysed(add)
    cfg = CFG(add)
    appends = [n for n in cfg.nodes if n.kind == "stmt" and isinstance(n.stmt, ast.Expr) and norm(n.stmt.value).startswith(("self._solutions.append(", "self._solutions.insert(", "self._solutions.extend("))]
    if not appends:
        raise AnalysisError("MIOPopulation.add_solution: no append found")
    cap1 = {n.id for n in cfg.nodes if n.kind == "stmt" and isinstance(n.stmt, ast.Assign) and norm(n.stmt.targets[0]) == "self._capacity" and norm(n.stmt.value) == "1"}
    clears = {n.id for n in cfg.nodes if n.kind == "stmt" and isinstance(n.stmt, ast.Expr) and norm(n.stmt.value) == "self._solutions.clear()"}
    for a in appends:
        p1 = guarded_by(cfg, [a.id], lambda atom: norm(atom) in ("len(self._solutions) < self._capacity", "self._capacity > len(self._solutions)"), True)
        # or: both capacity := 1 and clear() dominate it
        p2a = cfg.path([cfg.entry], [a.id], avoid_nodes=cap1)
        p2b = cfg.path([cfg.entry], [a.id], avoid_nodes=clears)
        ok = p1 is None or (p2a is None and p2b is None and cap1 and clears)
        ctx.paths += 3
        ctx.check("C13.mio-cap", a.stmt, bool(ok), "MIOPopulation.add_solution can grow _solutions without `len < capacity` and without resetting the population to a single solution", what="append under len<capacity or after capacity:=1 + clear")
    # capacity writes elsewhere must not happen for a covered population
    for mname, f in repo.methods(repo.cls(AR, "MIOPopulation")).items():
        if mname in ("__init__", "add_solution"):
            continue
        c = CFG(f)
        for n in c.nodes:
            if n.kind == "stmt" and isinstance(n.stmt, (ast.Assign, ast.AugAssign)):
                tg = n.stmt.targets[0] if isinstance(n.stmt, ast.Assign) else n.stmt.target
                if norm(tg) in ("self._capacity", "self._solutions"):
                    ctx.analysed(f)
                    p = guarded_by(c, [n.id], lambda atom: norm(atom) == "self.is_covered", False)
                    ctx.paths += 1
                    ctx.check("C13.mio-cap", n.stmt, p is None, f"MIOPopulation.{mname} changes `{norm(tg)}` of a population that may already be covered: the target stops counting as covered and its archived test can be replaced by a longer one", what=f"{mname}: write only when not covered", path=c.describe_path(p) if p else [])
    isc = repo.func(AR, "MIOPopulation.is_covered")
    rets = [n for n in own_nodes(isc) if isinstance(n, ast.Return)]
    parts = set()
    if len(rets) == 1 and isinstance(rets[0].value, ast.BoolOp) and isinstance(rets[0].value.op, ast.And):
        parts = {norm(v) for v in rets[0].value.values}
    ok = {"len(self._solutions) == 1", "self._solutions[0].h == 1.0"} <= parts
    ctx.check("C13.mio-cap", isc, ok, "MIOPopulation.is_covered no longer requires exactly one solution with h == 1.0", what="is_covered: exactly one solution with h == 1.0")
    # assert len <= capacity at the end of add_solution
    asserts = [n for n in own_nodes(add) if isinstance(n, ast.Assert) and norm(n.test) in ("len(self._solutions) <= self._capacity",)]
    ctx.check("C13.mio-cap", add, bool(asserts), "add_solution lost its `len(_solutions) <= capacity` assertion", what="capacity assertion present", stmt="[assert]")

    # ------------------------------------------------------------------ C13.goals
    gm = repo.func(DY, "_GoalsManager.update")
    ctx.analysed(gm)
    loops = [n for n in own_nodes(gm) if isinstance(n, ast.For) and norm(n.iter) == "self._current_goals"]
    if not loops:
        raise AnalysisError("_GoalsManager.update: loop over current goals not found")
    lp = loops[0]
    g = lp.target.id
    top_if = next((s for s in lp.body if isinstance(s, ast.If)), None)
    ok_keep = ok_children = False
    if top_if is not None and re.fullmatch(rf"{g} in \w+", norm(top_if.test)):
        ok_keep = any(isinstance(s, ast.Expr) and re.fullmatch(rf"\w+\.add\({g}\)", norm(s.value)) for s in top_if.orelse)
        ok_children = any(isinstance(x, ast.Call) and last_attr(x) == "get_structural_children" for s in top_if.body for x in ast.walk(s)) and not any(
            isinstance(x, ast.Call) and last_attr(x) == "get_structural_children" for s in top_if.orelse for x in ast.walk(s)
        )
    ctx.check("C13.goals", top_if or lp, ok_keep, "an uncovered current goal is not carried over to the next goal set: it can never be covered again", what="uncovered current goals are kept")
    ctx.check("C13.goals", top_if or lp, ok_children, "children are not added exactly for covered goals", what="children added only for covered goals", stmt="[children]")


def _one_shot(ctx, repo) -> None:
    """CoverageArchive.update is typed for any Iterable: interpreted with a list and with a one-shot iterator of the same
    solutions it archives the same goals."""
    from sa.engine import peval

    fn = repo.func(AR, "CoverageArchive.update")
    ctx.analysed(fn)
    mod = repo.module(AR)
    better = repo.func(AR, "CoverageArchive._is_better_than_current")

    def run(make_iterable):
        res = peval.Obj("result", fields={"timeout": False})
        res.methods["has_test_exceptions"] = lambda: False
        sols = []
        for i, covers in enumerate((("g0", "g1"), ("g1", "g2"))):
            o = peval.Obj(f"s{i}")
            o.methods["get_is_covered"] = lambda g, covers=covers: g in covers
            o.methods["get_last_execution_result"] = lambda res=res: res
            o.methods["size"] = lambda i=i: 3 + i
            sols.append(o)
        goals = ["g0", "g1", "g2", "g3"]
        selfobj = peval.Obj("CoverageArchive", fields={"_objectives": list(goals), "_covered": {}, "_uncovered": list(goals), "_logger": peval.Obj("logger", methods={"debug": lambda *a, **k: None})})
        selfobj.methods["_on_target_covered"] = lambda g: None
        it = peval.Interp(resolver=peval.repo_resolver(repo), max_steps=50000)
        selfobj.methods["_is_better_than_current"] = lambda a, b: it.run_function(better, [a, b], {}, mod)
        it.run_function(fn, [selfobj, make_iterable(sols)], {}, mod)
        return sorted(selfobj.fields["_covered"]), sorted(selfobj.fields["_uncovered"])

    try:
        want = run(list)
        for label, mk in (("a one-shot iterator", iter), ("a generator", lambda s: (x for x in s)), ("a tuple", tuple)):
            got = run(mk)
            ctx.check("C13.iterable", fn, got == want, f"[update with {label}] archives {got[0]} (uncovered {got[1]}), with a list of the same solutions {want[0]} (uncovered {want[1]}): the solutions are iterated once per objective, an iterator is exhausted after the first one - goals covered by the given solutions are not recorded as covered", what=f"[update with {label}] same goals archived as with a list", stmt=f"[update with {label}]")
    except peval.Undecided as exc:
        ctx.undecide("C13.iterable", fn, str(exc))
    except peval.Raises as exc:
        ctx.fail("C13.iterable", fn, f"update raises {exc.name} {exc.detail[:60]}", stmt="[update] raises")
