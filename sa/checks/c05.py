"""C05 — tracing keeps recording after an exception inside traced code.

Decides: the tracer's enabled flag is restored on *every* exit (normal,
exception, GeneratorExit at the yield) of every region that flips it, the flag
has no writer outside the designated methods, and the region constructors are
only used as context managers.
Further clauses (added later): C05.record: every predicate callback reaches _update_metrics; an early return
is allowed only under the one-shot-iterator guard of its operand and never under a condition that reads tracer
state.
"""

from __future__ import annotations

import ast

from sa.engine.cfg import CFG
from sa.engine.index import (
    AnalysisError,
    call_name,
    decorator_names,
    head,
    last_attr,
    module_of,
    norm,
    own_nodes,
    parent,
    qualname,
)

TRACER_MOD = "pynguin.instrumentation.tracer"
INVERSE = {"disable": "enable", "enable": "disable"}

# Raw flips outside a paired region that were read and accepted, one reason each.
RAW_ALLOWED = {
    (TRACER_MOD, "ExecutionTracer.enable"): "primitive writer of the flag",
    (TRACER_MOD, "ExecutionTracer.disable"): "primitive writer of the flag",
    (TRACER_MOD, "InstrumentationExecutionTracer.enable"): "forwards to the wrapped tracer's enable()",
    (TRACER_MOD, "InstrumentationExecutionTracer.disable"): "forwards to the wrapped tracer's disable()",
    ("pynguin.generator", "_run"): "final disable() after the search, before export; no traced statement follows",
}

FLAG_WRITERS_ALLOWED = {
    "ExecutionTracer.TracerLocalState.__init__",
    "ExecutionTracer.enable",
    "ExecutionTracer.disable",
    "ExecutionTracer.state@setter",
    "ExecutionTracer.state",
}


def _tracer_classes(repo):
    base = (TRACER_MOD, "AbstractExecutionTracer")
    repo.cls(*base)
    return {base, *repo.subclasses(*base)}


def _is_tracer_receiver(recv: ast.AST, fn, tracer_cls_names) -> bool:
    text = norm(recv)
    if text == "self":
        cls = getattr(fn, "_class", None)
        return cls is not None and qualname(cls) in tracer_cls_names
    last = text.split(".")[-1].split("(")[0]
    return "tracer" in last.lower()


def flip_calls(fn, tracer_cls_names):
    """(stmt, call, which) for every `<tracer>.enable()` / `.disable()` expression statement in fn."""
    for n in own_nodes(fn):
        if isinstance(n, ast.Call) and isinstance(n.func, ast.Attribute) and n.func.attr in INVERSE and not n.args:
            if _is_tracer_receiver(n.func.value, fn, tracer_cls_names):
                yield n


def _records_every_evaluation(ctx, repo) -> None:
    """A predicate callback reaches _update_metrics for every evaluation it is told about: an early `return` is one
    of the enumerated, reasoned exceptions - anything else makes the recording depend on what happened earlier in
    the execution (e.g. on an exception a previous evaluation raised)."""
    TRM = "pynguin.instrumentation.tracer"
    n = 0
    for name in ("executed_compare_predicate", "executed_bool_predicate", "executed_in_presence_predicate", "executed_exception_match"):
        fn = repo.try_func(TRM, f"ExecutionTracer.{name}")
        if fn is None:
            continue
        ctx.analysed(fn)
        params = {a.arg for a in fn.args.args}
        sinks = [c for c in own_nodes(fn) if isinstance(c, ast.Call) and norm(c.func) == "self._update_metrics"]
        n += 1
        ctx.check("C05.record", fn, bool(sinks), f"{name} no longer records its evaluation (no _update_metrics call)", what=f"{name} records", stmt=f"[{name}] records")
        for r in [x for x in own_nodes(fn) if isinstance(x, ast.Return)]:
            conds = []
            p = parent(r)
            while p is not None and p is not fn:
                if isinstance(p, ast.If):
                    conds.append(p.test)
                p = parent(p)
            text = " and ".join(norm(c) for c in conds)
            iterator_guard = any(isinstance(c, ast.Call) and norm(c.func) == "isinstance" and len(c.args) == 2 and norm(c.args[0]) in params and "Iterator" in norm(c.args[1]) for t in conds for c in ast.walk(t))
            stateful = any(isinstance(x, ast.Attribute) and norm(x).startswith("self.") for t in conds for x in ast.walk(t))
            n += 1
            ctx.check("C05.record", r, iterator_guard and not stateful, f"{name} returns without recording under `{text[:90]}`: the evaluation is not reported" + (" - and the condition reads state of the tracer, so what is recorded depends on what happened earlier in the execution (an exception raised by a previous evaluation, for instance)" if stateful else ""), what=f"{name}: early return only for one-shot iterators", stmt=f"[{name}] return under {text[:50]}")
    if n == 0:
        raise AnalysisError("C05.record: no predicate callback found")


def check(ctx) -> None:
    repo = ctx.repo
    ctx.rule("C05.ctx", "PAIR-FINALLY: after a flip of the tracer flag every path to any exit (incl. exceptional and GeneratorExit at yield) passes the inverse flip", floor=2)
    ctx.rule("C05.record", "every predicate callback reaches _update_metrics; an early return is allowed only under the one-shot-iterator guard on its operand and never under a condition that reads tracer state", floor=5)
    _records_every_evaluation(ctx, repo)
    ctx.rule("C05.raw", "WHO-MAY: raw <tracer>.enable()/.disable() occurs only in paired regions or in the enumerated forwarders", floor=3)
    ctx.rule("C05.writers", "WHO-MAY: TracerLocalState.enabled is assigned only by __init__/enable/disable/state setter", floor=4)
    ctx.rule("C05.cm-use", "temporarily_disable()/temporarily_enable() are only used as `with` items or ExitStack.enter_context arguments", floor=8)
    ctx.rule("C05.stmt-boundary", "observer callbacks at statement boundaries run inside `with …temporarily_disable()`", floor=2)

    tracer_classes = _tracer_classes(repo)
    tracer_cls_names = {c for _m, c in tracer_classes}

    # anchors
    for name in ("temporarily_disable", "temporarily_enable"):
        fn = repo.func(TRACER_MOD, f"AbstractExecutionTracer.{name}")
        if not any(d.endswith("contextmanager") for d in decorator_names(fn)):
            raise AnalysisError(f"{name} is no longer a contextlib.contextmanager generator: rule C05.ctx cannot interpret it")

    # ---- C05.ctx / C05.raw over the whole package
    for mod, qn, fn in repo.all_functions():
        flips = list(flip_calls(fn, tracer_cls_names))
        if not flips:
            continue
        ctx.analysed(fn)
        is_cm = any(d.endswith("contextmanager") for d in decorator_names(fn))
        has_yield = any(isinstance(n, (ast.Yield, ast.YieldFrom)) for n in own_nodes(fn))
        cfg = CFG(fn)
        for call in flips:
            which = call.func.attr
            inv = INVERSE[which]
            stmt = call
            while not isinstance(stmt, ast.stmt):
                stmt = parent(stmt)
            recv = norm(call.func.value)
            inv_nodes = set()
            for n in cfg.nodes:
                if n.stmt is None or n.kind not in ("stmt",):
                    continue
                for c in own_nodes(n.stmt) if not isinstance(n.stmt, ast.Expr) else [n.stmt.value]:
                    if isinstance(c, ast.Call) and isinstance(c.func, ast.Attribute) and c.func.attr == inv and norm(c.func.value) == recv:
                        inv_nodes.add(n.id)
            # is this flip the *restoring* half of a pair?  (an inverse flip reaches it)
            my_nodes = cfg.nodes_of(stmt)
            if not my_nodes:
                ctx.undecide("C05.ctx", stmt, "flip statement not in CFG")
                continue
            opened_before = False
            for inn in inv_nodes:
                reach = cfg.reachable([inn])
                if any(m in reach for m in my_nodes) and inn not in my_nodes:
                    opened_before = True
            if opened_before and (is_cm or has_yield):
                # restoring half: judged through its opener
                continue
            allowed = RAW_ALLOWED.get((mod.name, qn))
            if not (is_cm and has_yield):
                # raw site
                if allowed:
                    ctx.ok("C05.raw", stmt, f"allowed raw flip: {allowed}")
                    continue
                # a raw flip is acceptable only if paired in the same function on all exits
                starts = [b for m in my_nodes for b, lab in cfg.succ[m] if lab != "exc"]
                bad = cfg.path(starts, [cfg.exit, cfg.raise_exit], avoid_nodes=inv_nodes)
                ctx.paths += 1
                ctx.check(
                    "C05.raw",
                    stmt,
                    bad is None and bool(inv_nodes),
                    f"raw {recv}.{which}() outside a paired region: a path leaves {qn} without {recv}.{inv}()",
                    what=f"raw flip paired on all exits in {qn}",
                    path=cfg.describe_path(bad) if bad else [],
                )
                continue
            # opener inside a context-manager generator: PAIR-FINALLY
            starts = [b for m in my_nodes for b, lab in cfg.succ[m] if lab != "exc"]
            bad = cfg.path(starts, [cfg.exit, cfg.raise_exit], avoid_nodes=inv_nodes)
            ctx.paths += 1
            ctx.check(
                "C05.ctx",
                stmt,
                bad is None,
                f"after {recv}.{which}() a path leaves {qn} without {recv}.{inv}() "
                "(an exception or GeneratorExit at the yield skips the restore)",
                what=f"{recv}.{which}() restored by {inv}() on all {len(inv_nodes)} exit copies",
                path=cfg.describe_path(bad) if bad else [],
            )

    # ---- C05.writers
    for mod, qn, fn in repo.all_functions():
        for n in own_nodes(fn):
            targets = []
            if isinstance(n, ast.Assign):
                targets = n.targets
            elif isinstance(n, (ast.AugAssign, ast.AnnAssign)):
                targets = [n.target]
            for t in targets:
                if isinstance(t, ast.Attribute) and t.attr == "enabled":
                    recv = norm(t.value)
                    in_local_state = qn.startswith("ExecutionTracer.TracerLocalState.")
                    if "_thread_local_state" in recv or (recv == "self" and in_local_state):
                        ctx.analysed(fn)
                        key = qn.split("#")[0]
                        ctx.check(
                            "C05.writers",
                            n,
                            mod.name == TRACER_MOD and key in FLAG_WRITERS_ALLOWED,
                            f"tracer flag written outside the designated methods: {mod.name}:{qn}",
                            what=f"flag writer {qn}",
                        )
        for n in own_nodes(fn):
            if isinstance(n, ast.Call) and call_name(n) == "setattr" and len(n.args) >= 2 and isinstance(n.args[1], ast.Constant) and n.args[1].value == "enabled":
                ctx.fail("C05.writers", n, "tracer flag written through setattr")

    # ---- C05.cm-use
    for mod, qn, fn in repo.all_functions():
        for n in own_nodes(fn):
            if isinstance(n, ast.Call) and last_attr(n) in ("temporarily_disable", "temporarily_enable") and isinstance(n.func, ast.Attribute):
                p = parent(n)
                ok = isinstance(p, ast.withitem) and p.context_expr is n
                if not ok and isinstance(p, ast.Call) and last_attr(p) == "enter_context" and n in p.args:
                    # the ExitStack itself must be a with-item
                    ok = any(isinstance(a, (ast.With, ast.AsyncWith)) for a in _anc(n))
                ctx.analysed(fn)
                ctx.check(
                    "C05.cm-use",
                    n,
                    ok,
                    f"{norm(n)} is not used as a `with` item: the region is never entered/left, the flag is not restored",
                    what=f"with-item in {qn}",
                )

    # ---- C05.stmt-boundary
    ex_mod = "pynguin.testcase.execution"
    for name, cb in (("_before_statement_execution", "before_statement_execution"), ("_after_statement_execution", "after_statement_execution")):
        fn = repo.func(ex_mod, f"TestCaseExecutor.{name}")
        ctx.analysed(fn)
        calls = [n for n in own_nodes(fn) if isinstance(n, ast.Call) and last_attr(n) == cb]
        if not calls:
            raise AnalysisError(f"{name}: observer callback {cb} not found")
        for c in calls:
            inside = any(
                isinstance(a, ast.With)
                and any(isinstance(i.context_expr, ast.Call) and last_attr(i.context_expr) == "temporarily_disable" for i in a.items)
                for a in _anc(c)
            )
            ctx.check(
                "C05.stmt-boundary",
                c,
                inside,
                f"observer callback {cb} runs outside `with …temporarily_disable()` in {name}",
                what=f"{cb} under temporarily_disable",
            )


def _anc(n):
    p = parent(n)
    while p is not None:
        yield p
        p = parent(p)
