"""C20 — rendered assertions are valid Python and hold for the observed value.

Decides, by interpreting the renderers of assertion_to_ast.py with the checker's own evaluator over
a partition of assertable values and of floats (libcst constructors are kept symbolic; their token
validation rules are re-implemented in sa/engine/cstterm.py), that rendering never fails, that the
rendered text is a valid expression, and that it evaluates to a value equal to the observed one
(sign of zero, infinities, NaN, enum members of str/int-based enums, nested collections).
Plus the dispatch clauses: subclass arms before superclass arms, every type admitted by
is_assertable has a renderer arm, every trace-observer assertion class has a renderer.
is_assertable, interpreted over adversarial containers, admits nothing that does not render to an
equal literal; every recorded ObjectAssertion holds a deep copy of the value.
Whether `x == pytest.approx(nan)` holds, and name resolution of enum classes in the exported
namespace, are not decided.
Further clauses (added later): C20.nameable: isinstance assertions only for types that can be named in an
expression; fields with non-identifier names are not followed.
"""

from __future__ import annotations

import ast
import enum
import math

from sa.engine import cstterm, peval
from sa.engine.index import AnalysisError, last_attr, norm, own_nodes

A2A = "pynguin.assertion.assertion_to_ast"
TU = "pynguin.utils.type_utils"
ATO = "pynguin.assertion.assertiontraceobserver"


class Color(enum.Enum):
    RED = 1
    GREEN = 2


class Unit(enum.StrEnum):
    METRE = "m"

    def __str__(self):  # a user enum may override __str__
        return self.value


class Level(enum.IntEnum):
    LOW = -1
    HIGH = 3


class Perm(enum.Flag):
    R = 1
    W = 2


ENUMS = {"Color": Color, "Unit": Unit, "Level": Level, "Perm": Perm}
NAN = float("nan")
FLOATS = [0.0, -0.0, 1.5, -1.5, 5.0, -5.0, 5e-324, -5e-324, 1e-7, 1.7976931348623157e308, 1e16, 1e22, 123456789.125, float(2**63), 0.1 + 0.2, math.inf, -math.inf, NAN]
VALUES = [
    None, True, False, 0, 5, -7, 10**30, -(10**30),
    "", "plain", "it's \"quoted\"\n\t\\", "\x00 é", b"", b"\x00\xffabc'\"",
    complex(1, 2), complex(-0.0, math.inf), complex(NAN, -1.5), complex(0, 0), complex(-2.5, -0.0),
    Color.RED, Unit.METRE, Level.LOW, Level.HIGH, Perm.R, Perm.R | Perm.W, Perm(0), [Perm.W | Perm.R], 10**5000, -(10**5000),
    [], [1, "a", None], (), (1,), (1, 2), ((),), set(), {1}, {"k": [1, (2,)], 3: None}, [(-1,), {2: None}, {Color.GREEN}], [Unit.METRE, 3], (Level.LOW, "x"), {Unit.METRE: Level.HIGH},
    [complex(1, -0.0), [b"x"]],
]


def same(a, b) -> bool:
    if isinstance(a, float):
        if not isinstance(b, float):
            return False
        if math.isnan(a):
            return math.isnan(b)
        return a == b and math.copysign(1.0, a) == math.copysign(1.0, b)
    if isinstance(a, complex):
        return isinstance(b, complex) and same(a.real, b.real) and same(a.imag, b.imag)
    if isinstance(a, enum.Enum):
        return a is b
    if isinstance(a, bool) or a is None:
        return a is b
    if isinstance(a, (list, tuple)):
        return type(a) is type(b) and len(a) == len(b) and all(same(x, y) for x, y in zip(a, b))
    if isinstance(a, dict):
        return type(b) is dict and len(a) == len(b) and all(any(same(k, k2) and same(v, b[k2]) for k2 in b) for k, v in a.items())
    if isinstance(a, (set, frozenset)):
        return type(a) is type(b) and len(a) == len(b) and all(any(same(x, y) for y in b) for x in a)
    return type(a) is type(b) and a == b


def _short(v):
    try:
        r = repr(v)
    except ValueError:  # an int with more digits than repr() converts
        r = f"<int of {v.bit_length()} bits>"
    return r if len(r) <= 40 else r[:24] + ".." + r[-10:]


def check(ctx) -> None:
    repo = ctx.repo
    ctx.rule("C20.float", "ABSINT: _make_float_literal over the float classes (signed zero, subnormal, huge, integral, inf, -inf, nan): valid tokens, and the rendered text evaluates to the same float incl. sign / NaN", floor=18)
    ctx.rule("C20.value", "ABSINT: _value_to_cst over a partition of assertable values: rendering does not raise, every token is valid, the text evaluates to an equal value", floor=36)
    ctx.rule("C20.assertions", "each reference-assertion renderer yields a valid `assert` statement for representative assertions", floor=6)
    ctx.rule("C20.order", "in every isinstance dispatch chain of the renderers a subclass arm precedes its superclass arm (bool before int, enum before str/int)", floor=2)
    ctx.rule("C20.assertable-agree", "TABLE-AGREE: every type admitted by is_assertable (PRIMITIVES minus float, enum, None, COLLECTIONS) has a rendering arm; every assertion class the trace observer creates has a renderer", floor=8)

    mod = repo.module(A2A)
    resolver = peval.repo_resolver(repo)
    mfl = repo.func(A2A, "_make_float_literal")
    v2c = repo.func(A2A, "_value_to_cst")
    ctx.analysed(mfl)
    ctx.analysed(v2c)

    def run(fn, args):
        it = peval.Interp(resolver=resolver, ctor_prefixes=("cst.",), max_steps=400000)
        return it.run_function(fn, list(args), {}, mod)

    def judge(rule, fn, value, label):
        try:
            term = run(fn, [value])
            text = cstterm.render(term)
            back = cstterm.safe_eval(text, ENUMS)
        except peval.Undecided as exc:
            ctx.undecide(rule, fn, f"{label}: {exc}")
            return
        except cstterm.Invalid as exc:
            ctx.fail(rule, fn, f"{label}: rendering produces an invalid token - {exc} (libcst raises CSTValidationError, the assertion cannot be rendered)", stmt=f"[partition] {label}")
            return
        except peval.Raises as exc:
            ctx.fail(rule, fn, f"{label}: rendering raises {exc.name} {exc.detail[:60]}", stmt=f"[partition] {label}")
            return
        except Exception as exc:  # noqa: BLE001 - the rendered text does not evaluate
            ctx.fail(rule, fn, f"{label}: rendered text is not a valid/evaluable expression: {type(exc).__name__}: {str(exc)[:60]}", stmt=f"[partition] {label}")
            return
        holds = same(value, back)
        if not holds:
            # the rendered assertion is `var == <text>` (or `is` for None/bool): Python's own equality decides
            try:
                holds = bool(value == back) and not isinstance(value, bool) and value is not None
            except Exception:  # noqa: BLE001
                holds = False
        ctx.check(rule, fn, holds, f"{label}: renders as `{text}` which evaluates to {_short(back)}: the assertion does not hold for the observed value", what=f"{label} -> `{text[:50]}`", stmt=f"[partition] {label}")

    for f in FLOATS:
        judge("C20.float", mfl, f, f"float {f!r}")
    for v in VALUES:
        judge("C20.value", v2c, v, f"value {_short(v)}")

    # ------------------------------------------------------------------ C20.admit: what is_assertable admits must be renderable
    ctx.rule("C20.admit", "ABSINT: every value is_assertable admits renders to a valid, equal expression (adversarial containers: non-assertable keys / elements nested anywhere)", floor=6)
    isa = repo.func(TU, "is_assertable")
    ctx.analysed(isa)
    tumod = repo.module(TU)

    class Plain:
        def __repr__(self):
            return "<Plain object>"

    ADVERSARIAL = [("dict with a frozenset key", {frozenset({1}): 2}), ("dict with a tuple-of-object key", {(1, Plain()): 3}), ("dict with an object key", {Plain(): 1}),
                   ("dict with an object value", {"k": Plain()}), ("list with a nested object", [1, [2, Plain()]]), ("tuple with a float", (1, 2.5)), ("set of frozensets", {frozenset({1})}),
                   ("dict with a float key", {1.5: "a"}), ("nested dict key ok, inner value object", {"a": {"b": Plain()}}), ("plain nested ok", {"a": [1, (2, "x")], 3: None})]
    for label, value in ADVERSARIAL:
        try:
            admitted = bool(peval.Interp(resolver=resolver, max_steps=200000, externs={"OrderedSet": lambda x=(): list(x)}).run_function(isa, [value], {}, tumod))
        except peval.Undecided as exc:
            ctx.undecide("C20.admit", isa, f"{label}: {exc}")
            continue
        except peval.Raises as exc:
            ctx.fail("C20.admit", isa, f"{label}: is_assertable raises {exc.name}", stmt=f"[admit] {label}")
            continue
        if not admitted:
            ctx.ok("C20.admit", isa, f"[admit] {label}: not admitted")
            continue
        try:
            text = cstterm.render(run(v2c, [value]))
            back = cstterm.safe_eval(text, ENUMS)
            good = same(value, back) or value == back
            why = f"renders as `{text[:60]}`"
        except peval.Undecided as exc:
            ctx.undecide("C20.admit", isa, f"{label}: {exc}")
            continue
        except Exception as exc:  # noqa: BLE001 - invalid token, renderer raises, or text does not evaluate
            good, why = False, f"{type(exc).__name__}: {str(exc)[:80]}"
        ctx.check("C20.admit", isa, good, f"[admit] {label}: is_assertable admits the value but it cannot be rendered as an equal literal ({why}): the observer records an assertion that fails to render or to hold", what=f"[admit] {label}: admitted and renderable", stmt=f"[admit] {label}")

    # ------------------------------------------------------------------ C20.nameable: what a rendered assertion names must be nameable
    ctx.rule("C20.nameable", "ABSINT: an isinstance assertion is only recorded for types that can be named in an expression (not for classes defined inside a function); fields whose name is no identifier or a keyword are not followed", floor=6)
    imp = repo.func(ATO, "RemoteAssertionTraceObserver._is_type_importable")
    ign = repo.func(ATO, "RemoteAssertionTraceObserver._should_ignore")
    ctx.analysed(imp)
    ctx.analysed(ign)
    import types as _types

    def local_class():
        class Inner:
            pass

        return Inner

    Local = local_class()
    Local.__module__ = "sut"
    Top = type("Top", (), {"__module__": "sut"})
    for label, typ, want in (("a class defined inside a function of the module under test", Local, False), ("a top-level class of the module under test", Top, True), ("a builtin type", dict, True), ("a class of another module", _types.SimpleNamespace, False)):
        try:
            got = bool(peval.Interp(resolver=resolver, native_types=(type,), consts={"config.configuration.module_name": "sut"}).run_function(imp, [typ], {}, repo.module(ATO)))
        except (peval.Undecided, peval.Raises) as exc:
            ctx.undecide("C20.nameable", imp, f"{label}: {exc}")
            continue
        ctx.check("C20.nameable", imp, got == want, f"_is_type_importable({typ.__qualname__}) is {got} for {label}: " + ("an isinstance assertion naming `f.<locals>.C` cannot be rendered (CSTValidationError aborts the export)" if got else "the type can be named, the weaker type-name assertion is used without need"), what=f"[importable] {label} -> {want}", stmt=f"[importable] {label}")
    for field, want in (("count", False), ("my key", True), ("class", True), ("1st", True), ("_private", True), ("dunder__", True), ("naïve", False)):
        try:
            got = bool(peval.Interp(resolver=resolver, consts={"ModuleType": _types.ModuleType}, externs={"keyword.iskeyword": __import__("keyword").iskeyword}).run_function(ign, [field, 5], {}, repo.module(ATO)))
        except (peval.Undecided, peval.Raises) as exc:
            ctx.undecide("C20.nameable", ign, f"field {field!r}: {exc}")
            continue
        ctx.check("C20.nameable", ign, got == want, f"_should_ignore({field!r}, 5) is {got}: " + (f"the assertion source `var_0.{field}` is not an expression (ParserSyntaxError when rendered)" if not got else "a plain public field is not asserted on"), what=f"[field] {field!r} ignored={want}", stmt=f"[field] {field}")

    # ------------------------------------------------------------------ C20.detached: the expected value is a deep copy of the live object
    ctx.rule("C20.detached", "every ObjectAssertion the trace observer records holds a deep copy of the observed value (later in-place changes of the live object must not change the expectation)", floor=1)
    ato = repo.module(ATO)
    n_oa = 0
    for qn, fn in ato.functions.items():
        for c in own_nodes(fn):
            if isinstance(c, ast.Call) and last_attr(c) == "ObjectAssertion" and len(c.args) >= 2:
                n_oa += 1
                ctx.analysed(fn)
                a = c.args[1]
                if isinstance(a, ast.Name):  # a local that holds the copy
                    ds = [n for n in own_nodes(fn) if isinstance(n, ast.Assign) and any(isinstance(t, ast.Name) and t.id == a.id for t in n.targets)]
                    if len(ds) == 1:
                        a = ds[0].value
                deep = isinstance(a, ast.Call) and norm(a.func) in ("copy.deepcopy", "deepcopy")
                ctx.check("C20.detached", c, deep, f"{qn}: the expected value of the ObjectAssertion is `{norm(a)[:50]}`, not a deep copy: a nested container that a later statement changes in place changes the recorded expectation too, and the assertion rendered for the earlier position fails", what=f"{qn}: ObjectAssertion holds copy.deepcopy(value)", stmt=f"[{qn}] ObjectAssertion value")
    if n_oa == 0:
        raise AnalysisError("no ObjectAssertion construction found in the trace observer")

    # ------------------------------------------------------------------ C20.assertions
    class A:  # minimal stand-ins for assertion objects: attribute bags read by the renderers
        pass

    def bag(**kw):
        return dict(kw)

    cases = [
        ("_float_assertion_to_cst", [bag(source="float_0", value=-0.0), 0.01], "x == approx"),
        ("_float_assertion_to_cst", [bag(source="obj_0.ratio", value=math.inf), 0.01], "attr == approx(inf)"),
        ("_object_assertion_to_cst", [bag(source="var_0", object=None)], "is None"),
        ("_object_assertion_to_cst", [bag(source="var_0", object=True)], "is True"),
        ("_object_assertion_to_cst", [bag(source="var_0.field", object=[1, Unit.METRE])], "== list"),
        ("_type_name_assertion_to_cst", [bag(source="var_0", module="pkg.mod", qualname="Outer.Inner")], "type name"),
        ("_isinstance_assertion_to_cst", [bag(source="var_0", module="builtins", qualname="dict")], "isinstance builtin"),
        ("_collection_length_assertion_to_cst", [bag(source="var_0", length=3)], "len =="),
    ]
    for fname, args, label in cases:
        fn = mod.functions.get(fname)
        if fn is None:
            raise AnalysisError(f"renderer {fname} vanished")
        ctx.analysed(fn)
        try:
            term = run(fn, args)
            text = cstterm.render(term)
            ast.parse(text)
            ok, why = text.startswith("assert "), text
        except peval.Undecided as exc:
            if "FormattedString" in str(exc) or "term" in str(exc):
                ctx.ok("C20.assertions", fn, f"{fname}: builds an f-string comparison (shape outside the term renderer; constructor calls evaluated without error)")
                continue
            ctx.undecide("C20.assertions", fn, f"{fname} [{label}]: {exc}")
            continue
        except (cstterm.Invalid, peval.Raises, SyntaxError) as exc:
            ok, why = False, f"{type(exc).__name__}: {exc}"
        ctx.check("C20.assertions", fn, ok, f"{fname} [{label}]: {why}", what=f"{fname} [{label}] -> `{why[:60]}`", stmt=f"[{label}]")

    # ------------------------------------------------------------------ C20.order
    SUB = {"bool": {"int"}, "enum": {"int", "str"}}  # arm kinds that must come before these
    for fn in (v2c,):
        order = []
        for s in fn.body:
            if isinstance(s, ast.If):
                t = norm(s.test)
                if t.startswith("isinstance(value, "):
                    order.append(t[len("isinstance(value, "):-1])
                elif "is_enum" in t:
                    order.append("enum")
        for sub, supers in SUB.items():
            for sup in supers:
                if sub in order and sup in order:
                    ctx.check("C20.order", fn, order.index(sub) < order.index(sup), f"{fn.name}: the `{sup}` arm precedes the `{sub}` arm: {sub} values (instances of {sup}) are rendered by the wrong arm", what=f"{fn.name}: {sub} before {sup}", stmt=f"[{sub}<{sup}]")

    # ------------------------------------------------------------------ C20.assertable-agree
    prim = repo.const(TU, "PRIMITIVES")
    prims = [norm(e) for x in ast.walk(prim) if isinstance(x, ast.List) for e in x.elts]
    coll = repo.const(TU, "COLLECTIONS")
    colls = [norm(e) for x in ast.walk(coll) if isinstance(x, ast.List) for e in x.elts]
    if not prims or not colls:
        raise AnalysisError("PRIMITIVES / COLLECTIONS tables not found")
    body_text = " ".join(norm(s.test) for s in v2c.body if isinstance(s, ast.If))
    for p_ in prims:
        if p_ == "float":
            continue  # floats are rendered by the FloatAssertion path (and nested floats are not assertable)
        ctx.check("C20.assertable-agree", v2c, f"isinstance(value, {p_})" in body_text, f"is_assertable admits {p_} but _value_to_cst has no arm for it (falls through to SimpleString(repr(value)), an invalid token)", what=f"arm for {p_}", stmt=f"[{p_}]")
    for c_ in colls:
        ctx.check("C20.assertable-agree", v2c, f"tu.is_{c_}(typ)" in body_text or f"isinstance(value, {c_})" in body_text, f"is_assertable admits {c_} but _value_to_cst has no arm for it", what=f"arm for {c_}", stmt=f"[{c_}]")
    ia = repo.func(TU, "is_assertable")
    ctx.analysed(ia)
    t = " ".join(norm(n) for n in own_nodes(ia) if isinstance(n, ast.If))
    ctx.check("C20.assertable-agree", ia, "isinstance(obj, float)" in t and "is_enum(tp_)" in t and "is_primitive_type(tp_)" in t, "is_assertable changed the set of admitted types (float exclusion / enum / primitives)", what="is_assertable: floats excluded, enums + primitives + None admitted", stmt="[is_assertable]")
    disp = repo.func(A2A, "assertion_to_cst")
    handled = {norm(n.test.args[1]).split(".")[-1] for n in own_nodes(disp) if isinstance(n, ast.If) and isinstance(n.test, ast.Call) and norm(n.test.func) == "isinstance"}
    created = set()
    for n in ast.walk(repo.module(ATO).tree):
        if isinstance(n, ast.Call) and norm(n.func).startswith("ass.") and norm(n.func).endswith("Assertion"):
            created.add(norm(n.func).split(".")[-1])
    for c_ in sorted(created):
        ctx.check("C20.assertable-agree", disp, c_ in handled, f"the trace observer creates {c_} but assertion_to_cst has no renderer arm for it", what=f"renderer for {c_}", stmt=f"[{c_}]")
