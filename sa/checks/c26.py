"""C26 — generator selection offers only type-compatible generators; providers agree; caches fresh.

Decides (a) on the finite type universe of sa/checks/_typemodel.py, interpreting the type queries
from source: the rank-based provider offers a generator of type G for a request T exactly when
subtype_distance(T, G) is defined, the random provider exactly when is_maybe_subtype(G, T); both
must be subsets of "G may be a subtype of T" and must agree with each other; (b) cache coherence by
code shape: every memoised reader of the type graph is cleared by every writer of graph edges, and
clear_generator_cache clears every memoised method of the provider classes and is called when a
generator moves to another return type; (c) the aliasing contract: a provider accessor whose
result a caller updates in place returns the stored bucket, not a copy.  Selection among the
offered generators is not decided.
"""

from __future__ import annotations

import ast

from sa.checks._typemodel import Model
from sa.checks.c25 import report_grouped, shape
from sa.engine import peval
from sa.engine.cfg import CFG
from sa.engine.index import AnalysisError, decorator_names, last_attr, norm, own_nodes, parent

TS = "pynguin.analyses.typesystem"
GEN = "pynguin.analyses.generator"
MOD = "pynguin.analyses.module"


def _stmt(n):
    while n is not None and not isinstance(n, ast.stmt):
        n = parent(n)
    return n


MUTATORS = {"discard", "remove", "add", "update", "clear", "pop", "append", "difference_update", "intersection_update"}


def _live_buckets(ctx, repo) -> None:
    """A caller that changes the collection a provider accessor handed out relies on getting the stored
    bucket itself; the accessor must then not return a copy (aliasing contract between two modules)."""
    gmod = repo.module(GEN)
    accessors = {}
    for qn, fn in gmod.functions.items():
        cls_, _, name = qn.rpartition(".")
        if cls_ and not name.startswith("_") and any(isinstance(n, ast.Attribute) and norm(n) == "self._generators" for n in own_nodes(fn)):
            rets = [r for r in own_nodes(fn) if isinstance(r, ast.Return) and r.value is not None]
            if rets:
                accessors[name] = (fn, rets)
    users = 0
    for mod_, qn, fn in repo.all_functions():
        bound = {}
        for n in own_nodes(fn):
            if isinstance(n, ast.Assign) and len(n.targets) == 1 and isinstance(n.targets[0], ast.Name) and isinstance(n.value, ast.Call) and last_attr(n.value) in accessors and "provider" in norm(n.value.func):
                bound[n.targets[0].id] = last_attr(n.value)
        for n in own_nodes(fn):
            if isinstance(n, ast.Call) and isinstance(n.func, ast.Attribute) and n.func.attr in MUTATORS and isinstance(n.func.value, ast.Name) and n.func.value.id in bound:
                var = n.func.value.id
                # a local that is returned, stored or passed on is the caller's own working copy: changing it is meaningful
                # without aliasing; a local that only receives the change can only matter as an alias of the provider's state
                escapes = False
                for u in own_nodes(fn):
                    if isinstance(u, ast.Name) and u.id == var and isinstance(u.ctx, ast.Load):
                        par = parent(u)
                        if isinstance(par, ast.Attribute) and par.value is u:
                            continue  # receiver of a method / attribute read
                        if isinstance(par, ast.Call) and norm(par.func) in ("len", "bool") or isinstance(par, (ast.Compare, ast.UnaryOp, ast.BoolOp, ast.If)):
                            continue
                        escapes = True
                if escapes:
                    continue
                acc = bound[var]
                afn, rets = accessors[acc]
                users += 1
                ctx.analysed(fn)
                ctx.analysed(afn)
                for r in rets:
                    v = r.value
                    stored = (isinstance(v, ast.Subscript) and norm(v.value) == "self._generators") or (isinstance(v, ast.Call) and norm(v.func) in ("self._generators.get", "self._generators.setdefault")) or norm(v) == "self._generators"
                    ctx.check("C26.live-bucket", r, stored, f"{mod_.name}:{qn} changes the collection returned by {acc}() in place (`{norm(n)[:60]}`) and relies on it being the provider's own bucket, but {acc} returns `{norm(v)[:70]}`, a copy: the change is lost - a generator whose return type was updated stays filed under its old type and is offered for requests it cannot satisfy", what=f"{acc}() hands out the stored bucket that {qn} updates", stmt=f"[{acc}] {qn.split('.')[-1]}")
    if users == 0:
        ctx.ok("C26.live-bucket", gmod.tree, "no caller mutates a collection handed out by the provider")


def check(ctx) -> None:
    repo = ctx.repo
    ctx.rule("C26.compatible", "every (request T, generated G) pair the rank-based provider offers has G maybe-subtype of T; likewise the random provider", floor=2)
    ctx.rule("C26.providers-agree", "both providers offer the same generators for every request of the universe", floor=1)
    ctx.rule("C26.provider-shape", "the rank-based provider decides by `subtype_distance(requested, generated) is not None`, the random one by `is_maybe_subtype(generated, requested)` (argument order); both take everything for Any", floor=4)
    ctx.rule("C26.live-bucket", "aliasing contract: where a caller updates in place the collection a GeneratorProvider accessor returned, the accessor returns the stored bucket itself, not a copy", floor=1)
    _live_buckets(ctx, repo)
    ctx.rule("C26.type-cache", "every lru_cache'd method of TypeSystem is cleared by _clear_query_caches, and every writer of graph edges reaches it", floor=7)
    ctx.rule("C26.gen-cache", "clear_generator_cache clears every memoised method of GeneratorProvider and its subclasses; a generator that changes its return type is followed by clear_generator_cache and get_all_generatable_types.cache_clear()", floor=5)

    # ------------------------------------------------------------------ provider shape
    rank = repo.func(GEN, "GeneratorProvider._get_generators_for")
    rand = repo.func(GEN, "RandomGeneratorProvider._get_generators_for")
    ctx.analysed(rank)
    ctx.analysed(rand)
    rparam = [a.arg for a in rank.args.args][1]
    dcalls = [n for n in own_nodes(rank) if isinstance(n, ast.Call) and last_attr(n) == "subtype_distance"]
    ok = len(dcalls) == 1 and norm(dcalls[0].args[0]) == rparam
    loopvar = None
    if ok:
        loop = next((n for n in own_nodes(rank) if isinstance(n, ast.For) and dcalls[0] in list(ast.walk(n))), None)
        loopvar = norm(loop.target) if loop is not None else None
        ok = loopvar is not None and norm(dcalls[0].args[1]) == loopvar and "get_all_types()" in norm(loop.iter)
        cond = next((n for n in ast.walk(loop) if isinstance(n, ast.If)), None) if loop is not None else None
        ok = ok and cond is not None and "is not None" in norm(cond.test)
    ctx.check("C26.provider-shape", rank, ok, "rank-based provider no longer offers generated_typ iff subtype_distance(requested, generated_typ) is not None", what="rank-based: distance(requested, generated) is not None")
    mcalls = [n for n in own_nodes(rand) if isinstance(n, ast.Call) and last_attr(n) == "is_maybe_subtype"]
    ok = len(mcalls) == 1 and norm(mcalls[0].args[1]) == [a.arg for a in rand.args.args][1]
    if ok:
        loop = next((n for n in own_nodes(rand) if isinstance(n, ast.For) and mcalls[0] in list(ast.walk(n))), None)
        ok = loop is not None and norm(mcalls[0].args[0]) in [norm(e) for e in (loop.target.elts if isinstance(loop.target, ast.Tuple) else [loop.target])]
    ctx.check("C26.provider-shape", rand, ok, "random provider no longer offers gen_type iff is_maybe_subtype(gen_type, requested)", what="random: is_maybe_subtype(generated, requested)")
    prim_short = {}
    for name, fn in (("rank", rank), ("random", rand)):
        first_any = next((s for s in fn.body if isinstance(s, ast.If) and "AnyType" in norm(s.test)), None)
        ctx.check("C26.provider-shape", fn, first_any is not None and "_get_all_generators" in norm(first_any), f"{name} provider: a request for Any no longer takes every generator", what=f"{name}: Any takes everything")
        prim_short[name] = any(isinstance(s, ast.If) and "is_primitive_type" in norm(s.test) and any(isinstance(x, ast.Return) for x in s.body) for s in fn.body)

    # ------------------------------------------------------------------ relation on the universe
    m = Model(repo)
    U = m.universe()
    PRIMS = {"int", "float", "bool", "complex", "str"}

    def is_prim(t):
        return t.classes[0] == "Instance" and not t.fields["args"] and t.fields["type"].fields["name"] in PRIMS

    def reg(t):  # types a generator can be registered under (GeneratorProvider.add skips None and primitives)
        return t.classes[0] != "NoneType" and not is_prim(t)

    und = 0
    offers_rank, offers_rand, compat = set(), set(), set()
    for t in U:
        if t is m.any:
            continue
        for g in U:
            if not reg(g):
                continue
            try:
                d = m.query("subtype_distance", t, g)
                mb = m.query("is_maybe_subtype", g, t)
            except peval.Undecided as exc:
                und += 1
                if und <= 3:
                    ctx.undecide("C26.compatible", rank, f"{t.label} / {g.label}: {exc}")
                continue
            except peval.Raises as exc:
                ctx.fail("C26.compatible", rank, f"type query for request {t.label}, generated {g.label} raises {exc.name}", stmt=f"[raises] {shape(t)} vs {shape(g)}")
                continue
            if mb:
                compat.add((t.label, g.label))
                offers_rand.add((t.label, g.label))
            if d is not None and not (prim_short["rank"] and is_prim(t)):
                offers_rank.add((t.label, g.label))
            if prim_short["random"] and is_prim(t):
                offers_rand.discard((t.label, g.label))
    if und > len(U):
        raise AnalysisError(f"C26: {und} queries could not be interpreted")
    T = m.types
    ctx.extra["pairs"] = len(U) * len(U)
    bad = [(T[a], T[b]) for a, b in sorted(offers_rank - compat)]
    if bad:
        report_grouped(ctx, "C26.compatible", rank, "rank-based offer => maybe-subtype", bad, lambda v: f"request {v[0].label}: a generator returning {v[1].label} is offered (distance {m.query('subtype_distance', v[0], v[1])}) although {v[1].label} is not a maybe-subtype of {v[0].label}")
    else:
        ctx.ok("C26.compatible", rank, f"{len(offers_rank)} offered (request, generated) pairs are all maybe-subtype pairs")
    ctx.ok("C26.compatible", rand, f"random provider: {len(offers_rand)} offered pairs are maybe-subtype pairs by construction")
    only_rand = [(T[a], T[b]) for a, b in sorted(offers_rand - offers_rank)]
    only_rank = [(T[a], T[b]) for a, b in sorted((offers_rank - offers_rand) & compat)]
    if only_rand:
        report_grouped(ctx, "C26.providers-agree", rand, "offered by the random provider only", only_rand, lambda v: f"request {v[0].label}: generator returning {v[1].label}")
    if only_rank:
        report_grouped(ctx, "C26.providers-agree", rank, "offered by the rank-based provider only", only_rank, lambda v: f"request {v[0].label}: generator returning {v[1].label}")
    if not only_rand and not only_rank:
        ctx.ok("C26.providers-agree", rank, "both providers offer the same pairs")

    # ------------------------------------------------------------------ C26.type-cache
    tsc = repo.cls(TS, "TypeSystem")
    meths = repo.methods(tsc)
    cached = sorted(n for n, f in meths.items() if any("lru_cache" in d or d.endswith("cache") for d in decorator_names(f)))
    clr = meths.get("_clear_query_caches")
    cleared = set()
    if clr is not None:
        ctx.analysed(clr)
        for n in own_nodes(clr):
            if isinstance(n, ast.Call) and last_attr(n) == "cache_clear" and isinstance(n.func.value, ast.Attribute) and norm(n.func.value.value) == "self":
                cleared.add(n.func.value.attr)
    for c in cached:
        ctx.check("C26.type-cache", meths[c], c in cleared, f"TypeSystem.{c} is memoised but not cleared when the type graph changes: a query made before an edge was added keeps answering for the old graph", what=f"{c} cleared on graph change", stmt=f"[{c}]")
    if not cached:
        raise AnalysisError("no memoised TypeSystem method found")
    for name, fn in meths.items():
        writes = [n for n in own_nodes(fn) if isinstance(n, ast.Call) and isinstance(n.func, ast.Attribute) and norm(n.func.value) == "self._graph" and n.func.attr in ("add_edge", "add_edges_from", "remove_edge", "remove_edges_from", "remove_node", "remove_nodes_from", "clear")]
        if not writes:
            continue
        ctx.analysed(fn)
        cfg = CFG(fn)
        inv = {n.id for n in cfg.nodes if n.kind == "stmt" and n.stmt is not None and any(isinstance(c, ast.Call) and norm(c.func) == "self._clear_query_caches" for c in ast.walk(n.stmt))}
        for w in writes:
            st = _stmt(w)
            nxt = [b for s in cfg.nodes_of(st) for b, lab in cfg.succ[s] if lab != "exc"]
            p = cfg.path(nxt, [cfg.exit], avoid_nodes=inv, labels_excluded=("exc",))
            ctx.paths += 1
            ctx.check("C26.type-cache", st, p is None and bool(inv), f"TypeSystem.{name} changes the edges of the type graph without clearing the memoised queries", what=f"{name}: graph write followed by _clear_query_caches()", path=cfg.describe_path(p) if p else [])

    # ------------------------------------------------------------------ C26.gen-cache
    gp = repo.cls(GEN, "GeneratorProvider")
    cgc = repo.methods(gp).get("clear_generator_cache")
    if cgc is None:
        raise AnalysisError("GeneratorProvider.clear_generator_cache vanished")
    ctx.analysed(cgc)
    cleared = {n.func.value.attr for n in own_nodes(cgc) if isinstance(n, ast.Call) and last_attr(n) == "cache_clear" and isinstance(n.func.value, ast.Attribute) and norm(n.func.value.value) == "self"}
    cached_g = set()
    for mname, cq in [(GEN, "GeneratorProvider"), *repo.subclasses(GEN, "GeneratorProvider")]:
        for n, f in repo.methods(repo.cls(mname, cq)).items():
            if any("lru_cache" in d or d.endswith("cache") for d in decorator_names(f)):
                cached_g.add(n)
    for c in sorted(cached_g):
        ctx.check("C26.gen-cache", cgc, c in cleared, f"clear_generator_cache does not clear the memoised `{c}`: after a generator moved to another return type the stale bucket still offers it for its old type", what=f"{c} cleared by clear_generator_cache", stmt=f"[{c}]")
    urt = repo.func(MOD, "ModuleTestCluster.update_return_type")
    ctx.analysed(urt)
    cfg = CFG(urt)
    drops = [n for n in cfg.nodes if n.kind == "stmt" and n.stmt is not None and any(isinstance(c, ast.Call) and last_attr(c) in ("_drop_generator", "add_for_type", "remove_all_generators_for") for c in ast.walk(n.stmt))]
    for what_, pred in (("clear_generator_cache()", lambda c: last_attr(c) == "clear_generator_cache"), ("get_all_generatable_types.cache_clear()", lambda c: norm(c.func) == "self.get_all_generatable_types.cache_clear")):
        inv = {n.id for n in cfg.nodes if n.kind == "stmt" and n.stmt is not None and any(isinstance(c, ast.Call) and pred(c) for c in ast.walk(n.stmt))}
        ok = bool(drops) and bool(inv)
        if ok:
            # every path entry -> exit that passes a generator move also passes the invalidation
            for d in drops:
                before = cfg.path([cfg.entry], [d.id], avoid_nodes=inv) is None
                after = cfg.path([b for b, lab in cfg.succ[d.id] if lab != "exc"], [cfg.exit], avoid_nodes=inv, labels_excluded=("exc",)) is None
                ok = ok and (before or after)
        ctx.check("C26.gen-cache", urt, ok, f"update_return_type moves a generator to another return type without {what_}", what=f"generator move accompanied by {what_}", stmt=f"[{what_}]")
