"""C02 — reported line coverage equals the lines the interpreter executed.

Decides the plumbing clauses:
 * C02.id-flow     the id a probe reports is the id register_line returned for (code object, file of the
                   code object, line of the probed instruction), in every effective visit_line;
 * C02.which-line  should_instrument_line, interpreted per version over representative instructions: an
                   instruction without a line is never probed (no line `None`), a new line is, the same
                   line is not probed twice in a row, the function prologue (RESUME, RETURN_GENERATOR) is not;
 * C02.every-instr the probe loop of visit_node looks at every instruction of the block (no break / return
                   inside the loop; `continue` only for excluded lines), and probes are spliced before the
                   instruction that starts the line;
 * C02.enabled     every tracer callback reachable from instrumented code records only while tracing is
                   enabled (the _early_return guard, or the same two tests inline);
 * C02.api         every InstrumentationMethodCall names a method of InstrumentationExecutionTracer with
                   that many parameters, which forwards them in order to the same-named ExecutionTracer method;
 * C02.metric      compute_line_coverage divides the lines the tracer collected by the registered lines;
                   covered_line_ids is written by track_line_visit (and merge) only.
Not decided: that "first instruction of a line within a basic block" visits exactly the lines the
interpreter's LINE events report for arbitrary control flow (a fact about CPython's line table).
Further clauses (added later): C02.isolation interprets init_trace / analyze_results over ExecutionTrace
objects: every execution gets a private copy of the import trace, stored traces of results are never used as
accumulator.
"""

from __future__ import annotations

import ast

from sa.checks import _instr as I
from sa.engine import peval
from sa.engine.index import inorm, AnalysisError, norm, own_nodes, parent

TR = "pynguin.instrumentation.tracer"
FM = "pynguin.ga.fitness_metrics"


def check(ctx) -> None:
    repo = ctx.repo
    ctx.rule("C02.id-flow", "DATAFLOW: track_line_visit reports the id register_line returned for (code object, file, line of the instruction)", floor=5)
    ctx.rule("C02.which-line", "ABSINT: should_instrument_line per version over representative instructions", floor=30)
    ctx.rule("C02.every-instr", "the probe loop considers every instruction of a block; probes go before the instruction", floor=10)
    ctx.rule("C02.enabled", "GUARD: tracer callbacks record only while tracing is enabled", floor=10)
    ctx.rule("C02.api", "TABLE-AGREE: instrumentation method calls match the tracer's methods (existence, arity, forwarding order)", floor=40)
    ctx.rule("C02.isolation", "ABSINT: init_trace gives every execution a private copy of the import trace (no container shared; lines of one execution do not reach the next or the import trace); analyze_results leaves the stored trace of every result untouched and never hands one out as the accumulator", floor=3)
    ctx.rule("C02.metric", "WHO-MAY + shape: line coverage = |covered_line_ids| / |existing_lines|; covered_line_ids written by track_line_visit only", floor=3)
    for v in I.VERSIONS:
        _visit_line(ctx, repo, v)
        _which_line(ctx, repo, v)
        _api(ctx, repo, v)
    _enabled(ctx, repo)
    _metric(ctx, repo)
    _isolation(ctx, repo)


# ------------------------------------------------------------------------------------------------ id flow and loop shape
def _visit_line(ctx, repo, v) -> None:
    fns = {f.name: f for f in I.effective_functions(repo, v, "LineCoverageInstrumentation")}
    vl, vn = fns.get("visit_line"), fns.get("visit_node")
    if vl is None or vn is None:
        raise AnalysisError(f"{v}: LineCoverageInstrumentation.visit_line / visit_node vanished")
    ctx.analysed(vl)
    ctx.analysed(vn)
    reg = [s for s in own_nodes(vl) if isinstance(s, ast.Assign) and isinstance(s.value, ast.Call) and norm(s.value.func).endswith("register_line")]
    ok = len(reg) == 1
    why = "visit_line does not bind the result of exactly one register_line call"
    if ok:
        var = norm(reg[0].targets[0])
        meta = reg[0].value.args[0] if reg[0].value.args else None
        kws = {k.arg: norm(k.value) for k in meta.keywords} if isinstance(meta, ast.Call) else {}
        ok = kws.get("file_name") == "cfg.bytecode_cfg.filename" and kws.get("line_number") == "instr.lineno" and kws.get("code_object_id") == "code_object_id"
        why = f"the line is registered as {kws}: not (code_object_id, file of the code object, line of the probed instruction)"
        if ok:
            sites = [s for s in I.sites_in(vl) if s.method == "track_line_visit"]
            ok = len(sites) == 1
            why = "visit_line does not splice exactly one track_line_visit call"
            if ok:
                s = sites[0]
                args = s.call.args[1].args[2].elts if isinstance(s.call.args[1], ast.Call) else []
                ok = len(args) == 1 and isinstance(args[0], ast.Call) and args[0].keywords and norm(args[0].keywords[0].value) == var
                why = f"the probe reports `{norm(args[0]) if args else '?'}` instead of the registered id `{var}`"
                if ok:
                    ok = s.placement == "before" and norm(s.index_expr) == "instr_index" and s.action == "NO_ACTION"
                    why = f"the probe is spliced {s.placement}({norm(s.index_expr) if s.index_expr is not None else ''}) with {s.action}: not in front of the instruction that starts the line"
    ctx.check("C02.id-flow", vl, ok, f"[{v}] {why}", what=f"[{v}] visit_line reports the id registered for the probed instruction's line", stmt=f"[{v} id-flow]")
    # loop shape
    loop = next((n for n in own_nodes(vn) if isinstance(n, ast.For) and "instrumentation_original_instructions" in norm(n.iter)), None)
    if loop is None:
        ctx.fail("C02.every-instr", vn, f"[{v}] visit_node no longer iterates node.instrumentation_original_instructions", stmt=f"[{v} loop]")
        return
    bad = []
    for n in ast.walk(loop):
        if isinstance(n, (ast.Break, ast.Return)):
            bad.append(f"{type(n).__name__.lower()} at line {n.lineno}")
        if isinstance(n, ast.Continue):
            g = parent(n)
            t = norm(g.test) if isinstance(g, ast.If) else "?"
            lineless = any(t in (f"not isinstance({lv_}.lineno, int)", f"{lv_}.lineno is None", f"{lv_}.lineno is None or {lv_}.lineno is UNSET") for lv_ in {x.id for x in ast.walk(loop.target) if isinstance(x, ast.Name)})
            if "should_cover_line" not in t and not lineless:
                bad.append(f"continue under `{t[:60]}`")
    ctx.check("C02.every-instr", loop, not bad, f"[{v}] the probe loop of visit_node leaves or skips instructions ({'; '.join(bad)}): lines that start later in the block (e.g. in a handler block that begins with a line-less instruction) get no probe although they are registered elsewhere", what=f"[{v}] every instruction of the block is considered", stmt=f"[{v} loop shape]")
    calls = [c for c in ast.walk(loop) if isinstance(c, ast.Call) and norm(c.func) == "self.visit_line"]
    guard_ok = False
    for c in calls:
        g = parent(parent(c))
        loop_names = {x.id for x in ast.walk(loop.target) if isinstance(x, ast.Name)}
        tests = (g.test.values if isinstance(g.test, ast.BoolOp) and isinstance(g.test.op, ast.And) else [g.test]) if isinstance(g, ast.If) else []
        for t in tests:
            if isinstance(t, ast.Call) and norm(t.func) == "self.should_instrument_line" and len(t.args) == 2 and isinstance(t.args[0], ast.Name) and t.args[0].id in loop_names and isinstance(t.args[1], ast.Name):
                lv, last = t.args[0].id, t.args[1].id  # the instruction of this iteration, the variable that remembers the line probed last
                guard_ok = any(isinstance(s, ast.Assign) and norm(s.targets[0]) == last and norm(s.value) == f"{lv}.lineno" for s in g.body)
    ctx.check("C02.every-instr", loop, bool(calls) and guard_ok, f"[{v}] visit_node does not probe under `should_instrument_line(instr, lineno)` while remembering the probed line", what=f"[{v}] probe guarded by should_instrument_line, last line remembered", stmt=f"[{v} loop guard]")


def _which_line(ctx, repo, v) -> None:
    prologue = {"python3_10": [], "python3_11": ["RESUME", "RETURN_GENERATOR"]}.get(v, ["RESUME", "RETURN_GENERATOR"])
    for ad in ("LineCoverageInstrumentation", "CheckedCoverageInstrumentation"):
        modname = I.VMOD + v
        mro = [(repo.modules[m].classes[c], repo.modules[m]) for m, c in repo.mro(modname, ad)]
        rm = repo.resolve_method(modname, ad, "should_instrument_line")
        if rm is None:
            raise AnalysisError(f"{v}: {ad}.should_instrument_line vanished")
        ctx.analysed(rm[2])

        def ask(name, line, last):
            it = peval.Interp(resolver=peval.repo_resolver(repo), max_steps=20000)
            obj = peval.Obj(ad, classes=[c.name for c, _m in mro])
            obj.mro = mro
            for cdef, cmod in reversed(mro):
                for st in cdef.body:
                    if isinstance(st, ast.FunctionDef) and st.name == "should_instrument_line":
                        obj.methods[st.name] = (lambda f, m: (lambda *a, **k: it.run_function(f, [obj, *a], k, m)))(st, cmod)
            instr = peval.Obj("Instr", fields={"name": name, "lineno": line, "arg": 0}, classes=["Instr"])
            return obj.methods["should_instrument_line"](instr, last)

        cases = [("LOAD_FAST", None, 3, False, "an instruction without a line is not probed (no line `None`)"),
                 ("LOAD_FAST", None, None, False, "a line-less first instruction is not probed"),
                 ("LOAD_FAST", 5, 3, True, "an instruction on a new line is probed"),
                 ("LOAD_FAST", 5, None, True, "the first line of a block is probed"),
                 ("LOAD_FAST", 5, 5, False, "the same line is not probed twice in a row"),
                 ("STORE_FAST", 4, 5, True, "a line further up (loop header, finally copy) is probed again")]
        cases += [(p, 1, None, False, f"the prologue instruction {p} (line of the def) is not probed") for p in prologue]
        for name, line, last, want, what in cases:
            tag = f"[{v} {ad.replace('Instrumentation', '')} {name} line={line} last={last}]"
            try:
                got = ask(name, line, last)
            except (peval.Undecided, peval.Raises) as exc:
                ctx.undecide("C02.which-line", rm[2], f"{tag}: {exc}")
                continue
            ctx.check("C02.which-line", rm[2], bool(got) is want, f"{tag}: should_instrument_line answers {got!r}; {what}", what=f"{tag} -> {want}", stmt=tag)


# ------------------------------------------------------------------------------------------------ API agreement
def _api(ctx, repo, v) -> None:
    iet = repo.cls(TR, "InstrumentationExecutionTracer")
    et = repo.cls(TR, "ExecutionTracer")
    imeths, emeths = repo.methods(iet), repo.methods(et)
    prov = repo.cls("pynguin.analyses.constants", "DynamicConstantProvider")
    pmeths = repo.methods(prov)
    seen = set()
    for ad in I.ADAPTERS:
        for fn in I.effective_functions(repo, v, ad):
            for s in I.sites_in(fn):
                key = (s.method, len(s.arg_alts), ad == "DynamicSeedingInstrumentation")
                if key in seen:
                    continue
                seen.add(key)
                tag = f"[{v} {ad.replace('Instrumentation', '')}.{fn.name} -> {s.method}/{len(s.arg_alts)}]"
                if ad == "DynamicSeedingInstrumentation":
                    m = pmeths.get(s.method)
                    ok = m is not None and len(m.args.args) - 1 == len(s.arg_alts)
                    ctx.check("C02.api", s.call, ok, f"{tag}: DynamicConstantProvider has no method `{s.method}` with {len(s.arg_alts)} parameter(s): the spliced call raises in the module under test", what=f"{tag}: provider method exists with that arity", stmt=tag)
                    continue
                m = imeths.get(s.method)
                e = emeths.get(s.method)
                if m is None or e is None:
                    ctx.fail("C02.api", s.call, f"{tag}: the tracer has no method `{s.method}`: the spliced call raises AttributeError in the module under test", stmt=tag)
                    continue
                ips = [a.arg for a in m.args.args][1:]
                eps = [a.arg for a in e.args.args][1:]
                fwd = next((c for c in own_nodes(m) if isinstance(c, ast.Call) and norm(c.func) == f"self._tracer.{s.method}"), None)
                fargs = None
                if fwd is not None:
                    # bind the forwarded expressions to the parameters of the target (positional, then keywords)
                    fargs = {eps[i]: norm(a) for i, a in enumerate(fwd.args) if i < len(eps)}
                    fargs.update({k.arg: norm(k.value) for k in fwd.keywords if k.arg})
                    fargs = [fargs.get(p_) for p_ in eps]
                body = [st for st in m.body if not (isinstance(st, ast.Expr) and isinstance(st.value, ast.Constant))]
                pure = len(body) == 1 and isinstance(body[0], (ast.Expr, ast.Return)) and body[0].value is fwd
                ctx.check("C02.api", m, pure, f"{tag}: InstrumentationExecutionTracer.{s.method} is not a plain forwarder (it has state, a condition or an early return of its own): calls made by the instrumented module are dropped or altered before they reach the tracer that holds the trace", what=f"{tag}: the proxy method only forwards", stmt=f"{tag} pure")
                ok = len(ips) == len(s.arg_alts) and fargs == ips and eps == ips
                ctx.check("C02.api", s.call, ok, f"{tag}: InstrumentationExecutionTracer.{s.method}({', '.join(ips)}) forwards {fargs} to ExecutionTracer.{s.method}({', '.join(eps)}); the template passes {len(s.arg_alts)} argument(s)", what=f"{tag}: arity and forwarding order agree", stmt=tag)


# ------------------------------------------------------------------------------------------------ enabled guard
def _enabled(ctx, repo) -> None:
    er = repo.func(TR, "_early_return")
    ctx.analysed(er)
    wrapper = next((n for n in own_nodes(er, include_nested=True) if isinstance(n, ast.FunctionDef) and n.name == "wrapper"), None)
    ok = False
    if wrapper is not None:
        first = [s for s in wrapper.body if not (isinstance(s, ast.Expr) and isinstance(s.value, ast.Constant))]
        ok = len(first) >= 3 and isinstance(first[0], ast.If) and norm(first[0].test) == "self.is_disabled()" and isinstance(first[0].body[0], ast.Return) and norm(first[1]) == "self.check()" and "func(self" in norm(first[2])
    ctx.check("C02.enabled", er, ok, "_early_return no longer returns before the callback when tracing is disabled (and checks the owning thread)", what="_early_return: disabled -> return; check(); callback", stmt="[_early_return]")
    et = repo.cls(TR, "ExecutionTracer")
    iet = repo.cls(TR, "InstrumentationExecutionTracer")
    for name, m in repo.methods(iet).items():
        if not (name.startswith("executed_") or name.startswith("track_")):
            continue
        e = repo.methods(et).get(name)
        if e is None:
            continue
        ctx.analysed(e)
        deco = any(norm(d) == "_early_return" for d in e.decorator_list)
        inline = False
        body = [s for s in e.body if not (isinstance(s, ast.Expr) and isinstance(s.value, ast.Constant))]
        if body and isinstance(body[0], ast.If) and norm(body[0].test) == "self.is_disabled()" and isinstance(body[0].body[0], ast.Return):
            inline = True
        ctx.check("C02.enabled", e, deco or inline, f"ExecutionTracer.{name} records although tracing is disabled (no _early_return, no `if self.is_disabled(): return` first): what pynguin itself executes between disable() and enable() is reported as coverage of the module under test", what=f"{name} records only while enabled", stmt=f"[{name} enabled]")


# ------------------------------------------------------------------------------------------------ metric
def _isolation(ctx, repo, rule: str = "C02.isolation") -> None:
    """init_trace / analyze_results interpreted over traces built from the ExecutionTrace class: what one execution
    (or one suite evaluation) records must not reach the import trace, an earlier result or another test's result -
    no mutable container is shared and no stored trace is used as the accumulator."""
    from sa.checks.c07 import OSet
    from sa.engine import peval

    tmod = repo.module(TR)
    cres = peval.repo_class_resolver(repo, only={"ExecutionTrace", "ExecutedAssertion", "ExecutionTracer", "AbstractExecutionTracer"})
    CONTAINERS = ("executed_code_objects", "executed_predicates", "true_distances", "false_distances", "covered_line_ids", "executed_instructions", "object_addresses", "executed_assertions", "checked_lines")

    def replace_(obj, **changes):  # dataclasses.replace: a new instance, unchanged fields are the same objects
        new = peval.Obj(obj.label, fields={**obj.fields, **changes}, classes=list(obj.classes))
        new.methods, new.props, new.mro = dict(obj.methods), dict(obj.props), getattr(obj, "mro", None)
        return new

    def interp():
        return peval.Interp(resolver=peval.repo_resolver(repo), class_resolver=cres, externs={"OrderedSet": OSet, "replace": replace_, "dataclasses.replace": replace_}, native_types=(OSet,))

    def trace(it, lines, code=()):
        return it.instantiate("ExecutionTrace", cres("ExecutionTrace", tmod), [], {"executed_code_objects": OSet(code), "executed_predicates": {}, "true_distances": {}, "false_distances": {}, "covered_line_ids": OSet(lines),
                                                                                    "executed_instructions": [], "object_addresses": OSet(), "executed_assertions": [], "checked_lines": OSet()}, init=False)

    # --- the tracer: two executions after the import
    fn = repo.func(TR, "ExecutionTracer.init_trace")
    ctx.analysed(fn)
    try:
        it = interp()
        imp = trace(it, [1], [0])
        tracer = it.instantiate("ExecutionTracer", cres("ExecutionTracer", tmod), [], {"_import_trace": imp, "_thread_local_state": peval.Obj("tls", fields={"trace": trace(it, [99]), "enabled": True})}, init=False)
        tracer.methods["init_trace"]()
        first = tracer.fields["_thread_local_state"].fields["trace"]
        shared = [f for f in CONTAINERS if first.fields.get(f) is imp.fields.get(f)]
        first.fields["covered_line_ids"].add(7)           # what track_line_visit does during the first execution
        first.fields["executed_code_objects"].add(5)
        tracer.methods["init_trace"]()
        second = tracer.fields["_thread_local_state"].fields["trace"]
        got = (sorted(second.fields["covered_line_ids"]), sorted(second.fields["executed_code_objects"]), sorted(imp.fields["covered_line_ids"]))
        ok = first is not imp and second is not first and not shared and got == ([1], [0], [1])
        ctx.check(rule, fn, ok, f"init_trace: the trace of an execution shares {shared or 'nothing'} with the import trace; after an execution that covered line 7, the next execution starts with lines {got[0]} / code objects {got[1]} and the import trace holds lines {got[2]} (expected [1] / [0] / [1]): lines of earlier executions are reported for later ones", what="every execution starts from a private copy of the import trace", stmt="[init_trace]")
    except (peval.Undecided, peval.Raises) as exc:
        ctx.undecide(rule, fn, f"init_trace: {exc}")
    # --- the suite: merging the results of several tests must leave each result as it was
    ar = repo.func(FM, "analyze_results")
    ctx.analysed(ar)
    try:
        it = interp()
        t1, t2, t3 = trace(it, [1, 2]), trace(it, [3]), trace(it, [4, 5])
        t1.fields["true_distances"][0], t1.fields["false_distances"][0], t1.fields["executed_predicates"][0] = 0.0, 2.0, 1     # test 1 took the true outcome only
        t2.fields["true_distances"][0], t2.fields["false_distances"][0], t2.fields["executed_predicates"][0] = 3.0, 0.0, 1     # test 2 the false outcome only
        results = [peval.Obj(f"result{i}", fields={"execution_trace": t}) for i, t in enumerate((t1, t2, t3))]
        merged = it.run_function(ar, [results], {}, repo.module(FM))
        per_test = [sorted(t.fields["covered_line_ids"]) for t in (t1, t2, t3)]
        outcomes = [(t.fields["true_distances"].get(0), t.fields["false_distances"].get(0)) for t in (t1, t2)]
        ok = merged is not t1 and merged is not t2 and merged is not t3 and per_test == [[1, 2], [3], [4, 5]] and sorted(merged.fields["covered_line_ids"]) == [1, 2, 3, 4, 5] and outcomes == [(0.0, 2.0), (3.0, 0.0)] and (merged.fields["true_distances"].get(0), merged.fields["false_distances"].get(0)) == (0.0, 0.0)
        ctx.check(rule, ar, ok, f"analyze_results: after merging three results their own traces hold lines {per_test} (expected [[1, 2], [3], [4, 5]]), the (true, false) distances of predicate 0 in tests 1 and 2 are {outcomes} (expected [(0.0, 2.0), (3.0, 0.0)]) and the merged trace {'is one of them' if any(merged is t for t in (t1, t2, t3)) else 'is a new one'}: a test case then reports lines and branch outcomes that only other tests of the suite took", what="merging leaves every result's own trace untouched", stmt="[analyze_results]")
        single = it.run_function(ar, [[results[1]]], {}, repo.module(FM))
        single.fields["covered_line_ids"].add(42)
        ctx.check(rule, ar, sorted(t2.fields["covered_line_ids"]) == [3], "analyze_results hands out the stored trace of a single result: whoever merges into the returned trace changes the cached result", what="a single result is copied, too", stmt="[analyze_results single]")
    except (peval.Undecided, peval.Raises) as exc:
        ctx.undecide(rule, ar, f"analyze_results: {exc}")


def _metric(ctx, repo) -> None:
    fn = repo.func(FM, "compute_line_coverage")
    ctx.analysed(fn)
    text = " ".join(norm(s) for s in fn.body)
    ok = any(isinstance(n, ast.BinOp) and isinstance(n.op, ast.Div) and inorm(fn, n) == "len(trace.covered_line_ids) / len(subject_properties.existing_lines)" for n in own_nodes(fn))
    ctx.check("C02.metric", fn, ok, "compute_line_coverage is no longer |trace.covered_line_ids| / |subject_properties.existing_lines|", what="line coverage = covered ids / registered ids", stmt="[metric]")
    writers = []
    for mod, qn, f in repo.all_functions():
        for c in own_nodes(f):
            if isinstance(c, ast.Call) and isinstance(c.func, ast.Attribute) and c.func.attr in ("add", "update", "remove", "discard", "clear") and norm(c.func.value).endswith("covered_line_ids"):
                writers.append((mod.name, qn, c))
            if isinstance(c, ast.Assign) and any(norm(t).endswith("covered_line_ids") for t in c.targets):
                writers.append((mod.name, qn, c))
    allowed = {("pynguin.instrumentation.tracer", "ExecutionTrace.merge"), ("pynguin.instrumentation.tracer", "ExecutionTracer.track_line_visit")}
    extra = [(m, q) for m, q, _c in writers if (m, q) not in allowed]
    ctx.check("C02.metric", fn, not extra and {(m, q) for m, q, _c in writers} >= {("pynguin.instrumentation.tracer", "ExecutionTracer.track_line_visit")}, f"covered_line_ids is written by {sorted(set(extra))}: lines are reported that no probe visited", what="covered_line_ids written by track_line_visit and merge only", stmt="[writers]")
    tlv = repo.func(TR, "ExecutionTracer.track_line_visit")
    ctx.analysed(tlv)
    adds = [c for c in own_nodes(tlv) if isinstance(c, ast.Call) and norm(c.func).endswith("covered_line_ids.add")]
    ctx.check("C02.metric", tlv, len(adds) == 1 and norm(adds[0].args[0]) == tlv.args.args[1].arg and "_thread_local_state.trace" in norm(adds[0].func), "track_line_visit does not add exactly the reported line id to the current thread's trace", what="track_line_visit adds line_id to the thread-local trace", stmt="[track_line_visit]")
