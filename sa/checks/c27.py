"""C27 — the test cluster holds exactly the module's eligible callables.

Decides the gatekeeping clauses: a callable is registered as *under test* only under
`add_to_test`, which at every call site is `<element>.__module__ == root_module_name`;
registration of functions and methods is dominated by the visibility test (interpreted over
names x visibility x owner against Python's own mangling, lambdas under their assigned name) and by the
configured ignore lists (read afresh from the configuration, never cached); a method
counts as the class's own only when its defining class is positively resolved to that class.
Which members `inspect` enumerates for arbitrary modules is not decided.
Further clauses (added later): C27.lambda interprets _get_lambda_assigned_name over single-line, parenthesised
and continued module-level lambdas.
"""

from __future__ import annotations

import ast
import re

from sa.engine.cfg import CFG
from sa.engine.guards import nnf, unguarded_path
from sa.engine.index import AnalysisError, decorator_names, last_attr, norm, own_nodes, parent

M = "pynguin.analyses.module"
CONFIG_KEYS = ("ignore_methods", "ignore_modules", "element_visibility")


def _stmt(n):
    while n is not None and not isinstance(n, ast.stmt):
        n = parent(n)
    return n


def _neg_call(name_pred):
    def pred(lit):
        _k, e, pol = lit
        return (not pol) and isinstance(e, ast.Call) and name_pred(e)

    return pred


def _reads_config(mod, fn, seen=None) -> list[str]:
    seen = seen if seen is not None else set()
    if id(fn) in seen:
        return []
    seen.add(id(fn))
    out = []
    for n in own_nodes(fn):
        if isinstance(n, ast.Attribute) and n.attr in CONFIG_KEYS and norm(n.value).endswith("configuration"):
            out.append(norm(n))
        if isinstance(n, ast.Call) and isinstance(n.func, ast.Name) and n.func.id in mod.functions:
            out += _reads_config(mod, mod.functions[n.func.id], seen)
    return out


def _visibility_table(ctx, repo) -> None:
    """Interpret __should_skip_by_visibility over names x visibility x (function | method of a class)
    against Python's own naming rules (the mangled attribute names come from real classes)."""
    import enum
    import inspect

    from sa.engine import peval

    class Vis(enum.Enum):
        PUBLIC = 1
        PROTECTED = 2
        ALL = 3

    class A_B:
        def __secret(self): ...
        def _prot(self): ...
        def _load__cfg(self): ...
        def pub(self): ...
        def __call__(self): ...

    class _Under(A_B):
        def __own(self): ...

    class Plain9:
        def __x(self): ...
        def _Other__looks_mangled(self): ...

    def private(n):
        return n.startswith("__") and not n.endswith("__")

    def protected(n):
        return n.startswith("_") and not n.startswith("__")

    cases = [(n, None, False) for n in ("public", "_prot", "__priv", "__dunder__", "_load__config", "_Foo__helper", "_", "x__y")]
    for cls in (A_B, _Under, Plain9):
        for attr, fn in inspect.getmembers(cls, inspect.isfunction):
            cases.append((attr, cls, attr != fn.__name__ and private(fn.__name__)))
    sv = repo.func(M, "__should_skip_by_visibility")
    ctx.analysed(sv)
    mod = repo.module(M)
    for vis in Vis:
        for add_to_test in (True, False):
            for name, owner, mangled in cases:
                if not add_to_test or vis is Vis.PUBLIC:
                    want = private(name) or protected(name)
                elif vis is Vis.ALL:
                    want = False
                else:
                    want = private(name) or mangled
                label = f"[{vis.name} add_to_test={add_to_test}] {owner.__name__ + '.' if owner else ''}{name}"
                it = peval.Interp(resolver=peval.repo_resolver(repo), native_types=(type, re.Pattern), externs={"inspect.getmro": inspect.getmro},
                                  consts={"config.configuration.element_visibility": vis, "ElementVisibility.ALL": Vis.ALL, "ElementVisibility.PROTECTED": Vis.PROTECTED, "ElementVisibility.PUBLIC": Vis.PUBLIC})
                kwargs = {"add_to_test": add_to_test}
                if owner is not None and any(a.arg == "owner" for a in sv.args.kwonlyargs + sv.args.args):
                    kwargs["owner"] = owner
                try:
                    got = bool(it.run_function(sv, [name], kwargs, mod))
                except (peval.Undecided, peval.Raises) as exc:
                    ctx.undecide("C27.visibility", sv, f"{label}: {exc}")
                    continue
                ctx.check("C27.visibility", sv, got == want, f"{label}: skipped={got}, by the naming rules (private = two leading underscores and no trailing pair, protected = one leading underscore, mangled = a class-private name as Python stores it on the class) it is {want}: the callable is " + ("missing from" if got else "wrongly part of") + " the callables under test", what=label, stmt=label)


def check(ctx) -> None:
    repo = ctx.repo
    ctx.rule("C27.members", "ABSINT: the statements collecting a class's methods, interpreted with the real inspect / enum modules, find every function a plain class and an enum class define", floor=2)
    _member_discovery(ctx, repo)
    ctx.rule("C27.lambda", "ABSINT: _get_lambda_assigned_name finds the assigned name from the first line of the lambda's code object for single-line, parenthesised and continued module-level lambdas", floor=4)
    _lambda_names(ctx, repo)
    ctx.rule("C27.guard", "GUARD-DOM: every add_accessible_object_under_test call in the analysis functions is under `add_to_test`", floor=3)
    ctx.rule("C27.origin", "add_to_test is `<element>.__module__ == root_module_name` at every analysis entry and forwarded unchanged to the method analysis", floor=3)
    ctx.rule("C27.visibility", "registration of functions and methods is dominated by `not __should_skip_by_visibility(<unqualified name>, add_to_test=add_to_test)`; the visibility table matches its documentation", floor=6)
    ctx.rule("C27.ignored", "functions, classes and methods pass the configured ignore lists before registration; the lists are read from the configuration at call time (no cached reader)", floor=6)
    ctx.rule("C27.owner", "a method is analysed for a class only when its defining class is positively resolved to that class (no `is None` escape)", floor=2)

    mod = repo.module(M)
    funcs = {q: f for q, f in mod.functions.items()}
    # ------------------------------------------------------------------ C27.guard
    sites = []
    for qn, fn in funcs.items():
        if "." in qn:  # methods of cluster classes implement/forward the API
            continue
        for n in own_nodes(fn):
            if isinstance(n, ast.Call) and last_attr(n) == "add_accessible_object_under_test":
                sites.append((qn, fn, n))
    for qn, fn, n in sites:
        ctx.analysed(fn)
        cfg = CFG(fn)
        p = unguarded_path(cfg, cfg.nodes_of(_stmt(n)), lambda lit: lit[2] and norm(lit[1]) == "add_to_test")
        ctx.paths += 1
        ctx.check("C27.guard", _stmt(n), p is None and "add_to_test" in [a.arg for a in fn.args.kwonlyargs + fn.args.args], f"{qn}: an element is registered as under test without `add_to_test` being true: callables of other modules become test targets", what=f"{qn}: registration under add_to_test", path=cfg.describe_path(p) if p else [])

    # ------------------------------------------------------------------ C27.origin
    for qn, fn in funcs.items():
        for n in own_nodes(fn):
            if isinstance(n, ast.Call) and isinstance(n.func, ast.Name) and n.func.id in ("__analyse_class", "__analyse_function", "__analyse_method"):
                ctx.analysed(fn)
                kw = next((k.value for k in n.keywords if k.arg == "add_to_test"), None)
                if n.func.id == "__analyse_method":
                    ok = kw is not None and norm(kw) == "add_to_test"
                    ctx.check("C27.origin", n, ok, f"{qn} does not forward its own add_to_test to the method analysis (passes `{norm(kw) if kw is not None else None}`)", what=f"{qn} forwards add_to_test")
                else:
                    subj = next((norm(k.value) for k in n.keywords if k.arg in ("func",)), None)
                    ok = kw is not None and re.fullmatch(r"(\w+)\.__module__ == root_module_name", norm(kw)) is not None
                    if ok and subj is not None:
                        ok = norm(kw).startswith(subj + ".")
                    if ok and n.func.id == "__analyse_class":
                        # type_info is built from the same element
                        ti = [a for a in own_nodes(fn) if isinstance(a, ast.Assign) and norm(a.targets[0]) == "type_info"]
                        elem = norm(kw).split(".__module__")[0]
                        ok = bool(ti) and norm(ti[0].value).endswith(f"to_type_info({elem})")
                    ctx.check("C27.origin", n, ok, f"{qn}: add_to_test is `{norm(kw) if kw is not None else None}`, not `<analysed element>.__module__ == root_module_name`: elements defined elsewhere can be marked as under test", what=f"{qn}: add_to_test = element.__module__ == root_module_name")

    # ------------------------------------------------------------------ C27.visibility / C27.ignored (function + method)
    for qn, name_param in (("__analyse_function", "func_name"), ("__analyse_method", "method_name")):
        fn = repo.func(M, qn)
        ctx.analysed(fn)
        cfg = CFG(fn)
        regs = [n for n in own_nodes(fn) if isinstance(n, ast.Call) and last_attr(n) in ("add_accessible_object_under_test", "add_generator", "add_modifier")]
        if not regs:
            raise AnalysisError(f"{qn}: no registration call found")

        def vis(e, name_param=name_param):
            return norm(e.func) == "__should_skip_by_visibility" and e.args and norm(e.args[0]) == f"{name_param}.rpartition('.')[2]" and any(k.arg == "add_to_test" and norm(k.value) == "add_to_test" for k in e.keywords)

        for r in regs:
            p = unguarded_path(cfg, cfg.nodes_of(_stmt(r)), _neg_call(vis))
            ctx.paths += 1
            ctx.check("C27.visibility", _stmt(r), p is None, f"{qn}: `{norm(r)[:70]}` is reachable without the visibility test on the unqualified name having passed", what=f"{qn}: {last_attr(r)} dominated by the visibility test", path=cfg.describe_path(p) if p else [])
    am = repo.func(M, "__analyse_method")
    cfg = CFG(am)
    regs = [n for n in own_nodes(am) if isinstance(n, ast.Call) and last_attr(n) in ("add_accessible_object_under_test", "add_generator", "add_modifier")]
    for r in regs:
        p = unguarded_path(cfg, cfg.nodes_of(_stmt(r)), _neg_call(lambda e: norm(e.func) in ("__is_ignored_method", "_is_blacklisted") and e.args and norm(e.args[0]) == "method"))
        ctx.paths += 1
        ctx.check("C27.ignored", _stmt(r), p is None, f"__analyse_method: `{norm(r)[:70]}` is reachable for a method listed in ignore_methods (no ignore-list test on `method` dominates it)", what=f"__analyse_method: {last_attr(r)} dominated by the ignore-list test", path=cfg.describe_path(p) if p else [])
        p = unguarded_path(cfg, cfg.nodes_of(_stmt(r)), lambda lit: lit[2] and isinstance(lit[1], ast.Call) and norm(lit[1].func) == "__is_method_defined_in_class" and [norm(a) for a in lit[1].args] == ["type_info.raw_type", "method"])
        ctx.paths += 1
        ctx.check("C27.owner", _stmt(r), p is None, f"__analyse_method: `{norm(r)[:70]}` is reachable for a method that is not defined in the analysed class", what=f"__analyse_method: {last_attr(r)} dominated by the defining-class test", path=cfg.describe_path(p) if p else [])
    # ignore lists on the work lists
    for qn, pred_txt in (("__analyse_included_classes", "inspect.isclass(x)"), ("__analyse_included_functions", "_is_function(x)")):
        fn = repo.func(M, qn)
        ctx.analysed(fn)
        lam = [n for n in own_nodes(fn, include_nested=True) if isinstance(n, ast.Lambda)]
        ok = any(norm(l.body) == f"{pred_txt} and (not _is_blacklisted(x))" or norm(l.body) == f"{pred_txt} and not _is_blacklisted(x)" for l in lam)
        ctx.check("C27.ignored", fn, ok, f"{qn} no longer filters its work list by `not _is_blacklisted(x)`", what=f"{qn}: work list filtered by the blacklist")
    rd = repo.func(M, "__resolve_dependencies")
    ctx.analysed(rd)
    ok = any(isinstance(n, ast.If) and norm(n.test) == "_is_blacklisted(current_module)" and any(isinstance(x, ast.Continue) for x in n.body) for n in own_nodes(rd))
    ctx.check("C27.ignored", rd, ok, "__resolve_dependencies no longer skips blacklisted modules", what="blacklisted modules skipped")
    # freshness: no cached function (transitively) reads the ignore lists / visibility setting
    for qn, fn in funcs.items():
        decos = decorator_names(fn)
        if any("cache" in d for d in decos):
            reads = _reads_config(mod, fn)
            ctx.check("C27.ignored", fn, not reads, f"{qn} is memoised ({', '.join(decos)}) but reads {sorted(set(reads))}: the ignore lists / visibility of the first analysis in the process are reused for every later one", what=f"{qn}: cached function does not read the eligibility configuration")
    ib = repo.func(M, "_is_blacklisted")
    ctx.analysed(ib)
    reads = _reads_config(mod, ib)
    ctx.check("C27.ignored", ib, any("ignore_modules" in r for r in reads) and any("ignore_methods" in r for r in reads), "_is_blacklisted no longer consults config.configuration.ignore_modules / ignore_methods", what="_is_blacklisted reads both ignore lists at call time", stmt="[reads]")
    # module-level snapshots of the ignore lists
    for name, val in mod.assigns.items():
        txt = norm(val)
        ctx.check("C27.ignored", val, not any(k in txt for k in CONFIG_KEYS[:2]), f"module-level `{name}` snapshots the configured ignore list at import time", what=f"module constant {name} does not snapshot configuration") if "ignore_" in txt else None
    im = mod.functions.get("__is_ignored_method")
    if im is not None:
        ctx.analysed(im)
        r = [n for n in own_nodes(im) if isinstance(n, ast.Return)]
        ok = len(r) == 1 and isinstance(r[0].value, ast.Compare) and isinstance(r[0].value.ops[0], ast.In) and "ignore_methods" in norm(r[0].value.comparators[0])
        ctx.check("C27.ignored", im, ok, "__is_ignored_method is no longer a membership test in config.configuration.ignore_methods", what="__is_ignored_method: qualified name in ignore_methods")

    # ------------------------------------------------------------------ C27.visibility table (interpreted)
    _visibility_table(ctx, repo)
    # the name a callable is registered under may only be replaced by a name that passed the visibility test
    af = repo.func(M, "__analyse_function")
    cfg = CFG(af)
    for st in [n for n in own_nodes(af) if isinstance(n, ast.Assign) and norm(n.targets[0]) == "func_name"]:
        new_name = norm(st.value)
        p = unguarded_path(cfg, cfg.nodes_of(st), _neg_call(lambda e, new_name=new_name: norm(e.func) == "__should_skip_by_visibility" and e.args and norm(e.args[0]) == new_name and any(k.arg == "add_to_test" and norm(k.value) == "add_to_test" for k in e.keywords)))
        ctx.paths += 1
        ctx.check("C27.visibility", st, p is None, f"__analyse_function registers the callable under `{new_name}` (a lambda's assigned name) without the visibility test on that name having passed: `_hidden = lambda x: x` is under test at PUBLIC", what=f"renamed callable `{new_name}` passed the visibility test", path=cfg.describe_path(p) if p else None, stmt=f"[renamed] {new_name}")
    am_ = repo.func(M, "__analyse_method")
    vcalls = [c for c in own_nodes(am_) if isinstance(c, ast.Call) and norm(c.func) == "__should_skip_by_visibility"]
    ok = bool(vcalls) and all(any(k.arg == "owner" and "raw_type" in norm(k.value) for k in c.keywords) for c in vcalls)
    ctx.check("C27.visibility", vcalls[0] if vcalls else am_, ok, "__analyse_method does not hand the analysed class to the visibility test: a mangled name cannot be told from a protected one", what="__analyse_method passes the class as owner", stmt="[owner]")

    # ------------------------------------------------------------------ C27.owner
    dc = repo.func(M, "__is_method_defined_in_class")
    ctx.analysed(dc)
    r = [n for n in own_nodes(dc) if isinstance(n, ast.Return)]
    env = {norm(n.targets[0]): n.value for n in own_nodes(dc) if isinstance(n, ast.Assign)}

    def positive_owner(formula) -> bool:
        """Every way for the formula to be true requires class_ == <defining class>."""
        kind = formula[0]
        if kind == "lit":
            _k, e, pol = formula
            if not pol or not isinstance(e, ast.Compare) or not isinstance(e.ops[0], (ast.Eq, ast.Is)):
                return False
            sides = [e.left, e.comparators[0]]
            texts = []
            for s_ in sides:
                t = norm(env.get(norm(s_), s_))
                texts.append(t)
            return "class_" in texts and any(t.startswith("get_class_that_defined_method(method") for t in texts)
        if kind == "and":
            return any(positive_owner(f) for f in formula[1])
        return all(positive_owner(f) for f in formula[1])

    ok = len(r) == 1 and positive_owner(nnf(r[0].value))
    ctx.check("C27.owner", r[0] if r else dc, ok, f"`{norm(r[0].value) if r else '?'}` accepts a method without its defining class being resolved to the analysed class (e.g. an unresolvable owner counts as own): inherited or borrowed callables of other modules are attributed to the class under test", what="own method iff class_ == get_class_that_defined_method(method)")


def _lambda_names(ctx, repo) -> None:
    """_get_lambda_assigned_name, interpreted over module trees: for every module-level `name = lambda ...` the name is
    found from the line the lambda's code object starts on (co_firstlineno), also when the lambda starts on a later line
    than the assignment target."""
    from sa.engine import peval

    M = "pynguin.analyses.module"
    fn = repo.try_func(M, "_get_lambda_assigned_name")
    if fn is None:
        raise AnalysisError("anchor vanished: module._get_lambda_assigned_name")
    ctx.analysed(fn)
    mod = repo.module(M)
    src = ("one = lambda x: x\nwrapped = (\n    lambda v: v + 1\n)\ncontinued = \\\n    lambda: 3\n_hidden = lambda y: y\nplain = 5\n"
           "annotated: object = lambda: 3\nfirst = second = lambda: 4\nif plain:\n    conditional = lambda: 5\ntry:\n    tried = lambda: 6\nexcept Exception:\n    handled = lambda: 7\n"
           "def f():\n    local = lambda: 8\n    return local\n")
    tree = ast.parse(src)
    want = {}

    def module_level(stmts):
        for node in stmts:
            if isinstance(node, (ast.FunctionDef, ast.AsyncFunctionDef, ast.ClassDef)):
                continue
            if isinstance(node, (ast.Assign, ast.AnnAssign)) and isinstance(node.value, ast.Lambda):
                tg = node.targets[0] if isinstance(node, ast.Assign) else node.target
                want[node.value.lineno] = tg.id
                continue
            for field in ("body", "orelse", "finalbody"):
                module_level(getattr(node, field, []) or [])
            for h in getattr(node, "handlers", []) or []:
                module_level(h.body)

    module_level(tree.body)
    if len(want) != 9:
        raise AnalysisError(f"C27.lambda: the representative has {len(want)} module-level lambda assignments, expected 9")
    local_line = next(n.value.lineno for n in ast.walk(tree) if isinstance(n, ast.Assign) and isinstance(n.value, ast.Lambda) and n.targets[0].id == "local")
    for line, name in sorted(want.items()):
        tag = f"[lambda name] `{name}` (code object starts on line {line})"
        it = peval.Interp(resolver=peval.repo_resolver(repo), native_types=(ast.AST,), consts={"ast": ast, "Assign": ast.Assign, "Lambda": ast.Lambda, "FunctionDef": ast.FunctionDef, "AsyncFunctionDef": ast.AsyncFunctionDef, "ClassDef": ast.ClassDef}, max_steps=20000)
        try:
            got = it.run_function(fn, [tree, line], {}, mod)
        except (peval.Undecided, peval.Raises) as exc:
            ctx.undecide("C27.lambda", fn, f"{tag}: {exc}")
            continue
        ctx.check("C27.lambda", fn, got == name, f"{tag}: the lookup yields {got!r}: the eligible lambda gets no name and is silently left out of the test cluster (or is registered under another lambda's name)", what=f"{tag}: found", stmt=tag)
    it = peval.Interp(resolver=peval.repo_resolver(repo), native_types=(ast.AST,), consts={"ast": ast, "Assign": ast.Assign, "Lambda": ast.Lambda, "FunctionDef": ast.FunctionDef, "AsyncFunctionDef": ast.AsyncFunctionDef, "ClassDef": ast.ClassDef}, max_steps=20000)
    try:
        got = it.run_function(fn, [tree, 8], {}, mod)
        ctx.check("C27.lambda", fn, got is None, f"[lambda name] a line without lambda yields {got!r}", what="[lambda name] no lambda on the line -> None", stmt="[lambda name] none")
        got = it.run_function(fn, [tree, local_line], {}, mod)
        ctx.check("C27.lambda", fn, got is None, f"[lambda name] a lambda bound to a local of a function yields the module-level name {got!r}", what="[lambda name] a function's local lambda is no module attribute", stmt="[lambda name] local")
    except (peval.Undecided, peval.Raises) as exc:
        ctx.undecide("C27.lambda", fn, f"no-lambda line: {exc}")


class _ReprEnum(__import__("enum").Enum):
    RED = 1

    def describe(self):
        return self.name

    @staticmethod
    def parse(text):
        return _ReprEnum[text]


class _ReprPlain:
    def m(self):
        return 1

    @staticmethod
    def s():
        return 2


def _member_discovery(ctx, repo) -> None:
    """The statements that collect the methods of a class, interpreted with the real inspect / enum modules over a plain
    class and an enum class that defines methods (dir() of an enum class hides them): every function the class defines is
    found."""
    import enum as _enum
    import inspect as _inspect

    from sa.engine import peval

    mod = repo.module(M)
    target = None
    for _m, qn, fn in repo.all_functions(M):
        for st in own_nodes(fn):
            if isinstance(st, ast.Try) and any(isinstance(x, ast.Assign) and norm(x.targets[0]) == "methods_with_names" for x in st.body):
                target = (fn, st)
    if target is None:
        raise AnalysisError("C27.members: the statement collecting `methods_with_names` vanished")
    fn, tr = target
    ctx.analysed(fn)
    for cls, want in ((_ReprPlain, {"m", "s"}), (_ReprEnum, {"describe", "parse"})):
        tag = f"[members] {'an enum class' if issubclass(cls, _enum.Enum) else 'a plain class'} defining {sorted(want)}"
        ti = peval.Obj("type_info", fields={"raw_type": cls, "full_name": cls.__qualname__})
        env = {"type_info": ti}
        it = peval.Interp(resolver=peval.repo_resolver(repo), native_types=(type, type(_inspect)), max_steps=200000,
                          consts={"inspect": _inspect, "enum": _enum, "enum.EnumMeta": _enum.EnumMeta, "enum.EnumType": _enum.EnumMeta, "inspect.isfunction": _inspect.isfunction},
                          externs={"inspect.getmembers": lambda *a, **k: list(_inspect.getmembers(*a, **k)), "inspect.getmembers_static": lambda *a, **k: list(_inspect.getmembers_static(*a, **k)), "inspect.isfunction": _inspect.isfunction, "vars": vars, "isinstance": isinstance})
        try:
            it.block(tr.body, env, mod)
        except (peval.Undecided, peval.Raises) as exc:
            ctx.undecide("C27.members", tr, f"{tag}: {exc}")
            continue
        got = {n for n, _v in env.get("methods_with_names", [])}
        ctx.check("C27.members", tr, want <= got, f"{tag}: the collected members are {sorted(n for n in got if not n.startswith('__'))}: {sorted(want - got)} are eligible callables defined in the module that never reach the test cluster", what=f"{tag}: all found", stmt=tag)
