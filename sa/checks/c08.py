"""C08 — coverage exclusions remove exactly the excluded code from the goals.

Decides the clause "no goal is registered without consulting the exclusion oracle" and the
shape clauses the oracle itself rests on: the inclusive (start, end) convention of
scope_line_range at every use as a range bound / containment test, outermost-first scope
lookup, all five exclusion sources feeding no_cover_lines under their own flags, and the
priority of no-cover over only-cover; and, by interpreting ModuleAstInfo / AstInfo from source over a
representative module (nested scopes to depth 3, try / except / else / finally, for-else, while, if / elif /
else, match), that a marker excludes exactly its own line plus the block it heads and that scopes are found
under their qualified names.  C08.pipeline interprets from_path + get_scope + should_be_covered / should_cover_line over
small modules x configurations with the expected answer written down per case: only-cover / no-cover nesting in both
directions, definitions inside excluded blocks, separator characters that do not end a line for the compiler, async for,
names defined twice, the else branches of TYPE_CHECKING / __main__ blocks and the two marker flags.  C08.read interprets
read_module_ast over a representative file system (plain, UTF-8 BOM, encoding declaration).  Arbitrary modules and the converse clause (every executable line outside
excluded code is a goal) are not decided.
Further clauses (added later): C08.pipeline interprets from_path + get_scope + should_be_covered /
should_cover_line over small modules x configurations (only-cover / no-cover nesting, definitions in excluded
blocks, separators that do not end a line, async for, names defined twice, else branches of TYPE_CHECKING /
__main__, marker flags); C08.read interprets read_module_ast over a representative file system (BOM, encoding
declaration).
"""

from __future__ import annotations

import ast
import re

from sa.engine.cfg import CFG
from sa.engine.guards import CallIndex, contains_call, interproc_guarded, lit_text, nnf, unguarded_path
from sa.engine.index import canonical_by_callee, rename_roles, unpacked_from, AnalysisError, last_attr, norm, own_nodes, parent, qualname

TR = "pynguin.instrumentation.transformer"
AU = "pynguin.analyses.ast_utils"
MA = "pynguin.instrumentation.machinery"
VERSIONS = ("pynguin.instrumentation.version.python3_10", "pynguin.instrumentation.version.python3_11", "pynguin.instrumentation.version.python3_12",
            "pynguin.instrumentation.version.python3_13", "pynguin.instrumentation.version.python3_14")


# ---------------------------------------------------------------------------------- literals
def _bypass(lit) -> bool:
    """Literals that may legitimately let a registration through without the oracle."""
    _k, e, pol = lit
    t = norm(e)
    if pol and re.fullmatch(r"\w+ is None", t) and "ast_info" in t:
        return True
    # `not isinstance(x.lineno, int)`: artificial instructions carry no line
    if not pol and re.fullmatch(r"isinstance\([\w.]+\.lineno, int\)", t):
        return True
    return False


def _wanted(method: str):
    def pred(lit) -> bool:
        _k, e, pol = lit
        if not pol:
            return False
        # the oracle call itself, or any(... oracle ...) over the block's instructions
        if isinstance(e, ast.Call) and last_attr(e) == method:
            return True
        if isinstance(e, ast.Call) and norm(e.func) == "any" and e.args and isinstance(e.args[0], ast.GeneratorExp):
            ge = e.args[0]
            inner = nnf(ge.elt, True)
            from sa.engine.guards import establishes

            return establishes(inner, lambda l: l[2] and isinstance(l[1], ast.Call) and last_attr(l[1]) == method, _bypass)
        return False

    return pred


# ---------------------------------------------------------------------------------- inclusive-range convention
def _component_names(fn):
    """Names bound to the start / end component of scope_line_range(...) in fn: ({starts}, {ends})."""
    starts, ends = set(), set()
    for n in own_nodes(fn):
        if isinstance(n, ast.Assign) and len(n.targets) == 1:
            t, v = n.targets[0], n.value
            if isinstance(v, ast.Call) and last_attr(v) == "scope_line_range" and isinstance(t, ast.Tuple) and len(t.elts) == 2:
                if isinstance(t.elts[0], ast.Name):
                    starts.add(t.elts[0].id)
                if isinstance(t.elts[1], ast.Name):
                    ends.add(t.elts[1].id)
            if isinstance(v, ast.Subscript) and isinstance(v.value, ast.Call) and last_attr(v.value) == "scope_line_range" and isinstance(t, ast.Name):
                idx = norm(v.slice)
                if idx == "0":
                    starts.add(t.id)
                elif idx in ("1", "-1"):
                    ends.add(t.id)
    return starts, ends


def _kind(expr, starts, ends):
    """'S' / 'E' if expr *is* a start / end component, 'E+1', 'S+1', or None."""
    if isinstance(expr, ast.Name):
        if expr.id in starts:
            return "S"
        if expr.id in ends:
            return "E"
    if isinstance(expr, ast.Subscript) and isinstance(expr.value, ast.Call) and last_attr(expr.value) == "scope_line_range":
        idx = norm(expr.slice)
        return "S" if idx == "0" else ("E" if idx in ("1", "-1") else None)
    if isinstance(expr, ast.BinOp) and isinstance(expr.op, ast.Add):
        for a, b in ((expr.left, expr.right), (expr.right, expr.left)):
            if isinstance(b, ast.Constant) and b.value == 1:
                k = _kind(a, starts, ends)
                if k in ("S", "E"):
                    return k + "+1"
    return None


def check_inclusive(ctx, fn):
    starts, ends = _component_names(fn)
    for n in own_nodes(fn):
        if isinstance(n, ast.Call) and norm(n.func) == "range":
            if any(isinstance(a, ast.Starred) and any(isinstance(x, ast.Call) and last_attr(x) == "scope_line_range" for x in ast.walk(a)) for a in n.args):
                ctx.fail("C08.inclusive", n, "range(*scope_line_range(..)) treats the inclusive end line as exclusive: the last line of the scope is never examined")
                continue
            if len(n.args) != 2:
                continue
            k0, k1 = _kind(n.args[0], starts, ends), _kind(n.args[1], starts, ends)
            if k0 is None and k1 is None:
                continue
            bad = []
            if k0 == "E":
                bad.append("range starts AT an (inclusive) end line instead of after it")
            if k1 == "E":
                bad.append("range stops BEFORE the (inclusive) end line: the last line is dropped")
            if k1 == "S+1" or k0 == "S+1":
                bad.append("start line shifted by one")
            ctx.check("C08.inclusive", n, not bad, "; ".join(bad), what=f"range({norm(n.args[0])}, {norm(n.args[1])}) respects the inclusive (start, end) convention")
        if isinstance(n, ast.Compare) and len(n.ops) == 2:
            # containment `start <= x <= end`
            ks = _kind(n.left, starts, ends), _kind(n.comparators[1], starts, ends)
            if ks == ("S", "E"):
                ok = all(isinstance(o, ast.LtE) for o in n.ops)
                ctx.check("C08.inclusive", n, ok, "containment test excludes the first or the last line of the scope (both bounds are inclusive)", what=f"`{norm(n)}` is inclusive on both bounds")
        if isinstance(n, ast.BoolOp) and isinstance(n.op, ast.Or) and len(n.values) == 2 and all(isinstance(v, ast.Compare) and len(v.ops) == 1 for v in n.values):
            # outside test `x < start or end < x`
            a, b = n.values
            def side(c):
                kl, kr = _kind(c.left, starts, ends), _kind(c.comparators[0], starts, ends)
                op = c.ops[0]
                if kr == "S" and kl is None:
                    return "S", isinstance(op, ast.Lt)
                if kl == "S" and kr is None:
                    return "S", isinstance(op, ast.Gt)
                if kl == "E" and kr is None:
                    return "E", isinstance(op, ast.Lt)
                if kr == "E" and kl is None:
                    return "E", isinstance(op, ast.Gt)
                return None, True
            (ka, oka), (kb, okb) = side(a), side(b)
            if {ka, kb} == {"S", "E"}:
                ctx.check("C08.inclusive", n, oka and okb, "outside test treats the first or the last line of the scope as outside (both bounds are inclusive)", what=f"`{norm(n)}` is strict on both bounds")


# ---------------------------------------------------------------------------------- main
def check(ctx) -> None:
    repo = ctx.repo
    ctx.rule("C08.guard", "GUARD-DOM (interprocedural): every register_line / register_predicate / register_code_object call is reachable only through an edge establishing the matching AstInfo oracle (or the `ast_info is None` / non-int lineno bypass), in its own function or in every caller", floor=6)
    ctx.rule("C08.inclusive", "scope_line_range returns an inclusive (start, end): every range() bound and containment comparison built from its components respects that", floor=6)
    ctx.rule("C08.first-scope", "ModuleAstInfo.get_scope selects the FIRST scope in pre-order (the outermost one) among scopes starting on the line", floor=2)
    ctx.rule("C08.sources", "ModuleAstInfo.from_path unions all exclusion sources into no_cover_lines, each inline pattern gated by its own flag; ignore_methods feed no_cover", floor=5)
    ctx.rule("C08.priority", "AstInfo._in_cover rejects a no-cover line before only-cover is consulted; should_be_covered quantifies universally over enclosing definitions", floor=2)
    ctx.rule("C08.arms", "should_cover_line has an exclusion arm for every compound statement kind it enumerates; should_cover_conditional_statement requires both the statement and its else lines", floor=8)

    ctx.rule("C08.pipeline", "ABSINT: from_path + get_scope + should_be_covered / should_cover_line interpreted over small modules x configurations (only-cover / no-cover nesting, definitions in excluded blocks, separators that do not end a line, async for, names defined twice, else of TYPE_CHECKING / __main__, marker flags) give the answers written down per case", floor=50)
    _pipeline(ctx, repo)
    ctx.rule("C08.read", "ABSINT: read_module_ast over a representative file system (plain, UTF-8 BOM, encoding declaration) returns the tree the compiler would build", floor=3)
    _read_source(ctx, repo)
    ctx.rule("C08.lines", "ABSINT: scope names and should_cover_line interpreted over a representative module: a marker excludes exactly its own line and the block it heads; scopes are named by their qualified name at every depth", floor=20)
    _lines(ctx, repo)

    # ------------------------------------------------------------------ C08.guard
    fns = []
    for mname in (TR, *VERSIONS):
        if repo.has_module(mname):
            fns += [fn for _q, fn in repo.module(mname).functions.items()]
    cidx = CallIndex(fns, repo)
    cfg_cache: dict = {}
    REG = {
        "register_line": [("should_cover_line", "line oracle")],
        "register_predicate": [("should_cover_conditional_statement", "conditional-statement oracle"), ("should_cover_line", "any-covered-line oracle")],
        "register_code_object": [("should_be_covered", "code-object oracle")],
    }
    for fn in fns:
        for n in own_nodes(fn):
            if isinstance(n, ast.Call) and last_attr(n) in REG and isinstance(n.func, ast.Attribute) and "subject_properties" in norm(n.func.value):
                ctx.analysed(fn)
                ctx.call_sites += 1
                for method, label in REG[last_attr(n)]:
                    chain = interproc_guarded(fn, n, cidx, _wanted(method), _bypass, cfg_cache)
                    ctx.paths += 1
                    ctx.check(
                        "C08.guard",
                        n,
                        chain is None,
                        f"{last_attr(n)} is reachable without the {label} `{method}` having admitted the code (only `ast_info is None` / non-int lineno may bypass it): excluded code becomes a goal",
                        what=f"{last_attr(n)} dominated by {method} (own function or all callers)",
                        path=chain or [],
                        stmt=f"{last_attr(n)}(...) [{method}]",
                    )
    # the adapters receive the ast_info that was asked
    irec = repo.func(TR, "InstrumentationTransformer._instrument_code_recursive")
    ctx.analysed(irec)
    for n in own_nodes(irec):
        if isinstance(n, ast.Call) and last_attr(n) in ("visit_node", "visit_cfg"):
            a0 = n.args[0] if n.args else None
            ctx.check("C08.guard", n, a0 is not None and norm(a0) == "ast_info", f"adapter.{last_attr(n)} is not handed the scope's ast_info: the adapters cannot consult the exclusion oracle", what=f"{last_attr(n)} receives ast_info")

    # ------------------------------------------------------------------ C08.inclusive
    for mname in (TR,):
        for qn, fn in repo.module(mname).functions.items():
            if any(isinstance(n, ast.Call) and last_attr(n) == "scope_line_range" for n in own_nodes(fn)):
                ctx.analysed(fn)
                check_inclusive(ctx, fn)
    slr = repo.func(AU, "scope_line_range")
    ctx.analysed(slr)
    # every return of scope_line_range is (start-ish, end_lineno-ish): the end component mentions end_lineno or is the start itself
    env = {}
    for n in own_nodes(slr):
        if isinstance(n, ast.Assign) and isinstance(n.targets[0], ast.Name):
            env[n.targets[0].id] = n.value
    for r in [n for n in own_nodes(slr) if isinstance(n, ast.Return)]:
        v = r.value
        ok = isinstance(v, ast.Tuple) and len(v.elts) == 2
        if ok:
            e = v.elts[1]
            txt = norm(env.get(e.id, e)) if isinstance(e, ast.Name) else norm(e)
            s = v.elts[0]
            stxt = norm(env.get(s.id, s)) if isinstance(s, ast.Name) else norm(s)
            ok = ("end_lineno" in txt or txt == "0") and "end_lineno" not in stxt and "- 1" not in txt and "+ 1" not in txt
        ctx.check("C08.inclusive", r, ok, "scope_line_range no longer returns (first line, last line inclusive)", what="returns (lineno, end_lineno)")

    # ------------------------------------------------------------------ C08.first-scope
    gs = repo.func(TR, "ModuleAstInfo.get_scope")
    ctx.analysed(gs)
    built = [n for n in own_nodes(gs) if isinstance(n, ast.Call) and norm(n.func) == "AstInfo"]
    if not built:
        raise AnalysisError("ModuleAstInfo.get_scope no longer builds an AstInfo")
    for b in built:
        arg = next((k.value for k in b.keywords if k.arg == "ast"), b.args[0] if b.args else None)
        while isinstance(arg, ast.Call) and norm(arg.func) == "cast":
            arg = arg.args[1]
        src = arg
        if isinstance(arg, ast.Name):
            defs = [n.value for n in own_nodes(gs) if isinstance(n, ast.Assign) and any(isinstance(t, ast.Name) and t.id == arg.id for t in n.targets)]
            src = defs[0] if len(defs) == 1 else None
        verdict, why = _selection_order(gs, src)
        if verdict == "first":
            ctx.ok("C08.first-scope", b, f"scope selected by {why}")
        elif verdict == "last":
            ctx.fail("C08.first-scope", b, f"get_scope selects the LAST scope starting on the line ({why}): for `def f(cb=lambda: 0):` the lambda's AstInfo is paired with f's code object and f's excluded branches become goals")
        else:
            ctx.undecide("C08.first-scope", b, f"selection construct not interpretable: {why}")
    # the filter compares the START line
    txt = " ".join(norm(n) for m in repo.methods(repo.cls(TR, "ModuleAstInfo")).values() for n in ast.walk(m) if isinstance(n, (ast.Compare, ast.Subscript, ast.DictComp)))
    ctx.check("C08.first-scope", gs, "scope_line_range(scope)[0]" in txt.replace("scope_node", "scope") or "[0]" in txt, "get_scope no longer matches scopes by their start line", what="scopes matched by start line", stmt="[start-line]")

    # ------------------------------------------------------------------ C08.sources
    fp = repo.func(TR, "ModuleAstInfo.from_path")
    # locals named after the constructor keywords they feed and after what read_module_ast returns
    fp = canonical_by_callee(fp, None, lambda c: norm(c.func) == "cls")
    fp = rename_roles(fp, {"module_ast": lambda f: unpacked_from(f, lambda v: isinstance(v, ast.Call) and last_attr(v) == "read_module_ast", 0),
                           "source_code": lambda f: unpacked_from(f, lambda v: isinstance(v, ast.Call) and last_attr(v) == "read_module_ast", 1)})
    ctx.analysed(fp)
    nc = [n for n in own_nodes(fp) if isinstance(n, ast.Assign) and any(isinstance(t, ast.Name) and t.id == "no_cover_lines" for t in n.targets)]
    if len(nc) != 1:
        raise AnalysisError("from_path: assignment of no_cover_lines not found")
    val = nc[0].value
    text = norm(val)
    need = {
        "no_cover names": r"cls\._find_lines_in_ast\(module_ast, to_cover_config\.no_cover\)",
        "__main__/TYPE_CHECKING blocks": r"cls\._find_excluded_block_lines\(module_ast\)",
    }
    for label, pat in need.items():
        m = re.search(pat, text)
        # must be unconditional: not inside an IfExp
        uncond = False
        if m:
            for x in ast.walk(val):
                if isinstance(x, ast.Call) and re.fullmatch(pat, norm(x)):
                    uncond = not any(isinstance(a, ast.IfExp) for a in _ancestors_until(x, val))
        ctx.check("C08.sources", nc[0], bool(m) and uncond, f"no_cover_lines no longer (unconditionally) includes the {label}", what=f"source: {label}", stmt=f"[{label}]")
    ifexps = [x for x in ast.walk(val) if isinstance(x, ast.IfExp)]
    pairs = {}
    for x in ifexps:
        body = norm(x.body)
        m = re.search(r"_find_lines_in_source_code\(source_code, (\w+)\)", body)
        if m:
            pairs[m.group(1)] = (norm(x.test), norm(x.orelse))
    expected = {"PYNGUIN_NO_COVER_PATTERN": "to_cover_config.enable_inline_pynguin_no_cover", "PRAGMA_NO_COVER_PATTERN": "to_cover_config.enable_inline_pragma_no_cover"}
    for pat_name, flag in expected.items():
        got = pairs.get(pat_name)
        ok = got is not None and got[0] == flag and got[1] in ("()", "[]", "frozenset()", "set()")
        ctx.check("C08.sources", nc[0], ok, f"inline pattern {pat_name} is not gated by its own flag {flag} (found {got})", what=f"{pat_name} gated by {flag}", stmt=f"[{pat_name}]")
    # the patterns themselves mention the words they are named for
    for pat_name, word in (("PYNGUIN_NO_COVER_PATTERN", "pynguin"), ("PRAGMA_NO_COVER_PATTERN", "pragma")):
        c = repo.const(TR, pat_name)
        lit = next((x.value for x in ast.walk(c) if isinstance(x, ast.Constant) and isinstance(x.value, str)), "")
        ctx.check("C08.sources", c, word in lit and "no" in lit and "cover" in lit, f"{pat_name} does not match `# {word}: no cover`", what=f"{pat_name} = {lit!r}")
    # the result carries both sets
    ret = [n for n in own_nodes(fp) if isinstance(n, ast.Return) and isinstance(n.value, ast.Call) and norm(n.value.func) == "cls"]
    ok = bool(ret) and all({k.arg: norm(k.value) for k in r.value.keywords}.get("no_cover_lines") == "no_cover_lines" and {k.arg: norm(k.value) for k in r.value.keywords}.get("only_cover_lines") == "only_cover_lines" for r in ret)
    ctx.check("C08.sources", fp, ok, "from_path does not pass the computed line sets to the ModuleAstInfo", what="cls(only_cover_lines=only_cover_lines, no_cover_lines=no_cover_lines)", stmt="[ctor]")
    # (which blocks _find_excluded_block_lines yields is decided by C08.pipeline: TYPE_CHECKING / __main__ bodies excluded, their else branches kept)
    # ignore_methods -> no_cover
    ih = repo.func(MA, "install_import_hook")
    ctx.analysed(ih)
    ext = [n for n in own_nodes(ih) if isinstance(n, ast.Call) and norm(n.func).endswith("no_cover.extend")]
    ok = bool(ext) and "ignore_methods" in norm(ext[0])
    ctx.check("C08.sources", ih, ok, "install_import_hook no longer adds config.ignore_methods to to_cover.no_cover", what="ignore_methods feed no_cover", stmt="[ignore_methods]")

    # ------------------------------------------------------------------ C08.priority
    ic = repo.func(TR, "AstInfo._in_cover")
    ctx.analysed(ic)
    cfg = CFG(ic)
    rets = [n for n in cfg.nodes if n.kind == "stmt" and isinstance(n.stmt, ast.Return)]
    pos_rets = [n for n in rets if not (isinstance(n.stmt.value, ast.Constant) and n.stmt.value.value is False)]

    def not_excluded(lit):
        _k, e, pol = lit
        return pol and isinstance(e, ast.Compare) and isinstance(e.ops[0], ast.NotIn) and norm(e.left) == "lineno" and norm(e.comparators[0]) == "self.module.no_cover_lines"

    for r in pos_rets:
        p = unguarded_path(cfg, [r.id], not_excluded)
        # alternatively the return expression itself starts with the conjunct
        inline = isinstance(r.stmt.value, ast.BoolOp) and isinstance(r.stmt.value.op, ast.And) and norm(r.stmt.value.values[0]) == "lineno not in self.module.no_cover_lines"
        ctx.paths += 1
        ctx.check("C08.priority", r.stmt, p is None or inline, "_in_cover can answer True for a line in no_cover_lines (no-cover must win over only-cover)", what="positive answer only for lines not in no_cover_lines", path=cfg.describe_path(p) if p and not inline else [])
    sbc = repo.func(TR, "AstInfo.should_be_covered")
    ctx.analysed(sbc)
    r = [n for n in own_nodes(sbc) if isinstance(n, ast.Return)]
    ok = len(r) == 1 and isinstance(r[0].value, ast.BoolOp) and isinstance(r[0].value.op, ast.And) and any(isinstance(v, ast.Call) and norm(v.func) == "all" for v in r[0].value.values) and any(norm(v).startswith("self._in_cover(") for v in r[0].value.values)
    ctx.check("C08.priority", sbc, ok, "should_be_covered no longer requires the scope itself AND all enclosing definitions to be in cover", what="self in cover and all(enclosing definitions in cover)")
    # (the quantifier over enclosing definitions is decided by C08.pipeline: a function nested two levels inside a no-cover class)

    # ------------------------------------------------------------------ C08.arms
    scl = repo.func(TR, "AstInfo.should_cover_line")
    ctx.analysed(scl)
    loop = next((n for n in own_nodes(scl) if isinstance(n, ast.For) and "nodes_of_class" in norm(n.iter)), None)
    if loop is None:
        raise AnalysisError("should_cover_line: loop over branch nodes not found")
    kinds = [norm(e).split(".")[-1] for e in loop.iter.args[1].elts] if isinstance(loop.iter.args[1], ast.Tuple) else []
    first = scl.body[0] if not isinstance(scl.body[0], ast.Expr) else scl.body[1]
    ctx.check("C08.arms", first, isinstance(first, ast.If) and norm(first.test) == "not self._in_cover(lineno)" and isinstance(first.body[0], ast.Return) and norm(first.body[0].value) == "False", "should_cover_line no longer rejects lines that are not in cover first", what="not _in_cover(lineno) -> False")
    arms = [s for s in loop.body if isinstance(s, ast.If) and any(isinstance(x, ast.Return) and norm(x.value) == "False" for x in s.body)]
    handled = set()
    for a in arms:
        for x in ast.walk(a.test):
            if isinstance(x, ast.Call) and norm(x.func) == "isinstance" and len(x.args) == 2:
                for t in re.split(r"[|,()\s]+", norm(x.args[1])):
                    if t:
                        handled.add(t.split(".")[-1])
    for k in kinds:
        ctx.check("C08.arms", loop, k in handled, f"should_cover_line enumerates {k} nodes but has no exclusion arm for them", what=f"exclusion arm for {k}", stmt=f"[{k}]")
    # the containment skip: nodes that do not contain the line are skipped (and only those)
    skip = next((s for s in loop.body if isinstance(s, ast.If) and any(isinstance(x, ast.Continue) for x in s.body)), None)
    ctx.check("C08.arms", skip or loop, skip is not None and norm(skip.test) in ("lineno < start or end < lineno", "lineno < start or lineno > end", "not start <= lineno <= end"), "should_cover_line's skip of branch nodes not containing the line changed shape", what="skip iff lineno outside [start, end]", stmt="[skip]")
    # every arm tests membership in no_cover_lines
    for a in arms:
        ctx.check("C08.arms", a, "self.module.no_cover_lines" in norm(a.test), "an exclusion arm of should_cover_line no longer consults no_cover_lines", what="arm consults no_cover_lines")
    scc = repo.func(TR, "AstInfo.should_cover_conditional_statement")
    ctx.analysed(scc)
    rets = [n for n in own_nodes(scc) if isinstance(n, ast.Return) and isinstance(n.value, ast.BoolOp)]
    ok = bool(rets) and isinstance(rets[0].value.op, ast.And) and norm(rets[0].value.values[0]) == "self.should_cover_line(start)" and "all(" in norm(rets[0].value.values[1]) and "self._else_lines(branch_node)" in norm(rets[0].value.values[1])
    ctx.check("C08.arms", scc, ok, "should_cover_conditional_statement no longer requires the statement line and all of its else lines to be covered", what="should_cover_line(start) and all(else lines covered)")
    # _inter_lines: strictly between the two bodies
    il = repo.func(TR, "AstInfo._inter_lines")
    ctx.analysed(il)


def _ancestors_until(node, stop):
    p = parent(node)
    while p is not None and p is not stop:
        yield p
        p = parent(p)


def _selection_order(fn, src):
    """Classify how one element is selected from an ordered enumeration: first / last / unknown."""
    if src is None:
        return "unknown", "no unique definition"
    if isinstance(src, ast.Call) and norm(src.func) == "next":
        inner = src.args[0]
        if isinstance(inner, ast.Call) and norm(inner.func) == "iter" and inner.args:
            inner = inner.args[0]
        if isinstance(inner, ast.Call) and norm(inner.func) == "reversed":
            return "last", "next(reversed(...))"
        if isinstance(inner, ast.GeneratorExp):
            it = inner.generators[0].iter
            if isinstance(it, ast.Call) and last_attr(it) == "nodes_of_class":
                return "first", "next() over the pre-order enumeration nodes_of_class(...)"
            if isinstance(it, ast.Call) and norm(it.func) == "reversed":
                return "last", "next() over reversed(...)"
            return "unknown", f"next() over {norm(it)[:60]}"
        return "unknown", f"next({norm(inner)[:60]})"
    # dict lookup: d.get(k) / d[k] where d is built by a comprehension or a loop store -> last wins
    if isinstance(src, ast.Call) and isinstance(src.func, ast.Attribute) and src.func.attr == "get":
        return _dict_order(fn, src.func.value)
    if isinstance(src, ast.Subscript):
        if isinstance(src.value, (ast.List, ast.ListComp)) or (isinstance(src.value, ast.Call) and norm(src.value.func) in ("list", "tuple")):
            idx = norm(src.slice)
            return ("first", "[0] of the enumeration") if idx == "0" else (("last", "[-1] of the enumeration") if idx == "-1" else ("unknown", f"index {idx}"))
        return _dict_order(fn, src.value)
    return "unknown", norm(src)[:80]


def _dict_order(fn, recv):
    """How the mapping `recv` (self.<attr> / name) is filled: dict comprehension or `d[k] = v` => last wins;
    `setdefault` / `if k not in d` => first wins."""
    mod = fn._module
    target = norm(recv)
    attr = target.split(".")[-1]
    # a (cached) property or method of the same class that returns a dict comprehension / dict(...)
    cls = getattr(fn, "_class", None)
    cands = []
    if cls is not None:
        for s in cls.body:
            if isinstance(s, (ast.FunctionDef, ast.AsyncFunctionDef)) and s.name == attr:
                cands.append(s)
    for c in cands:
        for n in ast.walk(c):
            if isinstance(n, ast.DictComp):
                return "last", f"`{target}` is a dict comprehension keyed by start line: on a collision the later (inner) scope overwrites the earlier (outer) one"
            if isinstance(n, ast.Call) and last_attr(n) == "setdefault":
                return "first", f"`{target}` filled with setdefault"
            if isinstance(n, ast.Assign) and any(isinstance(t, ast.Subscript) for t in n.targets):
                guarded = any(isinstance(a, ast.If) and "not in" in norm(a.test) for a in _ancestors_until(n, c))
                return ("first", f"`{target}` filled under `not in` guard") if guarded else ("last", f"`{target}` filled by plain item assignment in enumeration order: later scopes overwrite earlier ones")
    for n in own_nodes(fn):
        if isinstance(n, ast.DictComp):
            return "last", "dict comprehension keyed by start line"
    return "unknown", f"mapping `{target}`"


# ---------------------------------------------------------------------------------- line arithmetic over a representative module
REPRESENTATIVE = """\
class Outer:
    class Inner:
        def method(self, x):
            if x:
                return 1
            return 0
        def other(self):
            return 2
    def top(self):
        def nested():
            return 3
        return nested

def fn(a, b):
    try:
        r = a / b
    except ZeroDivisionError:
        r = 0
    else:
        r += 1
    finally:
        if a:
            r -= 1
    for i in range(a):
        r += i
    else:
        r = -r
    while b:
        b -= 1
    if a:
        r = 1
    elif b:
        r = 2
    else:
        r = 3
    match a:
        case 1:
            r = 4
        case _:
            r = 5
    try:
        r += 1
    finally:
        r += 2
    if b:
        r = 6
    else:
        if a:
            r = 7
    return r
"""


def _oracle_blocks(tree):
    """header line -> lines of the block it heads (statement start to end), by the structure of the source only."""
    heads = {}

    def span(stmts):
        return set(range(stmts[0].lineno, stmts[-1].end_lineno + 1)) if stmts else set()

    def between(prev, nxt):
        return set(range(prev[-1].end_lineno + 1, nxt[0].lineno)) if prev and nxt else set()

    for n in ast.walk(tree):
        if isinstance(n, (ast.If, ast.For, ast.While)):
            heads.setdefault(n.lineno, set()).update(span(n.body))
            # an elif is a nested If at the indentation of its parent; `else:` followed by a single `if` is a real else block
            is_elif = isinstance(n, ast.If) and len(n.orelse) == 1 and isinstance(n.orelse[0], ast.If) and n.orelse[0].col_offset == n.col_offset
            if n.orelse and not is_elif:
                for l in between(n.body, n.orelse):
                    heads.setdefault(l, set()).update(span(n.orelse))
        elif isinstance(n, ast.Try):
            heads.setdefault(n.lineno, set()).update(span(n.body))
            for h in n.handlers:
                heads.setdefault(h.lineno, set()).update(span(h.body))
            last = n.handlers[-1].body if n.handlers else n.body
            for l in between(last, n.orelse):
                heads.setdefault(l, set()).update(span(n.orelse))
            before_final = n.orelse or last
            for l in between(before_final, n.finalbody):
                heads.setdefault(l, set()).update(span(n.finalbody))
        elif isinstance(n, ast.Match):
            heads.setdefault(n.lineno, set()).update(set(range(n.lineno, n.end_lineno + 1)))
            for c in n.cases:
                heads.setdefault(c.pattern.lineno, set()).update(span(c.body))
    return heads


def _lines(ctx, repo) -> None:
    import re as _re

    from sa.engine import peval

    tmod = repo.module(TR)
    tree = ast.parse(REPRESENTATIVE)
    cres = peval.repo_class_resolver(repo, only={"ModuleAstInfo", "AstInfo"})
    scope_node = tuple(getattr(ast, n.attr) for n in ast.walk(tmod.assigns["SCOPE_CLASSES"]) if isinstance(n, ast.Attribute)) if "SCOPE_CLASSES" in tmod.assigns else None
    if not scope_node:
        raise AnalysisError("SCOPE_CLASSES is not a tuple of ast classes any more")

    def interp():
        return peval.Interp(resolver=peval.repo_resolver(repo), class_resolver=cres, native_types=(ast.AST,), max_steps=3000000,
                            consts={"ast": ast, "_ast": ast, "TryStar": ast.TryStar, "ScopeNode": scope_node, "SCOPE_CLASSES": scope_node},
                            externs={"cast": lambda _t, v: v})

    # ---- scope names
    gsn = repo.func(TR, "ModuleAstInfo._get_scope_names")
    ctx.analysed(gsn)
    want = {}

    def walk(node, prefix):
        for ch in ast.iter_child_nodes(node):
            if isinstance(ch, (ast.ClassDef, ast.FunctionDef, ast.AsyncFunctionDef)):
                q = f"{prefix}.{ch.name}" if prefix else ch.name
                want[q] = ch.lineno
                walk(ch, q)
            elif not isinstance(ch, scope_node):
                walk(ch, prefix)

    walk(tree, "")
    try:
        it = interp()
        mai = it.instantiate("ModuleAstInfo", cres("ModuleAstInfo", tmod), [], {"module_ast": tree, "only_cover_lines": frozenset(), "no_cover_lines": frozenset()}, init=False)
        got = dict(mai.methods["_get_scope_names"](tree))
        ctx.check("C08.lines", gsn, got == want, f"[scope names] _get_scope_names yields {sorted(set(got.items()) - set(want.items()))} instead of {sorted(set(want.items()) - set(got.items()))}: a no_cover / only_cover entry that names such a scope is not resolved (only a warning is logged) and the scope keeps / loses its goals", what=f"[scope names] {len(want)} scopes under their qualified names", stmt="[scope names]")
    except peval.Undecided as exc:
        ctx.undecide("C08.lines", gsn, f"[scope names]: {exc}")
    except peval.Raises as exc:
        ctx.fail("C08.lines", gsn, f"[scope names]: raises {exc.name} ({exc.detail[:60]})", stmt="[scope names]")

    # ---- the scope of a code object is found by the first line of the code object (its first decorator, if any)
    gs = repo.func(TR, "ModuleAstInfo.get_scope")
    ctx.analysed(gs)
    dsrc = "import functools\n@functools.lru_cache\ndef cached(x):\n    return x\nclass K:\n    @staticmethod\n    @functools.cache\n    def m(x):\n        return x\n    def plain(self):\n        return 1\n@functools.total_ordering\nclass D:\n    pass\n"
    dtree = ast.parse(dsrc)
    code = compile(dsrc, "<representative>", "exec")
    first_lines = {}

    def collect(c, prefix=""):
        for k in c.co_consts:
            if hasattr(k, "co_code"):
                first_lines[k.co_qualname] = k.co_firstlineno
                collect(k)

    collect(code)
    for qual, line in sorted(first_lines.items()):
        tag = f"[scope of code object {qual}, first line {line}]"
        try:
            it = interp()
            mai = it.instantiate("ModuleAstInfo", cres("ModuleAstInfo", tmod), [], {"module_ast": dtree, "only_cover_lines": frozenset(), "no_cover_lines": frozenset()}, init=False)
            info = mai.methods["get_scope"](line)
            name = getattr(info.fields["ast"], "name", None) if info is not None else None
        except peval.Undecided as exc:
            ctx.undecide("C08.lines", gs, f"{tag}: {exc}")
            continue
        except peval.Raises as exc:
            ctx.fail("C08.lines", gs, f"{tag}: get_scope raises {exc.name}", stmt=tag)
            continue
        ctx.check("C08.lines", gs, name == qual.split(".")[-1], f"{tag}: get_scope({line}) finds {'no scope' if name is None else name}: without a scope the exclusion oracle is bypassed, so no_cover entries and inline markers do not apply to this (decorated) definition", what=f"{tag}: found", stmt=tag)

    # ---- a conditional jump on an excluded line is neither registered nor kept in the covered CDG
    _jump_line(ctx, repo)

    # ---- a marker excludes its own line and the block it heads, nothing else
    scl = repo.func(TR, "AstInfo.should_cover_line")
    ctx.analysed(scl)
    heads = _oracle_blocks(tree)
    fn_node = next(n for n in tree.body if isinstance(n, ast.FunctionDef) and n.name == "fn")
    fn_lines = list(range(fn_node.lineno + 1, fn_node.end_lineno + 1))
    stmt_lines = sorted({n.lineno for n in ast.walk(fn_node) if isinstance(n, ast.stmt)} - {fn_node.lineno})
    markers = sorted(set(heads) & set(fn_lines)) + [l for l in stmt_lines if l not in heads][:6]
    for m in markers:
        excluded = {m} | heads.get(m, set())
        tag = f"[marker on line {m}: `{REPRESENTATIVE.splitlines()[m - 1].strip()}`]"
        try:
            it = interp()
            mai = it.instantiate("ModuleAstInfo", cres("ModuleAstInfo", tmod), [], {"module_ast": tree, "only_cover_lines": frozenset(), "no_cover_lines": frozenset({m})}, init=False)
            info = it.instantiate("AstInfo", cres("AstInfo", tmod), [], {"ast": fn_node, "module": mai}, init=False)
            got_excl = {l for l in stmt_lines if not info.methods["should_cover_line"](l)}
        except peval.Undecided as exc:
            ctx.undecide("C08.lines", scl, f"{tag}: {exc}")
            continue
        except peval.Raises as exc:
            ctx.fail("C08.lines", scl, f"{tag}: should_cover_line raises {exc.name} ({exc.detail[:60]})", stmt=tag)
            continue
        want_excl = excluded & set(stmt_lines)
        ctx.check("C08.lines", scl, got_excl == want_excl, f"{tag}: lines excluded {sorted(got_excl)}, the marker's own line and block are {sorted(want_excl)}: too many -> code outside the excluded block loses its goals {sorted(got_excl - want_excl)}; too few -> excluded code keeps goals {sorted(want_excl - got_excl)}", what=f"{tag}: excludes {sorted(want_excl)}", stmt=tag)


def _jump_line(ctx, repo) -> None:
    """Jumps that belong to no if / for / while / match statement (conditional expressions, handlers, asserts): the oracle for
    conditional statements says nothing about them, so their own line decides."""
    from sa.checks import _instr as I
    from sa.checks import c07
    from sa.engine import peval

    nx = c07._nx()
    cfm = repo.module(c07.CF)
    key = repo.fold(cfm, cfm.assigns["EDGE_DATA_BRANCH_VALUE"])
    tools = c07._Tools(ctx, repo, nx, key)
    L1, LJ = 10, 11
    for first_line, what in ((L1, "first instruction on a covered line (e.g. RESUME of the def line)"), (None, "line-less first instruction (e.g. PUSH_EXC_INFO of a handler block)")):
        instrs = [c07._instr("LOAD_FAST", first_line), c07._instr("POP_JUMP_IF_FALSE", LJ)]
        info = c07._ast_info({L1: True, LJ: False}, {LJ: True})
        # covered CDG
        tag = f"[jump on an excluded line; {what}]"
        try:
            node = c07._block(2, instrs)
            entry = peval.Obj("ENTRY", classes=["ArtificialNode"])
            other = c07._block(1, [c07._instr("POP_JUMP_IF_TRUE", 5)])
            succ = c07._block(3, [c07._instr("RETURN_VALUE", 12)])
            g = nx.DiGraph()
            g.add_edge(entry, other)
            g.add_edge(other, node, **{key: True})
            g.add_edge(node, succ, **{key: True})
            tools.covered_cdg(g, info)
            ctx.check("C08.lines", tools.ccd, node not in g, f"{tag}: the covered CDG keeps the block: the predicate on the excluded line stays a node other goals depend on", what=f"{tag}: removed from the covered CDG", stmt=f"{tag} cdg")
        except (peval.Undecided, peval.Raises) as exc:
            ctx.undecide("C08.lines", tools.ccd, f"{tag}: {exc}")
        for v in I.VERSIONS:
            vn = next((f for f in I.effective_functions(repo, v, "BranchCoverageInstrumentation") if f.name == "visit_node"), None)
            if vn is None:
                raise AnalysisError(f"{v}: BranchCoverageInstrumentation.visit_node vanished")
            reached = []
            selfobj = peval.Obj("adapter")
            for nm in ("visit_for_loop", "visit_compare_based_conditional_jump", "visit_exception_based_conditional_jump", "visit_bool_based_conditional_jump", "visit_none_based_conditional_jump", "visit_subscr_access"):
                selfobj.methods[nm] = (lambda n: (lambda *a, **k: reached.append(n)))(nm)
            selfobj.fields["NONE_BASED_JUMPS_MAPPING"] = {}
            node2 = c07._block(2, instrs)
            node2.fields["instrumentation_original_instructions"] = list(enumerate(instrs))
            node2.methods["find_instruction_by_original_index"] = lambda i: (i % len(instrs), instrs[i])
            it = tools.interp()
            it.consts.update({"JUMP_OP_POS": -1, "COMPARE_OP_POS": -2, "BINARY_SUBSCR_NAMES": ("BINARY_SUBSCR",), "COMPARE_NAMES": ("COMPARE_OP", "IS_OP", "CONTAINS_OP"), "python3_10.COMPARE_NAMES": ("COMPARE_OP", "IS_OP", "CONTAINS_OP")})
            try:
                it.run_function(vn, [selfobj, info, peval.Obj("cfg"), 1, node2], {}, vn._module)
            except (peval.Undecided, peval.Raises) as exc:
                ctx.undecide("C08.lines", vn, f"[{v}] {tag}: {exc}")
                continue
            ctx.check("C08.lines", vn, not reached, f"[{v}] {tag}: visit_node registers the predicate ({reached}): a conditional expression / exception handler / assert on a line marked `# pragma: no cover` remains a branch goal", what=f"[{v}] {tag}: not registered", stmt=f"[{v}] {tag}")


# ---------------------------------------------------------------------------------------------- C08.pipeline
# (label, source, config, [(kind, scope line, line or None, expected, what)])   kind: "scope" -> should_be_covered of the
# scope whose code object starts on `scope line`; "line" -> should_cover_line(line) asked of that scope (0 = module)
_P = [
    ("only-cover class", "class K:\n    a = 1\n    def m(self):\n        return 2\ndef other():\n    return 3\n", {"only_cover": ["K"]}, [
        ("scope", 1, None, True, "the only-cover class"), ("scope", 3, None, True, "a method of the only-cover class"), ("line", 3, 4, True, "a line of that method"),
        ("scope", 5, None, False, "a function outside the only-cover class"), ("scope", 0, None, True, "the module that contains the only-cover class")]),
    ("only-cover function", "def foo():\n    def inner():\n        return 1\n    f = lambda: 2\n    return inner, f\ndef bar():\n    return 3\n", {"only_cover": ["foo"]}, [
        ("scope", 2, None, True, "a function nested in the only-cover function"), ("scope", 4, None, True, "a lambda in the only-cover function"), ("scope", 6, None, False, "another function")]),
    ("only-cover method", "class K:\n    def m(self):\n        return 1\n    def n(self):\n        return 2\n", {"only_cover": ["K.m"]}, [
        ("scope", 2, None, True, "the only-cover method"), ("scope", 4, None, False, "its sibling"), ("scope", 1, None, True, "the class that contains it")]),
    ("no-cover class", "class K:\n    def m(self):\n        def deep():\n            return 1\n        return deep\ndef other():\n    return 3\n", {"no_cover": ["K"]}, [
        ("scope", 1, None, False, "the no-cover class"), ("scope", 2, None, False, "a method of the no-cover class"), ("scope", 3, None, False, "a function nested two levels inside the no-cover class"),
        ("scope", 6, None, True, "a function outside")]),
    ("no-cover inside only-cover", "class K:\n    def m(self):\n        return 1\n    def n(self):\n        return 2\n", {"only_cover": ["K"], "no_cover": ["K.n"]}, [
        ("scope", 2, None, True, "a method of the only-cover class"), ("scope", 4, None, False, "the no-cover method of the only-cover class")]),
    ("definition in an excluded branch", "def outer(x):\n    if x:  # pragma: no cover\n        def inner():\n            return 1\n        return inner\n    else:\n        def kept():\n            return 2\n    return None\nif outer:  # pynguin: no cover\n    class Hidden:\n        def m(self):\n            return 1\n", {}, [
        ("scope", 3, None, False, "a function defined in an excluded if-branch"), ("scope", 7, None, True, "a function defined in the else branch that is not excluded"),
        ("scope", 11, None, False, "a class defined in an excluded module-level block"), ("scope", 12, None, False, "a method of that class"), ("scope", 1, None, True, "the enclosing function")]),
    ("separators that do not end a line", "def a():\n    s = 'x\x0cy'  # form feed in a string\n    return s\n\x0c\ndef b():  # pragma: no cover\n    return 2\n# \x0b \x1c \x1d \x1e \x85 \u2028 \u2029\ndef c():  # pragma: no cover\n    return 3\ndef d():\n    return 4\n", {}, [
        ("scope", 1, None, True, "a function without marker"), ("scope", 5, None, False, "the marked function after a form feed"), ("scope", 8, None, False, "the marked function after other separator characters"),
        ("scope", 10, None, True, "the unmarked function after them")]),
    ("carriage returns", "def a():  # pragma: no cover\r\n    return 1\r\ndef b():\r\n    return 2\rdef c():  # pragma: no cover\r    return 3\r", {}, [
        ("scope", 1, None, False, "marked function, CRLF"), ("scope", 3, None, True, "unmarked function"), ("scope", 5, None, False, "marked function after bare CR line ends")]),
    ("async for", "async def f(xs):\n    async for x in xs:  # pragma: no cover\n        y = x\n    else:\n        y = 0\n    async for x in xs:\n        z = x\n    else:  # pragma: no cover\n        z = 0\n    return 1\n", {}, [
        ("line", 1, 3, False, "the body of a marked async for"), ("line", 1, 5, True, "the else of a marked async for header"), ("line", 1, 7, True, "the body of an unmarked async for"),
        ("line", 1, 9, False, "the marked else of an async for"), ("line", 1, 10, True, "the statement after the loops")]),
    ("name defined twice", "class C:\n    @property\n    def x(self):\n        return 1\n    @x.setter\n    def x(self, v):\n        self._x = v\n    def y(self):\n        return 2\n", {"no_cover": ["C.x"]}, [
        ("scope", 2, None, False, "the getter"), ("scope", 5, None, False, "the setter"), ("scope", 8, None, True, "another method")]),
    ("name defined twice, only-cover", "class C:\n    @property\n    def x(self):\n        return 1\n    @x.setter\n    def x(self, v):\n        self._x = v\n    def y(self):\n        return 2\n", {"only_cover": ["C.x"]}, [
        ("scope", 2, None, True, "the getter"), ("scope", 5, None, True, "the setter"), ("scope", 8, None, False, "another method")]),
    ("type-checking and main blocks", "import typing\nfrom typing import TYPE_CHECKING\nif TYPE_CHECKING:\n    import os\nelse:\n    os = None\nif typing.TYPE_CHECKING:\n    import sys\nx = 1\nif __name__ == '__main__':\n    x = 2\nelse:\n    x = 3\n", {}, [
        ("line", 0, 4, False, "the TYPE_CHECKING block"), ("line", 0, 6, True, "the else branch of the TYPE_CHECKING block (it runs)"), ("line", 0, 8, False, "the typing.TYPE_CHECKING block"),
        ("line", 0, 9, True, "the statement after the blocks"), ("line", 0, 11, False, "the __main__ block"), ("line", 0, 13, True, "the else branch of the __main__ block (it runs on import)")]),
    ("marker text inside a string literal", "def f():\n    MSG = 'use # pragma: no cover to exclude'\n    return MSG\ndef g():  # pragma: no cover\n    return 1\n", {}, [
        ("line", 1, 2, True, "an executed line whose string literal contains the marker text"), ("scope", 1, None, True, "its function"), ("scope", 4, None, False, "a function with a real marker comment")]),
    ("pragma flag off", "def a():  # pragma: no cover\n    return 1\ndef b():  # pynguin: no cover\n    return 2\n", {"enable_inline_pragma_no_cover": False}, [
        ("scope", 1, None, True, "`# pragma: no cover` with the pragma flag off"), ("scope", 3, None, False, "`# pynguin: no cover` with the pragma flag off")]),
    ("pynguin flag off", "def a():  # pragma: no cover\n    return 1\ndef b():  # pynguin: no cover\n    return 2\n", {"enable_inline_pynguin_no_cover": False}, [
        ("scope", 1, None, False, "`# pragma: no cover` with the pynguin flag off"), ("scope", 3, None, True, "`# pynguin: no cover` with the pynguin flag off")]),
]


def _pipeline(ctx, repo) -> None:
    """ModuleAstInfo.from_path and the AstInfo oracles, interpreted from source over small modules and configurations,
    answer as the property demands (expected answers are written down per case, not computed by the code under analysis)."""
    from sa.engine import peval

    tmod = repo.module(TR)
    fp = repo.func(TR, "ModuleAstInfo.from_path")
    for q in ("ModuleAstInfo.from_path", "ModuleAstInfo._find_lines_in_source_code", "ModuleAstInfo._find_lines_in_ast", "ModuleAstInfo._find_excluded_block_lines", "AstInfo.should_be_covered", "AstInfo._in_cover"):
        ctx.analysed(repo.func(TR, q))
    cres = peval.repo_class_resolver(repo, only={"ModuleAstInfo", "AstInfo"})
    scope_node = tuple(getattr(ast, n.attr) for n in ast.walk(tmod.assigns["SCOPE_CLASSES"]) if isinstance(n, ast.Attribute))
    for label, src, conf, asks in _P:
        tree = ast.parse(src)
        import io as _io
        import tokenize as _tokenize
        import types as _types

        it = peval.Interp(resolver=peval.repo_resolver(repo), class_resolver=cres, native_types=(ast.AST, _types.ModuleType, _io.StringIO, _tokenize.TokenInfo), max_steps=3000000,
                          consts={"ast": ast, "_ast": ast, "TryStar": ast.TryStar, "ScopeNode": scope_node, "SCOPE_CLASSES": scope_node, "tokenize": _tokenize, "io": _io, "tokenize.COMMENT": _tokenize.COMMENT},
                          externs={"cast": lambda _t, v: v, "read_module_ast": lambda _p, tree=tree, src=src: (tree, src),
                                   "tokenize.generate_tokens": lambda rl: peval._guard(lambda: list(_tokenize.generate_tokens(rl))), "io.StringIO": _io.StringIO})
        cfgo = peval.Obj("to_cover_config", fields={"only_cover": list(conf.get("only_cover", [])), "no_cover": list(conf.get("no_cover", [])),
                                                     "enable_inline_pynguin_no_cover": conf.get("enable_inline_pynguin_no_cover", True), "enable_inline_pragma_no_cover": conf.get("enable_inline_pragma_no_cover", True)})
        try:
            proto = it.instantiate("ModuleAstInfo", cres("ModuleAstInfo", tmod), [], {"module_ast": tree, "only_cover_lines": frozenset(), "no_cover_lines": frozenset()}, init=False)
            mai = proto.methods["from_path"]("representative.py", cfgo)
        except peval.Undecided as exc:
            ctx.undecide("C08.pipeline", fp, f"[{label}] from_path: {exc}")
            continue
        except peval.Raises as exc:
            ctx.fail("C08.pipeline", fp, f"[{label}] from_path raises {exc.name} ({exc.detail[:60]})", stmt=f"[{label}] from_path")
            continue
        for kind, sline, line, want, what in asks:
            tag = f"[{label}] {what}"
            try:
                sc = mai.methods["get_scope"](sline)
                if sc is None:
                    ctx.fail("C08.pipeline", fp, f"{tag}: no scope is found for the code object starting on line {sline}", stmt=tag)
                    continue
                got = sc.methods["should_be_covered"]() if kind == "scope" else sc.methods["should_cover_line"](line)
            except peval.Undecided as exc:
                ctx.undecide("C08.pipeline", fp, f"{tag}: {exc}")
                continue
            except peval.Raises as exc:
                ctx.fail("C08.pipeline", fp, f"{tag}: raises {exc.name} ({exc.detail[:60]})", stmt=tag)
                continue
            verdict = "is a goal" if got else "is no goal"
            ctx.check("C08.pipeline", fp, bool(got) == want, f"{tag} {verdict} (config {conf or 'default'}): {'excluded code keeps its goals' if got else 'code that is to be covered loses its goals'}", what=f"{tag}: {'covered' if want else 'excluded'}", stmt=tag)


def _read_source(ctx, repo) -> None:
    """read_module_ast, interpreted with a representative file system, reads what the compiler reads: a UTF-8 byte-order
    mark and an encoding declaration do not make the exclusions of a module unavailable."""
    import io
    import tokenize

    from sa.engine import peval

    AM = "pynguin.analyses.module"
    fn = repo.try_func(AM, "read_module_ast")
    if fn is None:
        raise AnalysisError("anchor vanished: pynguin.analyses.module.read_module_ast")
    ctx.analysed(fn)
    amod = repo.module(AM)
    files = {
        "plain.py": ("def a():  # pragma: no cover\n    return 'x'\n".encode(), "x", "a plain UTF-8 module"),
        "bom.py": (b"\xef\xbb\xbf" + "def a():  # pragma: no cover\n    return 'x'\n".encode(), "x", "a module that starts with a UTF-8 byte-order mark"),
        "cookie.py": ("# -*- coding: latin-1 -*-\ndef a():  # pragma: no cover\n    return '\xe9'\n".encode("latin-1"), "\xe9", "a module with an encoding declaration (latin-1)"),
    }

    class _Path:
        def __init__(self, p):
            self.p = str(p)

        def read_text(self, encoding=None, errors=None):
            return peval._guard(io.TextIOWrapper(io.BytesIO(files[self.p][0]), encoding=encoding or "utf-8", errors=errors).read)

        def read_bytes(self):
            return files[self.p][0]

        def open(self, mode="r", encoding=None, **_k):
            return _open(self.p, mode, encoding=encoding)

    def _open(p, mode="r", encoding=None, **_k):
        data = files[str(getattr(p, "p", p))][0]
        return io.BytesIO(data) if "b" in mode else io.TextIOWrapper(io.BytesIO(data), encoding=encoding or "utf-8")

    def _tok_open(p):
        data = files[str(getattr(p, "p", p))][0]
        enc, _ = tokenize.detect_encoding(io.BytesIO(data).readline)
        return io.TextIOWrapper(io.BytesIO(data), encoding=enc, line_buffering=True)

    for name, (_data, lit, what) in files.items():
        tag = f"[read {what}]"
        it = peval.Interp(resolver=peval.repo_resolver(repo), native_types=(_Path, io.IOBase, ast.AST), max_steps=100000,
                          consts={"ast": ast, "tokenize": tokenize, "io": io}, externs={"Path": _Path, "open": _open, "tokenize.open": lambda *a, **k: peval._guard(_tok_open, *a, **k), "ast.parse": lambda *a, **k: peval._guard(ast.parse, *a, **k), "io.open": _open})
        try:
            res = it.run_function(fn, [name], {}, amod)
        except peval.Undecided as exc:
            ctx.undecide("C08.read", fn, f"{tag}: {exc}")
            continue
        except peval.Raises as exc:
            ctx.fail("C08.read", fn, f"{tag}: read_module_ast raises {exc.name} ({exc.detail[:70]}) although the interpreter compiles and imports the file: ModuleAstInfo.from_path returns None (or fails), so every `# pragma: no cover`, no_cover and only_cover setting of the module is ignored", stmt=tag)
            continue
        tree = res[0] if isinstance(res, tuple) and res else None
        strings = [n.value for n in ast.walk(tree) if isinstance(n, ast.Constant) and isinstance(n.value, str)] if isinstance(tree, ast.AST) else None
        ctx.check("C08.read", fn, strings is not None and lit in strings, f"{tag}: the tree that is returned holds the string constants {strings}, the compiler sees {lit!r}", what=f"{tag}: parsed as the compiler reads it", stmt=tag)
