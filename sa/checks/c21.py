"""C21 — kept assertions hold; minimisation preserves mutant kills; the score lies in [0, 1].

Decides, partly by interpreting small pure functions with the checker's evaluator:
 * survived / killed / timeout partition the mutants for every combination of the two per-mutant
   lists, the metrics count exactly those, and the score is killed / (checked - timeout) in [0, 1]
   (1.0 for an empty divisor) over a grid of counts;
 * _select_minimal_assertions keeps, for every kill map over 3 assertions x 3 mutants, only
   assertions that kill something, and the kept ones kill every mutant the full set killed;
 * was_violated is `failed or error`, and every reader of a verification trace in the mutation
   analysis (kill map, non-relevant removal, summary) counts both kinds;
 * results of execute_multiple are zipped with the very list that was executed;
 * minimisation removes exactly the assertions whose key is not in the kept set and skips
   statements that only carry an exception assertion, as the kill map does.
 * __remove_non_holding_assertions removes exactly the assertions the verification run flagged as
   failed or as raising, whatever the combination on one statement.
 * a mutant that was not executed (invalid module, budget) yields the skip token None on every path that does not
   run the tests, and the consumer counts / collects a column only under `is not None` (C21.unchecked);
 * ObjectAssertion equality, interpreted, conflates 1 and True, so no state of the verification observer may be
   keyed by an assertion object (C21.own-rendering).
Whether the verification run itself observes every violation (flakiness of the SUT) is not decided.
Further clauses (added later): C21.unchecked (must-pass / guard dominance): a mutant that was not executed
returns the skip token and is counted and collected only under `is not None`; C21.own-rendering: no
verification-observer state is keyed by assertion objects, whose equality conflates 1 and True; removing non-
holding assertions that raises is a finding.
"""

from __future__ import annotations

import ast
import itertools

from sa.engine import peval
from sa.engine.index import AnalysisError, last_attr, norm, own_nodes, parent

AG = "pynguin.assertion.assertiongenerator"
AT = "pynguin.assertion.assertion_trace"
GEN = "MutationAnalysisAssertionGenerator"


def _stmt(n):
    while n is not None and not isinstance(n, ast.stmt):
        n = parent(n)
    return n


class _OSet(list):
    """insertion-ordered set stand-in for pynguin's OrderedSet"""

    def add(self, x):
        if x not in self:
            self.append(x)

    def update(self, xs):
        for x in xs:
            self.add(x)


class _RepStatement:
    def __init__(self, assertions):
        self.assertions = list(assertions)


class _RepTest:
    def __init__(self, stmts):
        self._stmts = stmts

    def statements(self):
        return list(self._stmts)


class _RepVerification:
    def __init__(self, failed, error):
        self.failed, self.error = failed, error


class _RepResult:
    def __init__(self, failed, error):
        self.assertion_verification_trace = _RepVerification(failed, error)


def _non_holding(ctx, repo) -> None:
    """Interpret __remove_non_holding_assertions over every combination of (failed, error) position
    sets for a statement with three assertions, next to an untouched statement."""
    fn = repo.func(AG, "AssertionGenerator.__remove_non_holding_assertions")
    ctx.analysed(fn)
    subsets = [(), (0,), (2,), (0, 1), (0, 1, 2)]
    for failed in subsets:
        for error in subsets:
            if set(failed) & set(error):
                continue
            names = ["a0", "a1", "a2"]
            first, second, third = _RepStatement(["keep"]), _RepStatement(names), _RepStatement(["b0", "b1"])
            fmap = {1: set(failed)} if failed else {}
            emap = {1: set(error)} if error else {}
            emap[2] = {1}
            label = f"[failed={list(failed)} error={list(error)}]"
            it = peval.Interp(resolver=peval.repo_resolver(repo), native_types=(_RepStatement, _RepTest, _RepVerification, _RepResult), externs={"OrderedSet": lambda x=(): _OSet(x)})
            try:
                it.run_function(fn, [_RepTest([first, second, third]), _RepResult(fmap, emap)], {}, repo.module(AG))
            except peval.Undecided as exc:
                ctx.undecide("C21.non-holding", fn, f"{label} {exc}")
                continue
            except peval.Raises as exc:
                ctx.fail("C21.non-holding", fn, f"{label}: removing the flagged assertions raises {exc.name} ({exc.detail[:60]}): positions are deleted in an order that shifts the ones still to delete", stmt=label)
                continue
            want = [n for i, n in enumerate(names) if i not in failed and i not in error]
            ok = second.assertions == want and first.assertions == ["keep"] and third.assertions == ["b0"]
            ctx.check("C21.non-holding", fn, ok, f"{label}: after the verification run flagged these positions of a statement with assertions {names}, it keeps {second.assertions} (expected {want}); neighbours keep {first.assertions} / {third.assertions} (expected ['keep'] / ['b0']): an assertion that did not hold on the unmutated module stays on the test case, or one that held is dropped", what=f"{label} exactly the flagged assertions are removed", stmt=label)


def _unchecked(ctx, repo) -> None:
    """A mutant that was not executed never reaches the score: the producer returns the skip token on every path
    that does not run the tests, and the consumer counts a mutant only after testing for that token."""
    from sa.engine.cfg import CFG
    from sa.engine.guards import unguarded_path

    cls_fns = [(qn, fn) for m, qn, fn in repo.all_functions(AG) if qn.startswith(GEN + ".")]
    producers = [(qn, fn) for qn, fn in cls_fns if any(isinstance(c, ast.Call) and last_attr(c) == "execute_multiple" for c in own_nodes(fn)) and any(isinstance(c, ast.Call) and last_attr(c) == "add_mutated_version" for c in own_nodes(fn))]
    if len(producers) != 1:
        raise AnalysisError(f"C21.unchecked: expected one function that installs a mutant and executes the tests on it, found {[q for q, _ in producers]}")
    pqn, prod = producers[0]
    pname = pqn.rsplit(".", 1)[1]
    ctx.analysed(prod)
    cfg = CFG(prod)
    runs = cfg.find(lambda n: any(isinstance(c, ast.Call) and last_attr(c) == "execute_multiple" for c in ast.walk(n.stmt)) and not isinstance(n.stmt, (ast.If, ast.For, ast.While, ast.With, ast.Try)))
    before = cfg.reachable([cfg.entry], avoid_nodes=runs)
    rets = [n for n in cfg.nodes if isinstance(n.stmt, ast.Return)]
    n_skip = 0
    for n in rets:
        if n.id not in before:
            continue
        n_skip += 1
        v = n.stmt.value
        ok = v is None or (isinstance(v, ast.Constant) and v.value is None)
        ctx.check("C21.unchecked", n.stmt, ok, f"{pqn} returns `{norm(v) if v is not None else None}` on a path that never executes the tests on the mutant (an invalid module): the caller skips only the token None, so the mutant that was never checked gets a result column, is counted as checked and - never killed - lowers the mutation score as a survivor", what=f"{pname}: a path without execution returns the skip token None", stmt=f"[{pname}] return without execution")
    if n_skip == 0 and not any(isinstance(x, ast.Raise) for x in own_nodes(prod)):
        ctx.fail("C21.unchecked", prod, f"{pqn}: no path leaves without executing although the mutated module may be None (invalid mutant)", stmt=f"[{pname}] skip path")
    # generator in between: yields exactly the producer's result
    gens = [(qn, fn) for qn, fn in cls_fns if any(isinstance(y, ast.Yield) for y in own_nodes(fn)) and any(isinstance(c, ast.Call) and last_attr(c) == pname for c in own_nodes(fn))]
    if len(gens) != 1:
        raise AnalysisError(f"C21.unchecked: expected one generator yielding the per-mutant results, found {[q for q, _ in gens]}")
    gqn, gen = gens[0]
    gname = gqn.rsplit(".", 1)[1]
    ctx.analysed(gen)
    for y in [y for y in own_nodes(gen) if isinstance(y, ast.Yield)]:
        v = y.value
        ok = isinstance(v, ast.Call) and last_attr(v) == pname
        ctx.check("C21.unchecked", y, ok, f"{gqn} yields `{norm(v) if v is not None else None}`, not the result of {pname}: a mutant that was not executed (budget exceeded / invalid) would get a column", what=f"{gname}: yields only per-mutant results", stmt=f"[{gname}] yield")
    # consumer: counting after the skip test
    consumers = [(qn, fn) for qn, fn in cls_fns for f in own_nodes(fn) if isinstance(f, ast.For) and isinstance(f.iter, ast.Call) and last_attr(f.iter) == gname]
    if len(consumers) != 1:
        raise AnalysisError(f"C21.unchecked: expected one loop over {gname}, found {[q for q, _ in consumers]}")
    cqn, cons = consumers[0]
    cname = cqn.rsplit(".", 1)[1]
    ctx.analysed(cons)
    loop = next(f for f in own_nodes(cons) if isinstance(f, ast.For) and isinstance(f.iter, ast.Call) and last_attr(f.iter) == gname)
    if not isinstance(loop.target, ast.Name):
        raise AnalysisError("C21.unchecked: loop target is not a name")
    var = loop.target.id
    ccfg = CFG(cons)
    effects = [x for st in loop.body for x in ast.walk(st) if isinstance(x, ast.AugAssign) or (isinstance(x, ast.Call) and last_attr(x) in ("append", "extend", "add"))]
    if not effects:
        raise AnalysisError("C21.unchecked: the consumer loop neither counts nor collects")

    def wanted(lit):
        _k, e, pos = lit
        return isinstance(e, ast.Compare) and len(e.ops) == 1 and isinstance(e.left, ast.Name) and e.left.id == var and isinstance(e.comparators[0], ast.Constant) and e.comparators[0].value is None and ((isinstance(e.ops[0], ast.IsNot) and pos) or (isinstance(e.ops[0], ast.Is) and not pos))

    from sa.engine.guards import stmt_cfg_nodes
    for x in effects:
        nodes = stmt_cfg_nodes(ccfg, x)
        path = unguarded_path(ccfg, nodes, wanted)
        ctx.check("C21.unchecked", x, path is None, f"{cqn}: `{norm(x)}` is reached without the test `{var} is not None`: a mutant that was not executed is counted as checked / gets a result column and enters the score as a survivor", what=f"{cname}: `{norm(x)[:50]}` only for executed mutants", stmt=f"[{cname}] {norm(x)[:60]}")


def _own_rendering(ctx, repo) -> None:
    """Equal assertions need not render equally (ObjectAssertion compares values with ==, so 1 == True == 1.0): the
    verification observer must not look an assertion's source up in state keyed by the assertion object."""
    AS = "pynguin.assertion.assertion"
    ATO = "pynguin.assertion.assertiontraceobserver"
    amod = repo.module(AS)
    cres = peval.repo_class_resolver(repo, only={"ObjectAssertion", "ReferenceAssertion", "Assertion"})
    it = peval.Interp(resolver=peval.repo_resolver(repo), class_resolver=cres, max_steps=20000)
    ctx.analysed(repo.func(AS, "ObjectAssertion.__eq__"))
    try:
        a = it.instantiate("ObjectAssertion", cres("ObjectAssertion", amod), ["var_0", 1], {})
        b = it.instantiate("ObjectAssertion", cres("ObjectAssertion", amod), ["var_0", True], {})
        coarse = bool(a.methods["__eq__"](b)) if "__eq__" in a.methods else bool(a == b)
    except (peval.Undecided, peval.Raises) as exc:
        ctx.undecide("C21.own-rendering", repo.func(AS, "ObjectAssertion.__eq__"), f"ObjectAssertion equality not interpretable: {exc}")
        return
    n = 0
    for mod, qn, fn in repo.all_functions(ATO):
        if "Verification" not in qn:
            continue
        names: set[str] = set()
        for a_ in (*fn.args.args, *fn.args.kwonlyargs):
            if a_.annotation is not None and norm(a_.annotation).endswith("Assertion"):
                names.add(a_.arg)
        for f in own_nodes(fn):
            if isinstance(f, (ast.For, ast.comprehension)) and any(isinstance(x, ast.Attribute) and x.attr == "assertions" for x in ast.walk(f.iter)):
                tgt = f.target
                names |= {x.id for x in ast.walk(tgt) if isinstance(x, ast.Name)}
        if not names:
            continue
        ctx.analysed(fn)
        n += 1
        bad = []
        for x in own_nodes(fn):
            key = None
            if isinstance(x, ast.Subscript) and norm(x.value).startswith("self."):
                key = x.slice
            elif isinstance(x, ast.Call) and isinstance(x.func, ast.Attribute) and x.func.attr in ("get", "setdefault", "pop") and norm(x.func.value).startswith("self.") and x.args:
                key = x.args[0]
            elif isinstance(x, ast.Compare) and any(isinstance(o, (ast.In, ast.NotIn)) for o in x.ops) and any(norm(c).startswith("self.") for c in x.comparators):
                key = x.left
            if key is None:
                continue
            direct = [k for k in ([key] if not isinstance(key, ast.Tuple) else key.elts) if isinstance(k, ast.Name) and k.id in names]
            if direct:
                bad.append(x)
        ctx.check("C21.own-rendering", bad[0] if bad else fn, not (bad and coarse), f"{qn}: `{norm(bad[0]) if bad else ''}` looks observer state up by the assertion object, but equal assertions do not render equally (ObjectAssertion('var_0', 1) == ObjectAssertion('var_0', True) while one renders `== 1` and the other `is True`): the verification run executes the source of a different assertion, so an assertion that does not hold on the unmutated module is kept (or a holding one removed)", what=f"{qn}: no state keyed by assertion objects", stmt=f"[{qn}] state keyed by assertion")
    if n == 0:
        raise AnalysisError("C21.own-rendering: no verification function iterates over statement assertions")


def check(ctx) -> None:
    repo = ctx.repo
    ctx.rule("C21.own-rendering", "ABSINT + WHO-MAY: ObjectAssertion equality (interpreted) conflates 1 and True, so no verification-observer state is keyed by an assertion object", floor=1)
    _own_rendering(ctx, repo)
    ctx.rule("C21.unchecked", "MUST-PASS + GUARD-DOM: the per-mutant producer returns the skip token None on every path that does not execute the tests; the generator yields only producer results; the consumer counts and collects only under `is not None`", floor=4)
    _unchecked(ctx, repo)
    ctx.rule("C21.non-holding", "ABSINT: __remove_non_holding_assertions, interpreted over every disjoint combination of failed / erroring positions, removes exactly the flagged assertions of each statement", floor=13)
    _non_holding(ctx, repo)
    ctx.rule("C21.partition", "ABSINT: get_survived / get_killed / get_timeout partition the mutants for all 4 states of (killed_by, timed_out_by); get_metrics counts them; get_score = killed / (created - timeout) in [0, 1], 1.0 when nothing was checked", floor=30)
    ctx.rule("C21.select", "ABSINT: for every kill map over 3 assertions x 3 mutants the selection keeps only assertions with a non-empty kill set and preserves the union of killed mutants", floor=500)
    ctx.rule("C21.violated", "was_violated counts failed and error; every reader of a verification trace in the mutation analysis counts both kinds (through was_violated or by reading both maps)", floor=5)
    ctx.rule("C21.zip", "results of <executor>.execute_multiple(L) are zipped with L itself (strict)", floor=2)
    ctx.rule("C21.minimize", "minimisation removes exactly the assertions whose (stmt, assertion) key is not kept; statements with only an exception assertion are skipped by both the kill map and the removal", floor=4)

    mod = repo.module(AG)
    resolver = peval.repo_resolver(repo)

    # ------------------------------------------------------------------ C21.partition
    fns = {n: repo.func(AG, f"_MutationSummary.{n}") for n in ("get_survived", "get_killed", "get_timeout", "get_metrics")}
    score = repo.func(AG, "_MutationMetrics.get_score")
    for f in (*fns.values(), score):
        ctx.analysed(f)
    states = [([], []), ([1], []), ([], [2]), ([1], [2])]

    def info(i, killed, timed):
        return peval.Obj(f"m{i}", fields={"mut_num": i, "killed_by": list(killed), "timed_out_by": list(timed)})

    for combo in itertools.product(range(4), repeat=3):
        infos = [info(i, *states[s]) for i, s in enumerate(combo)]
        summary = peval.Obj("summary", fields={"mutant_information": infos})

        def run(name, summary=summary):
            return peval.Interp(resolver=resolver).run_function(fns[name], [summary], {}, mod)

        try:
            sv, kl, to = run("get_survived"), run("get_killed"), run("get_timeout")
        except (peval.Undecided, peval.Raises) as exc:
            ctx.undecide("C21.partition", fns["get_killed"], f"{combo}: {exc}")
            continue
        ids = sorted(map(id, [*sv, *kl, *to]))
        ok = ids == sorted(map(id, infos))
        want_k = [i for i, s in zip(infos, combo) if s == 1]
        want_t = [i for i, s in zip(infos, combo) if s in (2, 3)]
        ok = ok and sorted(map(id, kl)) == sorted(map(id, want_k)) and sorted(map(id, to)) == sorted(map(id, want_t))
        ctx.check("C21.partition", fns["get_killed"], ok, f"mutant states {[('killed' if states[s][0] else '') + ('+timeout' if states[s][1] else '') or 'survived' for s in combo]}: survived/killed/timeout = {len(sv)}/{len(kl)}/{len(to)} do not partition the mutants (killed = killed and not timed out; timeout = timed out)", what=f"states {combo}: partition {len(sv)}/{len(kl)}/{len(to)}", stmt=f"[partition] {combo}")
    # metrics wiring
    gm = fns["get_metrics"]
    call = next((n for n in own_nodes(gm) if isinstance(n, ast.Call) and norm(n.func) == "_MutationMetrics"), None)
    kw = {k.arg: norm(k.value) for k in call.keywords} if call is not None else {}
    ctx.check("C21.partition", gm, kw == {"num_created_mutants": "len(self.mutant_information)", "num_killed_mutants": "len(self.get_killed())", "num_timeout_mutants": "len(self.get_timeout())"}, f"get_metrics passes {kw}", what="metrics = (len(all), len(killed), len(timeout))", stmt="[metrics]")
    for created in range(0, 5):
        for timeout in range(0, created + 1):
            for killed in range(0, created - timeout + 1):
                m = peval.Obj("metrics", fields={"num_created_mutants": created, "num_killed_mutants": killed, "num_timeout_mutants": timeout})
                try:
                    sc = peval.Interp(resolver=resolver).run_function(score, [m], {}, mod)
                except peval.Raises as exc:
                    ctx.fail("C21.partition", score, f"get_score(created={created}, killed={killed}, timeout={timeout}) raises {exc.name}", stmt=f"[score] {created}/{killed}/{timeout}")
                    continue
                except peval.Undecided as exc:
                    ctx.undecide("C21.partition", score, str(exc))
                    continue
                want = 1.0 if created - timeout == 0 else killed / (created - timeout)
                ctx.check("C21.partition", score, isinstance(sc, float) and 0.0 <= sc <= 1.0 and abs(sc - want) < 1e-12, f"get_score(created={created}, killed={killed}, timeout={timeout}) = {sc!r}, expected {want}", what=f"score({created},{killed},{timeout}) = {want}", stmt=f"[score] {created}/{killed}/{timeout}")

    # ------------------------------------------------------------------ C21.select
    sel = repo.func(AG, "_select_minimal_assertions")
    ctx.analysed(sel)
    keys = [(0, 0), (0, 1), (1, 0)]
    subsets = [set(c) for r in range(4) for c in itertools.combinations(range(3), r)]
    rows = 0
    bad = None
    for combo in itertools.product(subsets, repeat=3):
        km = {k: set(v) for k, v in zip(keys, combo)}
        try:
            keep = peval.Interp(resolver=resolver).run_function(sel, [{k: set(v) for k, v in km.items()}], {}, mod)
        except peval.Undecided as exc:
            ctx.undecide("C21.select", sel, str(exc))
            bad = "undecided"
            break
        except peval.Raises as exc:
            bad = f"kill map {km}: raises {exc.name} {exc.detail}"
            break
        rows += 1
        universe = set().union(*km.values())
        kept_kills = set().union(*(km[k] for k in keep)) if keep else set()
        if not set(keep) <= set(keys) or any(not km[k] for k in keep) or kept_kills != universe:
            bad = f"kill map {km}: kept {sorted(keep)} kill {sorted(kept_kills)}, the full set kills {sorted(universe)}"
            break
    ctx.extra["select_rows"] = rows
    if bad and bad != "undecided":
        ctx.fail("C21.select", sel, f"{bad}: the minimised assertions no longer kill every mutant the full set killed (or keep an assertion that kills nothing)", stmt="[partition] " + bad[:80])
    elif not bad:
        ctx.rule_counts["C21.select"] = ctx.rule_counts.get("C21.select", 0) + rows - 1
        ctx.ok("C21.select", sel, f"{rows} kill maps: kept assertions non-empty and kill-preserving")

    # ------------------------------------------------------------------ C21.violated
    wv = repo.func(AT, "AssertionVerificationTrace.was_violated")
    ctx.analysed(wv)
    amod = repo.module(AT)
    for in_failed, in_error in itertools.product((False, True), repeat=2):
        tr = peval.Obj("trace", fields={"failed": {2: {1}} if in_failed else {}, "error": {2: {1}} if in_error else {3: {1}}})
        try:
            got = peval.Interp(resolver=resolver).run_function(wv, [tr, 2, 1], {}, amod)
            ctx.check("C21.violated", wv, bool(got) == (in_failed or in_error), f"was_violated with failed={in_failed}, error={in_error} returns {got}", what=f"was_violated(failed={in_failed}, error={in_error})", stmt=f"[{in_failed},{in_error}]")
        except (peval.Undecided, peval.Raises) as exc:
            ctx.undecide("C21.violated", wv, str(exc))
    for qn, fn in mod.functions.items():
        if not qn.startswith(GEN + "."):
            continue
        reads_failed = [n for n in own_nodes(fn) if isinstance(n, ast.Attribute) and n.attr == "failed" and "verification" in norm(n.value)]
        reads_error = [n for n in own_nodes(fn) if isinstance(n, ast.Attribute) and n.attr == "error" and "verification" in norm(n.value)]
        uses_wv = [n for n in own_nodes(fn) if isinstance(n, ast.Call) and last_attr(n) == "was_violated"]
        if not (reads_failed or reads_error or uses_wv):
            continue
        ctx.analysed(fn)
        ok = bool(uses_wv) and not (reads_failed or reads_error) or (bool(reads_failed) and bool(reads_error)) or (bool(uses_wv) and bool(reads_failed) == bool(reads_error))
        ctx.check("C21.violated", fn, ok, f"{qn} reads `.failed` of a verification trace but not `.error` (or the reverse): an assertion that raises on a mutant is not counted as killing it here, while the other sites count it", what=f"{qn}: both kinds of violation counted")

    # ------------------------------------------------------------------ C21.zip
    for qn, fn in mod.functions.items():
        for n in own_nodes(fn):
            if isinstance(n, ast.Call) and norm(n.func) == "zip" and len(n.args) >= 2:
                for i, a in enumerate(n.args):
                    if isinstance(a, ast.Call) and last_attr(a) == "execute_multiple" and a.args:
                        ctx.analysed(fn)
                        others = [norm(x) for j, x in enumerate(n.args) if j != i]
                        strict = any(k.arg == "strict" and norm(k.value) == "True" for k in n.keywords)
                        ctx.check("C21.zip", n, norm(a.args[0]) in others and strict, f"{qn}: results of execute_multiple({norm(a.args[0])}) are zipped with {others}: each result is attributed to a different test case than the one that produced it", what=f"{qn}: results zipped with the executed list")

    # ------------------------------------------------------------------ C21.minimize
    mn = repo.func(AG, f"{GEN}.__minimize_assertions")
    bk = repo.func(AG, f"{GEN}.__build_kill_map")
    ctx.analysed(mn)
    ctx.analysed(bk)
    rem = [n for n in own_nodes(mn) if isinstance(n, ast.Call) and norm(n.func) == "statement.assertions.remove"]
    ok = len(rem) == 1
    if ok:
        conds = []
        n_, p_ = _stmt(rem[0]), parent(_stmt(rem[0]))
        while p_ is not None and p_ is not mn:
            if isinstance(p_, ast.If) and n_ in p_.body:
                conds.append(norm(p_.test))
            n_, p_ = p_, parent(p_)
        ok = conds == ["(stmt_idx, assertion_idx) not in keep"]
    ctx.check("C21.minimize", mn, ok, "an assertion is removed under a condition other than `(stmt_idx, assertion_idx) not in keep`", what="removed iff key not kept")
    keepdef = [n for n in own_nodes(mn) if isinstance(n, ast.Assign) and norm(n.targets[0]) == "keep"]
    ctx.check("C21.minimize", mn, len(keepdef) == 1 and norm(keepdef[0].value) == "_select_minimal_assertions(kill_map)", "the kept set is not _select_minimal_assertions(kill_map)", what="keep = _select_minimal_assertions(kill_map)", stmt="[keep]")
    for fn in (mn, bk):
        skip = [n for n in own_nodes(fn) if isinstance(n, ast.If) and norm(n.test) == "statement.has_only_exception_assertion()" and any(isinstance(x, ast.Continue) for x in n.body)]
        ctx.check("C21.minimize", fn, len(skip) == 1, f"{fn.name}: statements that only carry an exception assertion are not skipped (kill map and removal must agree on the statements they consider)", what=f"{fn.name}: exception-only statements skipped", stmt="[skip]")
    # keys of the kill map are (stmt_idx, assertion_idx) over enumerate(test.statements()) x range(len(statement.assertions))
    st = [n for n in own_nodes(bk) if isinstance(n, ast.Assign) and isinstance(n.targets[0], ast.Subscript) and norm(n.targets[0].value) == "kill_map"]
    ok = bool(st) and all(norm(s.targets[0].slice) in ("(stmt_idx, assertion_idx)", "stmt_idx, assertion_idx") for s in st)
    ctx.check("C21.minimize", bk, ok, "kill map keys are not (stmt_idx, assertion_idx)", what="kill map keyed by (stmt_idx, assertion_idx)", stmt="[keys]")
    tm = [n for n in ast.walk(bk) if isinstance(n, ast.Compare) and "timed_out_by" in norm(n)]
    ctx.check("C21.minimize", bk, bool(tm), "the kill map no longer ignores timed-out mutants", what="timed-out mutants ignored in the kill map", stmt="[timeout]")
