"""C21 — kept assertions hold; minimisation preserves mutant kills; the score lies in [0, 1].

Decides, partly by interpreting small pure functions with the checker's evaluator:
 * survived / killed / timeout partition the mutants for every combination of the two per-mutant
   lists, the metrics count exactly those, and the score is killed / (checked - timeout) in [0, 1]
   (1.0 for an empty divisor) over a grid of counts;
 * _select_minimal_assertions keeps, for every kill map over 3 assertions x 3 mutants, only
   assertions that kill something, and the kept ones kill every mutant the full set killed;
 * was_violated is `failed or error`, and every reader of a verification trace in the mutation
   analysis (kill map, non-relevant removal, summary) counts both kinds;
 * results of execute_multiple are zipped with the very list that was executed;
 * minimisation removes exactly the assertions whose key is not in the kept set and skips
   statements that only carry an exception assertion, as the kill map does.
 * __remove_non_holding_assertions removes exactly the assertions the verification run flagged as
   failed or as raising, whatever the combination on one statement.
Whether the verification run itself observes every violation (flakiness of the SUT) is not decided.
"""

from __future__ import annotations

import ast
import itertools

from sa.engine import peval
from sa.engine.index import AnalysisError, last_attr, norm, own_nodes, parent

AG = "pynguin.assertion.assertiongenerator"
AT = "pynguin.assertion.assertion_trace"
GEN = "MutationAnalysisAssertionGenerator"


def _stmt(n):
    while n is not None and not isinstance(n, ast.stmt):
        n = parent(n)
    return n


class _OSet(list):
    """insertion-ordered set stand-in for pynguin's OrderedSet"""

    def add(self, x):
        if x not in self:
            self.append(x)

    def update(self, xs):
        for x in xs:
            self.add(x)


class _RepStatement:
    def __init__(self, assertions):
        self.assertions = list(assertions)


class _RepTest:
    def __init__(self, stmts):
        self._stmts = stmts

    def statements(self):
        return list(self._stmts)


class _RepVerification:
    def __init__(self, failed, error):
        self.failed, self.error = failed, error


class _RepResult:
    def __init__(self, failed, error):
        self.assertion_verification_trace = _RepVerification(failed, error)


def _non_holding(ctx, repo) -> None:
    """Interpret __remove_non_holding_assertions over every combination of (failed, error) position
    sets for a statement with three assertions, next to an untouched statement."""
    fn = repo.func(AG, "AssertionGenerator.__remove_non_holding_assertions")
    ctx.analysed(fn)
    subsets = [(), (0,), (2,), (0, 1), (0, 1, 2)]
    for failed in subsets:
        for error in subsets:
            if set(failed) & set(error):
                continue
            names = ["a0", "a1", "a2"]
            first, second, third = _RepStatement(["keep"]), _RepStatement(names), _RepStatement(["b0", "b1"])
            fmap = {1: set(failed)} if failed else {}
            emap = {1: set(error)} if error else {}
            emap[2] = {1}
            label = f"[failed={list(failed)} error={list(error)}]"
            it = peval.Interp(resolver=peval.repo_resolver(repo), native_types=(_RepStatement, _RepTest, _RepVerification, _RepResult), externs={"OrderedSet": lambda x=(): _OSet(x)})
            try:
                it.run_function(fn, [_RepTest([first, second, third]), _RepResult(fmap, emap)], {}, repo.module(AG))
            except peval.Undecided as exc:
                ctx.undecide("C21.non-holding", fn, f"{label} {exc}")
                continue
            except peval.Raises as exc:
                ctx.fail("C21.non-holding", fn, f"{label}: removing the flagged assertions raises {exc.name} ({exc.detail[:60]}): positions are deleted in an order that shifts the ones still to delete", stmt=label)
                continue
            want = [n for i, n in enumerate(names) if i not in failed and i not in error]
            ok = second.assertions == want and first.assertions == ["keep"] and third.assertions == ["b0"]
            ctx.check("C21.non-holding", fn, ok, f"{label}: after the verification run flagged these positions of a statement with assertions {names}, it keeps {second.assertions} (expected {want}); neighbours keep {first.assertions} / {third.assertions} (expected ['keep'] / ['b0']): an assertion that did not hold on the unmutated module stays on the test case, or one that held is dropped", what=f"{label} exactly the flagged assertions are removed", stmt=label)


def check(ctx) -> None:
    repo = ctx.repo
    ctx.rule("C21.non-holding", "ABSINT: __remove_non_holding_assertions, interpreted over every disjoint combination of failed / erroring positions, removes exactly the flagged assertions of each statement", floor=13)
    _non_holding(ctx, repo)
    ctx.rule("C21.partition", "ABSINT: get_survived / get_killed / get_timeout partition the mutants for all 4 states of (killed_by, timed_out_by); get_metrics counts them; get_score = killed / (created - timeout) in [0, 1], 1.0 when nothing was checked", floor=30)
    ctx.rule("C21.select", "ABSINT: for every kill map over 3 assertions x 3 mutants the selection keeps only assertions with a non-empty kill set and preserves the union of killed mutants", floor=500)
    ctx.rule("C21.violated", "was_violated counts failed and error; every reader of a verification trace in the mutation analysis counts both kinds (through was_violated or by reading both maps)", floor=5)
    ctx.rule("C21.zip", "results of <executor>.execute_multiple(L) are zipped with L itself (strict)", floor=2)
    ctx.rule("C21.minimize", "minimisation removes exactly the assertions whose (stmt, assertion) key is not kept; statements with only an exception assertion are skipped by both the kill map and the removal", floor=4)

    mod = repo.module(AG)
    resolver = peval.repo_resolver(repo)

    # ------------------------------------------------------------------ C21.partition
    fns = {n: repo.func(AG, f"_MutationSummary.{n}") for n in ("get_survived", "get_killed", "get_timeout", "get_metrics")}
    score = repo.func(AG, "_MutationMetrics.get_score")
    for f in (*fns.values(), score):
        ctx.analysed(f)
    states = [([], []), ([1], []), ([], [2]), ([1], [2])]

    def info(i, killed, timed):
        return peval.Obj(f"m{i}", fields={"mut_num": i, "killed_by": list(killed), "timed_out_by": list(timed)})

    for combo in itertools.product(range(4), repeat=3):
        infos = [info(i, *states[s]) for i, s in enumerate(combo)]
        summary = peval.Obj("summary", fields={"mutant_information": infos})

        def run(name, summary=summary):
            return peval.Interp(resolver=resolver).run_function(fns[name], [summary], {}, mod)

        try:
            sv, kl, to = run("get_survived"), run("get_killed"), run("get_timeout")
        except (peval.Undecided, peval.Raises) as exc:
            ctx.undecide("C21.partition", fns["get_killed"], f"{combo}: {exc}")
            continue
        ids = sorted(map(id, [*sv, *kl, *to]))
        ok = ids == sorted(map(id, infos))
        want_k = [i for i, s in zip(infos, combo) if s == 1]
        want_t = [i for i, s in zip(infos, combo) if s in (2, 3)]
        ok = ok and sorted(map(id, kl)) == sorted(map(id, want_k)) and sorted(map(id, to)) == sorted(map(id, want_t))
        ctx.check("C21.partition", fns["get_killed"], ok, f"mutant states {[('killed' if states[s][0] else '') + ('+timeout' if states[s][1] else '') or 'survived' for s in combo]}: survived/killed/timeout = {len(sv)}/{len(kl)}/{len(to)} do not partition the mutants (killed = killed and not timed out; timeout = timed out)", what=f"states {combo}: partition {len(sv)}/{len(kl)}/{len(to)}", stmt=f"[partition] {combo}")
    # metrics wiring
    gm = fns["get_metrics"]
    call = next((n for n in own_nodes(gm) if isinstance(n, ast.Call) and norm(n.func) == "_MutationMetrics"), None)
    kw = {k.arg: norm(k.value) for k in call.keywords} if call is not None else {}
    ctx.check("C21.partition", gm, kw == {"num_created_mutants": "len(self.mutant_information)", "num_killed_mutants": "len(self.get_killed())", "num_timeout_mutants": "len(self.get_timeout())"}, f"get_metrics passes {kw}", what="metrics = (len(all), len(killed), len(timeout))", stmt="[metrics]")
    for created in range(0, 5):
        for timeout in range(0, created + 1):
            for killed in range(0, created - timeout + 1):
                m = peval.Obj("metrics", fields={"num_created_mutants": created, "num_killed_mutants": killed, "num_timeout_mutants": timeout})
                try:
                    sc = peval.Interp(resolver=resolver).run_function(score, [m], {}, mod)
                except peval.Raises as exc:
                    ctx.fail("C21.partition", score, f"get_score(created={created}, killed={killed}, timeout={timeout}) raises {exc.name}", stmt=f"[score] {created}/{killed}/{timeout}")
                    continue
                except peval.Undecided as exc:
                    ctx.undecide("C21.partition", score, str(exc))
                    continue
                want = 1.0 if created - timeout == 0 else killed / (created - timeout)
                ctx.check("C21.partition", score, isinstance(sc, float) and 0.0 <= sc <= 1.0 and abs(sc - want) < 1e-12, f"get_score(created={created}, killed={killed}, timeout={timeout}) = {sc!r}, expected {want}", what=f"score({created},{killed},{timeout}) = {want}", stmt=f"[score] {created}/{killed}/{timeout}")

    # ------------------------------------------------------------------ C21.select
    sel = repo.func(AG, "_select_minimal_assertions")
    ctx.analysed(sel)
    keys = [(0, 0), (0, 1), (1, 0)]
    subsets = [set(c) for r in range(4) for c in itertools.combinations(range(3), r)]
    rows = 0
    bad = None
    for combo in itertools.product(subsets, repeat=3):
        km = {k: set(v) for k, v in zip(keys, combo)}
        try:
            keep = peval.Interp(resolver=resolver).run_function(sel, [{k: set(v) for k, v in km.items()}], {}, mod)
        except peval.Undecided as exc:
            ctx.undecide("C21.select", sel, str(exc))
            bad = "undecided"
            break
        except peval.Raises as exc:
            bad = f"kill map {km}: raises {exc.name} {exc.detail}"
            break
        rows += 1
        universe = set().union(*km.values())
        kept_kills = set().union(*(km[k] for k in keep)) if keep else set()
        if not set(keep) <= set(keys) or any(not km[k] for k in keep) or kept_kills != universe:
            bad = f"kill map {km}: kept {sorted(keep)} kill {sorted(kept_kills)}, the full set kills {sorted(universe)}"
            break
    ctx.extra["select_rows"] = rows
    if bad and bad != "undecided":
        ctx.fail("C21.select", sel, f"{bad}: the minimised assertions no longer kill every mutant the full set killed (or keep an assertion that kills nothing)", stmt="[partition] " + bad[:80])
    elif not bad:
        ctx.rule_counts["C21.select"] = ctx.rule_counts.get("C21.select", 0) + rows - 1
        ctx.ok("C21.select", sel, f"{rows} kill maps: kept assertions non-empty and kill-preserving")

    # ------------------------------------------------------------------ C21.violated
    wv = repo.func(AT, "AssertionVerificationTrace.was_violated")
    ctx.analysed(wv)
    amod = repo.module(AT)
    for in_failed, in_error in itertools.product((False, True), repeat=2):
        tr = peval.Obj("trace", fields={"failed": {2: {1}} if in_failed else {}, "error": {2: {1}} if in_error else {3: {1}}})
        try:
            got = peval.Interp(resolver=resolver).run_function(wv, [tr, 2, 1], {}, amod)
            ctx.check("C21.violated", wv, bool(got) == (in_failed or in_error), f"was_violated with failed={in_failed}, error={in_error} returns {got}", what=f"was_violated(failed={in_failed}, error={in_error})", stmt=f"[{in_failed},{in_error}]")
        except (peval.Undecided, peval.Raises) as exc:
            ctx.undecide("C21.violated", wv, str(exc))
    for qn, fn in mod.functions.items():
        if not qn.startswith(GEN + "."):
            continue
        reads_failed = [n for n in own_nodes(fn) if isinstance(n, ast.Attribute) and n.attr == "failed" and "verification" in norm(n.value)]
        reads_error = [n for n in own_nodes(fn) if isinstance(n, ast.Attribute) and n.attr == "error" and "verification" in norm(n.value)]
        uses_wv = [n for n in own_nodes(fn) if isinstance(n, ast.Call) and last_attr(n) == "was_violated"]
        if not (reads_failed or reads_error or uses_wv):
            continue
        ctx.analysed(fn)
        ok = bool(uses_wv) and not (reads_failed or reads_error) or (bool(reads_failed) and bool(reads_error)) or (bool(uses_wv) and bool(reads_failed) == bool(reads_error))
        ctx.check("C21.violated", fn, ok, f"{qn} reads `.failed` of a verification trace but not `.error` (or the reverse): an assertion that raises on a mutant is not counted as killing it here, while the other sites count it", what=f"{qn}: both kinds of violation counted")

    # ------------------------------------------------------------------ C21.zip
    for qn, fn in mod.functions.items():
        for n in own_nodes(fn):
            if isinstance(n, ast.Call) and norm(n.func) == "zip" and len(n.args) >= 2:
                for i, a in enumerate(n.args):
                    if isinstance(a, ast.Call) and last_attr(a) == "execute_multiple" and a.args:
                        ctx.analysed(fn)
                        others = [norm(x) for j, x in enumerate(n.args) if j != i]
                        strict = any(k.arg == "strict" and norm(k.value) == "True" for k in n.keywords)
                        ctx.check("C21.zip", n, norm(a.args[0]) in others and strict, f"{qn}: results of execute_multiple({norm(a.args[0])}) are zipped with {others}: each result is attributed to a different test case than the one that produced it", what=f"{qn}: results zipped with the executed list")

    # ------------------------------------------------------------------ C21.minimize
    mn = repo.func(AG, f"{GEN}.__minimize_assertions")
    bk = repo.func(AG, f"{GEN}.__build_kill_map")
    ctx.analysed(mn)
    ctx.analysed(bk)
    rem = [n for n in own_nodes(mn) if isinstance(n, ast.Call) and norm(n.func) == "statement.assertions.remove"]
    ok = len(rem) == 1
    if ok:
        conds = []
        n_, p_ = _stmt(rem[0]), parent(_stmt(rem[0]))
        while p_ is not None and p_ is not mn:
            if isinstance(p_, ast.If) and n_ in p_.body:
                conds.append(norm(p_.test))
            n_, p_ = p_, parent(p_)
        ok = conds == ["(stmt_idx, assertion_idx) not in keep"]
    ctx.check("C21.minimize", mn, ok, "an assertion is removed under a condition other than `(stmt_idx, assertion_idx) not in keep`", what="removed iff key not kept")
    keepdef = [n for n in own_nodes(mn) if isinstance(n, ast.Assign) and norm(n.targets[0]) == "keep"]
    ctx.check("C21.minimize", mn, len(keepdef) == 1 and norm(keepdef[0].value) == "_select_minimal_assertions(kill_map)", "the kept set is not _select_minimal_assertions(kill_map)", what="keep = _select_minimal_assertions(kill_map)", stmt="[keep]")
    for fn in (mn, bk):
        skip = [n for n in own_nodes(fn) if isinstance(n, ast.If) and norm(n.test) == "statement.has_only_exception_assertion()" and any(isinstance(x, ast.Continue) for x in n.body)]
        ctx.check("C21.minimize", fn, len(skip) == 1, f"{fn.name}: statements that only carry an exception assertion are not skipped (kill map and removal must agree on the statements they consider)", what=f"{fn.name}: exception-only statements skipped", stmt="[skip]")
    # keys of the kill map are (stmt_idx, assertion_idx) over enumerate(test.statements()) x range(len(statement.assertions))
    st = [n for n in own_nodes(bk) if isinstance(n, ast.Assign) and isinstance(n.targets[0], ast.Subscript) and norm(n.targets[0].value) == "kill_map"]
    ok = bool(st) and all(norm(s.targets[0].slice) in ("(stmt_idx, assertion_idx)", "stmt_idx, assertion_idx") for s in st)
    ctx.check("C21.minimize", bk, ok, "kill map keys are not (stmt_idx, assertion_idx)", what="kill map keyed by (stmt_idx, assertion_idx)", stmt="[keys]")
    tm = [n for n in ast.walk(bk) if isinstance(n, ast.Compare) and "timed_out_by" in norm(n)]
    ctx.check("C21.minimize", bk, bool(tm), "the kill map no longer ignores timed-out mutants", what="timed-out mutants ignored in the kill map", stmt="[timeout]")
