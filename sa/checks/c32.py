"""C32 — non-terminating tests time out without polluting later executions.

Decides the mechanism by code shape: every tracer method that writes the trace first checks that
the calling thread is still the owner (wrapper `_early_return`: disabled -> return, then check()
which raises TracingAbortedException for an abandoned thread); the trace is only ever reached
through the thread-local state; no handler on an exec path swallows the abort; the executor joins
the thread with timeouts bounded by the configured maximum, stops the tracer on expiry and returns
a fresh timeout result instead of anything the abandoned thread produced; the waits are positive for
test cases of any size (interpreted, the empty one included).  The ownership protocol (__enter__,
__exit__, stop, check) is interpreted over schedules of two execution threads and the executor: an
abandoned thread that unwinds later never takes the tracer from the thread that runs by then.  An
executor that runs a test twice starts the second run only after `not timeout`.
The wall-clock bound itself is not decided.
Further clauses (added later): C32.proxy: single-call methods of the tracer proxy forward to the wrapped
method of the same name; C32.namespace: the namespace dict of an execution is created per call and not kept on
the executor.
"""

from __future__ import annotations

import ast
import re

from sa.engine.cfg import CFG
from sa.engine.index import AnalysisError, decorator_names, last_attr, norm, own_nodes, parent

TR = "pynguin.instrumentation.tracer"
EXE = "pynguin.testcase.execution"
TRACE_ROOT = "self._thread_local_state.trace"
EXEC_SITES = [
    ("pynguin.testcase.execution", "TestCaseExecutor.execute_source"),
    ("pynguin.testcase.export", "_exec_statement_guarded"),
]


def _stmt(n):
    while n is not None and not isinstance(n, ast.stmt):
        n = parent(n)
    return n


def _no_second_run_after_timeout(ctx, repo) -> None:
    """An executor that runs a test case more than once per call (type tracing) starts a further run only
    when the previous one did not time out: a non-terminating test must not stall a second thread."""
    from sa.engine.cfg import CFG
    from sa.engine.guards import unguarded_path

    n = 0
    for qn, fn in repo.module(EXE).functions.items():
        runs = [c for c in own_nodes(fn) if isinstance(c, ast.Call) and last_attr(c) == "execute" and norm(c.func).startswith("self._delegate")]
        if len(runs) < 2:
            continue
        ctx.analysed(fn)
        cfg = CFG(fn)
        def stmt_of(c):
            while not isinstance(c, ast.stmt):
                c = parent(c)
            return c

        for earlier in runs:
            st0 = stmt_of(earlier)
            res = norm(st0.targets[0]) if isinstance(st0, ast.Assign) else None
            for later in runs:
                if later is earlier:
                    continue
                st = stmt_of(later)
                starts = [b for x in cfg.nodes_of(st0) for b, lab in cfg.succ[x] if lab != "exc"]
                if not starts or cfg.path(starts, cfg.nodes_of(st), labels_excluded=("exc",)) is None:
                    continue  # `later` does not follow `earlier` in one call

                def no_timeout(lit, res=res):
                    _k, e, pol = lit
                    return res is not None and not pol and norm(e) == f"{res}.timeout"

                p = unguarded_path(cfg, cfg.nodes_of(st), no_timeout)
                n += 1
                ctx.paths += 2
                ctx.check("C32.no-retry", st, p is None, f"{qn}: the test case is executed again (`{norm(later)[:60]}`) on a path where the run before may have timed out (`not {res}.timeout` is not established): a non-terminating test stalls a second thread for another full timeout and grace period before the timeout is reported", what=f"{qn}: second run only after `not {res}.timeout`", path=cfg.describe_path(p) if p else None, stmt=f"[{qn}] second run")
    if n == 0:
        raise AnalysisError("C32.no-retry: no executor that runs a test case twice was found (TypeTracingTestCaseExecutor.execute)")


def _ownership(ctx, repo) -> None:
    """Interpret __enter__ / __exit__ / stop / check of ExecutionTracer over schedules of two execution
    threads and the executor: check() must raise exactly for a thread that is not the current owner, and
    nothing an abandoned thread does later may take the tracer away from the thread that owns it by then."""
    from sa.engine import peval

    cres = peval.repo_class_resolver(repo)
    mod = repo.module(TR)
    tracer_cls = repo.cls(TR, "ExecutionTracer")
    ctx.analysed(repo.methods(tracer_cls)["__exit__"])

    def scenario(label, steps):
        current = [None]
        it = peval.Interp(resolver=peval.repo_resolver(repo), class_resolver=cres, externs={"threading.current_thread": lambda: peval.Obj("thread", fields={"ident": current[0]})})
        tracer = it.instantiate("ExecutionTracer", cres("ExecutionTracer", mod), [], {}, init=False)
        tracer.fields["_current_thread_identifier"] = None
        log = []
        try:
            for thread, action, want in steps:
                current[0] = thread
                if action == "check":
                    try:
                        tracer.methods["check"]()
                        got = "runs"
                    except peval.Raises as exc:
                        got = "aborted" if exc.name == "TracingAbortedException" else f"raises {exc.name}"
                    log.append(f"{thread}.check -> {got}")
                    if got != want:
                        return f"after {'; '.join(log[:-1]) or 'start'}: thread {thread} {('is aborted' if got == 'aborted' else got)}, expected `{want}`"
                elif action == "enter":
                    tracer.methods["__enter__"]()
                    log.append(f"{thread} enters")
                elif action == "exit":
                    tracer.methods["__exit__"](None, None, None)
                    log.append(f"{thread} leaves")
                elif action == "stop":
                    tracer.methods["stop"]()
                    log.append(f"{thread} calls stop()")
        except peval.Undecided as exc:
            ctx.undecide("C32.ownership", tracer_cls, f"{label}: {exc}")
            return "undecided"
        return None

    A, B, EXECUTOR = 11, 22, 99
    scenarios = [
        ("one execution", [(A, "enter", None), (A, "check", "runs"), (B, "check", "aborted"), (A, "exit", None), (A, "check", "aborted")]),
        ("timeout: the executor stops the tracer", [(A, "enter", None), (EXECUTOR, "stop", None), (A, "check", "aborted")]),
        ("an abandoned thread unwinds while the next test runs", [(A, "enter", None), (EXECUTOR, "stop", None), (B, "enter", None), (B, "check", "runs"), (A, "check", "aborted"), (A, "exit", None), (B, "check", "runs"), (B, "exit", None), (B, "check", "aborted")]),
        ("an abandoned thread unwinds between two tests", [(A, "enter", None), (EXECUTOR, "stop", None), (A, "exit", None), (B, "enter", None), (B, "check", "runs"), (A, "check", "aborted"), (B, "exit", None)]),
        ("an abandoned thread never takes the tracer back", [(A, "enter", None), (EXECUTOR, "stop", None), (B, "enter", None), (A, "exit", None), (A, "check", "aborted"), (B, "check", "runs")]),
        ("nobody owns a fresh tracer", [(A, "check", "aborted"), (EXECUTOR, "check", "aborted")]),
    ]
    for label, steps in scenarios:
        problem = scenario(label, steps)
        if problem == "undecided":
            continue
        ctx.check("C32.ownership", repo.methods(tracer_cls)["__exit__"], problem is None, f"[{label}] {problem}: the execution that owns the tracer is aborted by a thread that was abandoned earlier (its result comes back as a timeout with an empty trace), or a thread that lost the tracer keeps recording", what=f"[{label}]", stmt=f"[{label}]")


def check(ctx) -> None:
    repo = ctx.repo
    ctx.rule("C32.bounds", "every executor built by the pipeline (search, assertion filtering, mutation analysis) is given the configured maximum_test_execution_timeout and test_execution_time_per_statement", floor=8)
    _configured_bounds(ctx, repo)
    ctx.rule("C32.namespace", "OWNERSHIP: the namespace dict of an execution is created inside _build_namespace and is not stored on the executor", floor=1)
    _fresh_namespace(ctx, repo)
    ctx.rule("C32.proxy", "SIBLING: every single-call method of the tracer proxy forwards to the wrapped tracer's method of the same name", floor=20)
    _proxy_fidelity(ctx, repo)
    ctx.rule("C32.early", "every ExecutionTracer method that writes the trace is wrapped by _early_return (disabled -> return; then check()); undecorated private writers are only called from wrapped methods", floor=14)
    ctx.rule("C32.wrapper", "_early_return tests is_disabled() and calls check() before the wrapped function; check() raises TracingAbortedException when the current thread is not the owner; stop() revokes ownership", floor=4)
    ctx.rule("C32.ownership", "ABSINT: __enter__ / __exit__ / stop / check of ExecutionTracer interpreted over schedules of two execution threads and the executor: check() aborts exactly the threads that do not own the tracer, and an abandoned thread that unwinds later does not revoke the ownership of the thread that runs by then", floor=6)
    ctx.rule("C32.no-retry", "GUARD-DOM: an executor that runs a test case twice per call reaches the second run only where `not <first result>.timeout` is established", floor=1)
    ctx.rule("C32.tls", "every trace mutation in ExecutionTracer goes through self._thread_local_state.trace (threading.local); no other attribute of the tracer holds the current trace", floor=14)
    ctx.rule("C32.abort", "on every exec path a handler naming TracingAbortedException precedes any BaseException / bare handler and re-raises or records the abort", floor=2)
    ctx.rule("C32.timeout", "the executor joins with timeouts bounded by the configured maximum, stops the tracer when the thread is still alive and returns a fresh ExecutionResult(timeout=True)", floor=5)

    et = repo.cls(TR, "ExecutionTracer")
    meths = repo.methods(et)

    def writes_trace(fn):
        out = []
        for n in own_nodes(fn):
            if isinstance(n, ast.Call) and isinstance(n.func, ast.Attribute):
                recv = norm(n.func.value)
                if n.func.attr in ("add", "append", "update", "extend", "update_predicate_distances", "add_instruction", "add_memory_instruction", "add_attribute_instruction", "add_jump_instruction", "add_call_instruction", "add_return_instruction") and ("trace" in recv):
                    out.append(n)
            if isinstance(n, (ast.Assign, ast.AugAssign)):
                t = n.targets[0] if isinstance(n, ast.Assign) else n.target
                if "trace." in norm(t) and not norm(t).endswith(".trace"):
                    out.append(n)
        return out

    def calls_private_writer(fn, writers):
        return [n for n in own_nodes(fn) if isinstance(n, ast.Call) and isinstance(n.func, ast.Attribute) and norm(n.func.value) == "self" and n.func.attr in writers]

    def owner_checked(fn) -> bool:
        """Wrapped by _early_return, or the ownership check is inlined before the first trace write."""
        if "_early_return" in decorator_names(fn):
            return True
        ws = writes_trace(fn)
        first_write = min((w.lineno for w in ws), default=10**9)
        return any(isinstance(n, ast.Expr) and norm(n) == "self.check()" and n.lineno < first_write for n in fn.body)

    LIFECYCLE = {"__init__", "init_trace", "reset", "store_import_trace", "state", "import_trace", "get_trace", "__enter__", "__exit__"}
    direct = {name for name, fn in meths.items() if writes_trace(fn) and name not in LIFECYCLE}
    private_writers = {n for n in direct if not owner_checked(meths[n])}
    # ------------------------------------------------------------------ C32.early
    for name in sorted(direct):
        fn = meths[name]
        ctx.analysed(fn)
        if name in private_writers and name.startswith("_"):
            callers = [m for m, f in meths.items() if calls_private_writer(f, {name})]
            ok = bool(callers) and all(owner_checked(meths[c]) for c in callers)
            # and nobody outside the class calls it
            outside = []
            for mod, qn, f in repo.all_functions("pynguin"):
                if getattr(f, "_class", None) is et:
                    continue
                for c in own_nodes(f):
                    if isinstance(c, ast.Call) and last_attr(c) == name and isinstance(c.func, ast.Attribute) and "tracer" in norm(c.func.value).lower():
                        outside.append(f"{mod.name}:{qn}")
            ctx.check("C32.early", fn, ok and not outside, f"ExecutionTracer.{name} writes the trace without the ownership check and is called from {[c for c in callers if '_early_return' not in decorator_names(meths[c])] or outside}: an abandoned (timed-out) thread can add to the trace of the next test case", what=f"{name}: undecorated writer only reachable from wrapped methods {callers}")
        else:
            ctx.check("C32.early", fn, owner_checked(fn), f"ExecutionTracer.{name} writes the trace but neither is wrapped by @_early_return nor calls self.check() first: a thread abandoned after a timeout keeps recording lines / branches into the trace of later test cases", what=f"{name} wrapped by _early_return")
    # every instrumentation callback forwarded by InstrumentationExecutionTracer exists and is wrapped
    iet = repo.methods(repo.cls(TR, "InstrumentationExecutionTracer"))
    for name, fn in iet.items():
        if name.startswith(("executed_", "track_")) and name in meths:
            ctx.check("C32.early", meths[name], owner_checked(meths[name]) or not writes_trace(meths[name]) and not calls_private_writer(meths[name], private_writers), f"instrumentation callback ExecutionTracer.{name} performs no ownership check", what=f"callback {name} checks ownership", stmt=f"[callback] {name}")

    # ------------------------------------------------------------------ C32.wrapper
    er = repo.func(TR, "_early_return")
    wr = next((f for q, f in repo.module(TR).functions.items() if q.startswith("_early_return.<locals>.")), None)
    if wr is None:
        raise AnalysisError("_early_return wrapper not found")
    ctx.analysed(wr)
    body = [s for s in wr.body if not (isinstance(s, ast.Expr) and isinstance(s.value, ast.Constant))]
    seq = [norm(s) if not isinstance(s, ast.If) else f"if {norm(s.test)}" for s in body]
    ok = len(seq) == 3 and seq[0] == "if self.is_disabled()" and isinstance(body[0].body[0], ast.Return) and seq[1] == "self.check()" and seq[2].startswith("func(self")
    ctx.check("C32.wrapper", wr, ok, f"_early_return's wrapper is {seq}: it must return when tracing is disabled, then call self.check(), then the wrapped function", what="wrapper: disabled -> return; check(); func()")
    chk = meths["check"]
    ctx.analysed(chk)
    ifs = [n for n in own_nodes(chk) if isinstance(n, ast.If)]
    ok = len(ifs) == 1 and norm(ifs[0].test) in ("threading.current_thread().ident != self._current_thread_identifier", "self._current_thread_identifier != threading.current_thread().ident") and any(isinstance(x, ast.Raise) and "TracingAbortedException" in norm(x) for x in ast.walk(ifs[0]))
    ctx.check("C32.wrapper", chk, ok, "check() no longer raises TracingAbortedException exactly when the current thread is not the recorded owner", what="check(): foreign thread -> TracingAbortedException")
    stop = meths["stop"]
    ctx.check("C32.wrapper", stop, any(isinstance(n, ast.Assign) and norm(n) == "self._current_thread_identifier = None" for n in own_nodes(stop)), "stop() no longer revokes thread ownership", what="stop() clears the owner")
    ent = meths["__enter__"]
    ctx.check("C32.wrapper", ent, any(isinstance(n, ast.Assign) and norm(n) == "self._current_thread_identifier = threading.current_thread().ident" for n in own_nodes(ent)), "__enter__ no longer records the executing thread as owner", what="__enter__ records the owner")

    # ------------------------------------------------------------------ C32.ownership
    _ownership(ctx, repo)
    _no_second_run_after_timeout(ctx, repo)

    # ------------------------------------------------------------------ C32.tls
    tls = repo.cls(TR, "ExecutionTracer.TracerLocalState")
    ctx.check("C32.tls", tls, any(norm(b) == "threading.local" for b in tls.bases), "TracerLocalState is no longer a threading.local: all threads share one trace", what="TracerLocalState(threading.local)")
    n_mut = 0
    for name, fn in meths.items():
        aliases = {norm(n.targets[0]) for n in own_nodes(fn) if isinstance(n, ast.Assign) and norm(n.value) == TRACE_ROOT}
        for w in writes_trace(fn):
            if name in LIFECYCLE:
                continue
            n_mut += 1
            recv = norm(w.func.value) if isinstance(w, ast.Call) else norm(w.targets[0] if isinstance(w, ast.Assign) else w.target)
            root_ok = recv.startswith(TRACE_ROOT) or recv.split(".")[0] in aliases
            ctx.check("C32.tls", w, root_ok, f"ExecutionTracer.{name} writes the trace through `{recv.split('.update')[0][:60]}`, not through the thread-local state: the abandoned thread of a timed-out test and the next test's thread write into the same object", what=f"{name}: mutation through {TRACE_ROOT}")
    # no instance attribute of the tracer is assigned an ExecutionTrace besides the import trace / the thread-local one
    for name, fn in meths.items():
        for n in own_nodes(fn):
            if isinstance(n, ast.Assign) and isinstance(n.targets[0], ast.Attribute) and norm(n.targets[0].value) == "self":
                v = norm(n.value)
                holds_trace = v in ("new_trace", TRACE_ROOT, "ExecutionTrace()") or v.endswith(".trace") or v.endswith("['trace']")
                if holds_trace:
                    ok = n.targets[0].attr in ("_import_trace",)
                    ctx.check("C32.tls", n, ok, f"ExecutionTracer.{name} keeps the current trace in the plain attribute `self.{n.targets[0].attr}`: it is shared by all threads, unlike the thread-local state", what=f"{name}: only the import trace is held in a plain attribute")

    # ------------------------------------------------------------------ C32.abort
    for mname, qn in EXEC_SITES:
        fn = repo.try_func(mname, qn)
        if fn is None:
            # nested helper: search by suffix
            cands = [f for q, f in repo.module(mname).functions.items() if q.endswith(qn) or q.split(".")[0] == qn]
            fn = cands[0] if cands else None
        if fn is None:
            raise AnalysisError(f"exec site vanished: {mname}:{qn}")
        for tr in [n for n in ast.walk(fn) if isinstance(n, ast.Try) and any(isinstance(c, ast.Call) and norm(c.func) == "exec" for s in n.body for c in ast.walk(s))]:
            ctx.analysed(fn)
            names = [("bare" if h.type is None else norm(h.type)) for h in tr.handlers]
            wide = next((i for i, nm in enumerate(names) if nm in ("bare", "BaseException") or "BaseException" in nm), None)
            abort = next((i for i, nm in enumerate(names) if "TracingAbortedException" in nm), None)
            ok = wide is None or (abort is not None and abort < wide)
            if ok and abort is not None:
                h = tr.handlers[abort]
                ok = any(isinstance(x, ast.Raise) for x in ast.walk(h)) or any(isinstance(x, ast.Assign) and "abort" in norm(x).lower() for x in ast.walk(h))
            ctx.check("C32.abort", tr, ok, f"{qn}: handlers {names} - the abort of an abandoned thread is swallowed by a BaseException handler: the thread keeps executing the remaining statements of its test case", what=f"{qn}: abort handled before BaseException ({names})")

    # ------------------------------------------------------------------ C32.timeout
    ex = repo.func(EXE, "TestCaseExecutor.execute")
    ctx.analysed(ex)
    joins = [n for n in own_nodes(ex) if isinstance(n, ast.Call) and norm(n.func) == "thread.join"]
    ctx.check("C32.timeout", ex, len(joins) == 2, f"execute() has {len(joins)} thread.join calls, expected the bounded wait and the grace wait", what="two joins", stmt="[joins]")
    MAXT = "self._maximum_test_execution_timeout"
    for j in joins:
        t = next((k.value for k in j.keywords if k.arg == "timeout"), j.args[0] if j.args else None)
        txt = norm(t) if t is not None else ""
        bounded = txt == MAXT or (isinstance(t, ast.Call) and norm(t.func) == "min" and MAXT in [norm(a) for a in t.args])
        ctx.check("C32.timeout", j, bounded, f"`{norm(j)[:90]}` waits for `{txt or 'ever'}`, which is not bounded by the configured maximum: a timeout is reported later than maximum + grace (or never)", what=f"join bounded by the configured maximum ({txt[:50]})")
    # the bounded wait is positive for every test case, the empty one included (ABSINT of the timeout expressions)
    from sa.engine import peval as _pe

    def _budget(expr, fn_, sizes, multiple=False):
        out = []
        for size in sizes:
            selfobj = _pe.Obj("executor", fields={"_maximum_test_execution_timeout": 5, "_test_execution_time_per_statement": 1})
            t_ = _pe.Obj("TestCase")
            t_.methods["size"] = lambda size=size: size
            env = {"self": selfobj, "test_case": t_, "test_cases": (t_, t_)}
            out.append((size, _pe.Interp(resolver=_pe.repo_resolver(repo)).ev(expr, env, fn_._module)))
        return out

    exprs = []
    first = next((j for j in joins if isinstance(next((k.value for k in j.keywords if k.arg == "timeout"), None), ast.Call)), None)
    if first is not None:
        exprs.append((ex, next(k.value for k in first.keywords if k.arg == "timeout"), "TestCaseExecutor.execute: first join"))
    SUB = "pynguin.testcase.subprocess_executor"
    if repo.has_module(SUB):
        tfs_ = [q for q in repo.module(SUB).functions if q.split(".")[-1].startswith("_calculate_timeout")]
        if len(tfs_) < 2:
            raise AnalysisError("anchor vanished: the subprocess executor's _calculate_timeout* functions")
        for qn_ in tfs_:
            f_ = repo.func(SUB, qn_)
            ctx.analysed(f_)
            r_ = next((s_ for s_ in f_.body if isinstance(s_, ast.Return)), None)
            if r_ is None:
                raise AnalysisError(f"{qn_} has no top-level return: the timeout it computes cannot be interpreted")
            exprs.append((f_, r_.value, qn_))
    for fn_, e_, label in exprs:
        try:
            vals = _budget(e_, fn_, (0, 1, 3, 1000))
        except (_pe.Undecided, _pe.Raises) as exc:
            ctx.undecide("C32.timeout", fn_, f"{label}: {exc}")
            continue
        bad = [(sz, v) for sz, v in vals if not (isinstance(v, (int, float)) and v > 0)]
        ctx.check("C32.timeout", e_, not bad, f"{label}: the time allowed for a test case of size {[b[0] for b in bad]} is {[b[1] for b in bad]}: the executor stops waiting at once and declares a test that terminates (the empty test case minimisation produces) timed out - or not, depending on thread scheduling", what=f"{label}: positive for sizes 0, 1, 3, 1000 ({[v for _s, v in vals]})", stmt=f"[budget] {label}")
    alive = [n for n in own_nodes(ex) if isinstance(n, ast.If) and isinstance(n.test, ast.Call) and last_attr(n.test) == "is_alive"]
    ok = len(alive) == 1
    if ok:
        body_txt = [norm(s) for s in alive[0].body]
        stop_i = next((i for i, t in enumerate(body_txt) if t.endswith("instrumentation_tracer.stop()")), None)
        res_i = next((i for i, st_ in enumerate(alive[0].body) if isinstance(st_, (ast.Assign, ast.Return)) and st_.value is not None and norm(st_.value) == "ExecutionResult(timeout=True)"), None)
        ok = stop_i is not None and res_i is not None and stop_i < res_i and not any("return_queue.get" in t for t in body_txt)
    ctx.check("C32.timeout", alive[0] if alive else ex, ok, "a test whose thread is still alive after the bounded wait is not stopped and answered with a fresh ExecutionResult(timeout=True)", what="alive -> tracer.stop(); fresh timeout result")
    th = [n for n in own_nodes(ex) if isinstance(n, ast.Call) and norm(n.func) == "threading.Thread"]
    ok = len(th) == 1 and any(k.arg == "daemon" and norm(k.value) == "True" for k in th[0].keywords)
    ctx.check("C32.timeout", th[0] if th else ex, ok, "the execution thread is not a daemon thread: an abandoned thread keeps the process alive", what="execution thread is a daemon")
    q = [n for n in own_nodes(ex) if isinstance(n, ast.AnnAssign) and "Queue" in norm(n.annotation)]
    ctx.check("C32.timeout", q[0] if q else ex, len(q) == 1 and "Queue()" in norm(q[0].value), "the result queue is not created per execution: a late result of an abandoned thread could be read by a later execution", what="fresh result queue per execution")


def _proxy_fidelity(ctx, repo) -> None:
    """InstrumentationExecutionTracer is the object executions enter and leave the tracer through: a method that consists
    of one call on the wrapped tracer forwards to the method of the same name (so guards that live in the wrapped method -
    only the owning thread may stop the tracer in __exit__ - are not bypassed)."""
    TRM = "pynguin.instrumentation.tracer"
    cls = repo.cls(TRM, "InstrumentationExecutionTracer")
    n = 0
    for name, fn in repo.methods(cls).items():
        body = [s for s in fn.body if not (isinstance(s, ast.Expr) and isinstance(s.value, ast.Constant))]
        calls = [c for s in body for c in ast.walk(s) if isinstance(c, ast.Call) and isinstance(c.func, ast.Attribute) and norm(c.func.value) == "self._tracer"]
        if len(body) != 1 or len(calls) != 1:
            continue
        n += 1
        ctx.analysed(fn)
        ctx.check("C32.proxy", calls[0], calls[0].func.attr == name, f"InstrumentationExecutionTracer.{name} forwards to `{norm(calls[0].func)}` instead of the wrapped tracer's `{name}`: what the wrapped method guards against is bypassed - an abandoned thread that wakes up and unwinds through `with tracer:` stops the tracer that a later test's thread owns, and that test comes back as a timeout with an empty trace", what=f"{name} forwards to the wrapped {name}", stmt=f"[proxy] {name}")
    if n < 20:
        raise AnalysisError(f"C32.proxy: only {n} forwarding methods found in InstrumentationExecutionTracer (confirmed by reading: more than 20)")


def _fresh_namespace(ctx, repo) -> None:
    """Each execution gets its own namespace dict: what _build_namespace returns is created in that call (a display, dict(),
    a copy) and is neither read from nor stored on the executor - a statement of an abandoned test that finishes late binds
    its variable in its own dict, not in the one a later test is using."""
    EXE = "pynguin.testcase.execution"
    fn = repo.try_func(EXE, "TestCaseExecutor._build_namespace")
    if fn is None:
        raise AnalysisError("anchor vanished: TestCaseExecutor._build_namespace")
    ctx.analysed(fn)

    def fresh(e) -> bool:
        if isinstance(e, (ast.Dict, ast.DictComp)):
            return True
        if isinstance(e, ast.Call) and (norm(e.func) in ("dict", "copy.copy", "copy.deepcopy") or (isinstance(e.func, ast.Attribute) and e.func.attr == "copy")):
            return True
        if isinstance(e, ast.BinOp) and isinstance(e.op, ast.BitOr):
            return fresh(e.left) or fresh(e.right)
        return False

    assigns = {}
    for s in own_nodes(fn):
        if isinstance(s, (ast.Assign, ast.AnnAssign)) and s.value is not None:
            for t in (s.targets if isinstance(s, ast.Assign) else [s.target]):
                if isinstance(t, ast.Name):
                    assigns.setdefault(t.id, []).append(s.value)
    stored = [s for s in own_nodes(fn) if isinstance(s, (ast.Assign, ast.AnnAssign)) and any(isinstance(t, (ast.Attribute, ast.Subscript)) and norm(t).startswith("self.") for t in (s.targets if isinstance(s, ast.Assign) else [s.target]))]
    rets = [r for r in own_nodes(fn) if isinstance(r, ast.Return) and r.value is not None]
    if not rets:
        raise AnalysisError("C32.namespace: _build_namespace returns nothing")
    for r in rets:
        v = r.value
        ok = fresh(v) or (isinstance(v, ast.Name) and v.id in assigns and all(fresh(x) for x in assigns[v.id]))
        leaked = [norm(s)[:60] for s in stored if isinstance(v, ast.Name) and v.id in {x.id for x in ast.walk(s.value) if isinstance(x, ast.Name)}]
        ctx.check("C32.namespace", r, ok and not leaked, f"_build_namespace returns `{norm(v)}`, which is {'kept on the executor (' + '; '.join(leaked) + ')' if leaked else 'not created in this call'}: executions share one globals / locals dict, so a statement of an abandoned (timed-out) test that finishes late rebinds a variable of the test that runs now (`'float' object has no attribute ...` in a later result)", what="the namespace of an execution is created per call and not kept", stmt="[namespace] fresh per execution")


def _configured_bounds(ctx, repo) -> None:
    """Every executor that the pipeline builds outside the executor modules themselves (the search's executor, the
    filtering executor, the mutation executor) is given both time bounds; an executor built with the constructor's
    defaults reports a non-terminating test after 5 s whatever bound was configured."""
    EXE_MOD = "pynguin.testcase.execution"
    SUB_MOD = "pynguin.testcase.subprocess_executor"
    n = 0
    for mod, qn, fn in repo.all_functions("pynguin"):
        if mod.name in (EXE_MOD, SUB_MOD):
            continue  # executors that build executors: C31.aux
        for c in own_nodes(fn):
            if not (isinstance(c, ast.Call) and last_attr(c) in ("SubprocessTestCaseExecutor", "TestCaseExecutor")):
                continue
            callee = repo.func(SUB_MOD if last_attr(c) == "SubprocessTestCaseExecutor" else EXE_MOD, f"{last_attr(c)}.__init__")
            params = [a.arg for a in callee.args.args][1:]
            bound = dict(zip(params, c.args))
            bound.update({k.arg: k.value for k in c.keywords if k.arg})
            n += 1
            ctx.analysed(fn)
            for p in ("maximum_test_execution_timeout", "test_execution_time_per_statement"):
                ok = p in bound and p in norm(bound[p])
                ctx.check("C32.bounds", c, ok, f"{mod.name}:{qn}: `{last_attr(c)}(...)` is built with {'`' + norm(bound[p]) + '`' if p in bound else 'the default'} for `{p}`: a test case that does not terminate on this executor (e.g. on a mutant) is reported after the default 5 s / 1 s per statement, not within the configured bound", what=f"{qn}: {last_attr(c)} gets the configured {p}", stmt=f"[{qn}] {last_attr(c)}.{p}")
    if n < 4:
        raise AnalysisError(f"C32.bounds: only {n} executor constructions found outside the executor modules (confirmed by reading: 5)")
