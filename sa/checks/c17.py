"""C17 — search stops as soon as a configured budget is exhausted.

Decides the iteration-boundary protocol: loop shape of every search algorithm,
the resources_left quantifier, the counter/limit discipline of the three
counting conditions, the observer wiring that feeds the counters, and that nothing
before the counter reset (before_search_start) is a call on or with the algorithm object.
C17.charged: a result the executor makes up itself (timeout, crashed worker) still carries the number of
statements that were started, or the statement budget never sees them.
Wall-clock / memory conditions are value-level and not decided.
Further clauses (added later): C17.budgets interprets get_stopping_conditions: one condition per configured
budget, also when budgets carry equal numbers, and every observer is attached. C17.charged (must-pass): a
substitute result (timeout=True) carries the number of started statements before it reaches the budget
observers.
"""

from __future__ import annotations

import ast
import re

from sa.engine.cfg import CFG
from sa.engine.index import AnalysisError, call_name, kwarg, last_attr, norm, own_nodes, parent, qualname

ALG_BASE = ("pynguin.ga.algorithms.generationalgorithm", "GenerationAlgorithm")
SC_MOD = "pynguin.ga.stoppingcondition"

# condition class -> (hook that may increment, allowed increment amounts)
COUNTERS = {
    "MaxIterationsStoppingCondition": ("after_search_iteration", ("1",)),
    "MaxTestExecutionsStoppingCondition": ("before_remote_test_case_execution", ("1",)),
    "MaxStatementExecutionsStoppingCondition": ("after_remote_test_case_execution", ("result.num_executed_statements",)),
}
RESET_METHODS = {"__init__", "reset", "before_search_start"}


def _calls(node, attr, recv="self"):
    out = []
    for n in ast.walk(node):
        if isinstance(n, ast.Call) and isinstance(n.func, ast.Attribute) and n.func.attr == attr and norm(n.func.value) == recv:
            out.append(n)
    return out


def _top_conjuncts(test):
    if isinstance(test, ast.BoolOp) and isinstance(test.op, ast.And):
        out = []
        for v in test.values:
            out += _top_conjuncts(v)
        return out
    return [test]


def _must_call(repo, cls_key, meth, attr, depth=0):
    """self.<meth>() unconditionally (every normal path) calls self.<attr>() - resolved through the static MRO."""
    if depth > 3 or cls_key is None:
        return False
    r = repo.resolve_method(cls_key[0], cls_key[1], meth)
    if r is None:
        return False
    fn = r[2]
    cfg = CFG(fn)
    hits = _nodes_calling(cfg, attr, repo=repo, cls_key=cls_key, depth=depth + 1)
    return bool(hits) and cfg.path([cfg.entry], [cfg.exit], avoid_nodes=hits, labels_excluded=("exc",)) is None


def _nodes_calling(cfg, attr, recv="self", repo=None, cls_key=None, depth=0):
    """CFG nodes that call <recv>.<attr>(...), directly, through a self-method wrapper that must call it,
    or as a `for x in T:` loop whose body calls it at top level (applied to every element of T)."""
    out = set()
    for n in cfg.nodes:
        if n.stmt is None:
            continue
        if n.kind in ("test",):
            expr = n.stmt.test
        elif n.kind == "for_iter":
            expr = n.stmt.iter
        elif n.kind == "for":
            expr = ast.Constant(value=None)
            if any(isinstance(s, ast.Expr) and _calls(s, attr, recv) for s in n.stmt.body):
                out.add(n.id)
        elif n.kind in ("with",):
            expr = ast.Tuple(elts=[i.context_expr for i in n.stmt.items], ctx=ast.Load())
        elif n.kind == "stmt":
            expr = n.stmt
        else:
            continue
        if isinstance(expr, (ast.FunctionDef, ast.AsyncFunctionDef, ast.ClassDef)):
            continue
        if _calls(expr, attr, recv):
            out.add(n.id)
        elif repo is not None and cls_key is not None and recv == "self":
            for c in ast.walk(expr):
                if isinstance(c, ast.Call) and isinstance(c.func, ast.Attribute) and norm(c.func.value) == "self" and c.func.attr != attr:
                    if _must_call(repo, cls_key, c.func.attr, attr, depth):
                        out.add(n.id)
                        break
    return out


def _ret_attr(fn):
    """`return self.X` -> 'X' for a trivial getter."""
    body = [s for s in fn.body if not (isinstance(s, ast.Expr) and isinstance(s.value, ast.Constant))]
    if len(body) == 1 and isinstance(body[0], ast.Return) and isinstance(body[0].value, ast.Attribute) and norm(body[0].value.value) == "self":
        return body[0].value.attr
    return None


def _budgets(ctx, repo) -> None:
    """get_stopping_conditions interpreted for configurations in which several budgets carry the same number, and
    add_observer for two observers of one class: one condition per configured budget, every observer attached."""
    import types as _types

    from sa.engine import peval

    FACM = "pynguin.ga.generationalgorithmfactory"
    fn = repo.func(FACM, "GenerationAlgorithmFactory.get_stopping_conditions")
    ctx.analysed(fn)
    BUDGETS = {"maximum_iterations": "MaxIterationsStoppingCondition", "maximum_statement_executions": "MaxStatementExecutionsStoppingCondition",
               "maximum_test_executions": "MaxTestExecutionsStoppingCondition", "maximum_search_time": "MaxSearchTimeStoppingCondition"}
    made = []

    def ctor(cls_name):
        def make(*a, **k):
            made.append((cls_name, a))
            return peval.Obj(cls_name, fields={"limit": a[0] if a else None})
        return make

    names = {"MaxIterationsStoppingCondition", "MaxStatementExecutionsStoppingCondition", "MaxTestExecutionsStoppingCondition", "MaxSearchTimeStoppingCondition", "MaxCoverageStoppingCondition",
             "CoveragePlateauStoppingCondition", "MinimumCoveragePlateauStoppingCondition", "MaxMemoryStoppingCondition"}
    for label, values in (("all four budgets = 2", {k: 2 for k in BUDGETS}), ("iterations = time = 5", {"maximum_iterations": 5, "maximum_search_time": 5}), ("statements = tests = 40", {"maximum_statement_executions": 40, "maximum_test_executions": 40}),
                          ("iterations only", {"maximum_iterations": 7})):
        made.clear()
        stopping = _types.SimpleNamespace(**{**{k: -1 for k in BUDGETS}, **values, "maximum_coverage": 100, "maximum_coverage_plateau": -1, "minimum_coverage": 100, "minimum_plateau_iterations": -1, "maximum_memory": -1})
        it = peval.Interp(resolver=peval.repo_resolver(repo), native_types=(_types.SimpleNamespace,), consts={"config.configuration.stopping": stopping, "config.configuration": _types.SimpleNamespace(stopping=stopping), **{n: ctor(n) for n in names}},
                          externs={n: ctor(n) for n in names} | {f"sc.{n}": ctor(n) for n in names})
        try:
            res = it.run_function(fn, [peval.Obj("factory", fields={"_logger": None})], {}, repo.module(FACM))
        except (peval.Undecided, peval.Raises) as exc:
            ctx.undecide("C17.budgets", fn, f"{label}: {exc}")
            continue
        got = sorted((o.label, o.fields["limit"]) for o in res if o.label in BUDGETS.values())
        want = sorted((BUDGETS[k], v) for k, v in values.items())
        ctx.check("C17.budgets", fn, got == want, f"[{label}] the factory creates {got}, the configuration asks for {want}: a budget whose number equals that of another budget gets no stopping condition, so the search runs past it", what=f"[{label}] one condition per budget", stmt=f"[{label}]")
    # every observer handed to the executor is attached, also a second one of the same class
    EXEM = "pynguin.testcase.execution"
    add = repo.func(EXEM, "TestCaseExecutor.add_observer")
    ctx.analysed(add)
    try:
        it = peval.Interp(resolver=peval.repo_resolver(repo))
        ex = peval.Obj("executor", fields={"_observers": []})
        first, second = peval.Obj("MaxTestExecutionsStoppingCondition"), peval.Obj("MaxTestExecutionsStoppingCondition")
        it.run_function(add, [ex, first], {}, repo.module(EXEM))
        it.run_function(add, [ex, second], {}, repo.module(EXEM))
        obs = ex.fields["_observers"]
        ctx.check("C17.budgets", add, any(o is first for o in obs) and any(o is second for o in obs), f"add_observer attaches {len(obs)} of two observers of the same class: the execution-counting condition of a second search on the same executor sees no executions, its budget is never reached", what="add_observer attaches every observer", stmt="[add_observer]")
    except (peval.Undecided, peval.Raises) as exc:
        ctx.undecide("C17.budgets", add, f"add_observer: {exc}")


def check(ctx) -> None:
    repo = ctx.repo
    ctx.rule("C17.loop", "MUST-PASS: each search loop tests self.resources_left() as a top-level conjunct, reaches self.after_search_iteration() exactly once per iteration, and is dominated by before_search_start()", floor=8 * 4)
    ctx.rule("C17.reset-first", "before_search_start() (which resets the budget counters) is a top-level statement of the function that calls it, called once, and nothing before it is a call on the algorithm object or one that receives it (logging excepted): nothing is executed before the budgets start to count", floor=6)
    for mod_, qn_, fn_ in repo.all_functions("pynguin.ga.algorithms"):
        calls_ = [c for c in own_nodes(fn_) if isinstance(c, ast.Call) and norm(c.func) == "self.before_search_start"]
        if not calls_:
            continue
        ctx.analysed(fn_)
        # the reset is a top-level statement and nothing before it calls into the algorithm, the executor
        # or a factory (logging, clocks, configuration reads and pure builtins do not consume budget)
        top_ = [i for i, st in enumerate(fn_.body) if isinstance(st, ast.Expr) and st.value is calls_[0]]
        first_ = bool(top_)
        for st in fn_.body[: top_[0]] if top_ else []:
            for c in ast.walk(st):
                if not isinstance(c, ast.Call):
                    continue
                f = norm(c.func)
                is_log = re.match(r"(self\.)?_?(logger|LOGGER|log)\b|logging\.", f) is not None
                uses_self = f.startswith("self.") or any(isinstance(x, ast.Name) and x.id == "self" for a_ in [*c.args, *[k.value for k in c.keywords]] for x in ast.walk(a_))
                harmless = is_log or not uses_self  # only a call on / with the algorithm can execute tests or run its hooks
                first_ = first_ and harmless
        ctx.check("C17.reset-first", calls_[0], first_ and len(calls_) == 1, f"{qn_}: before_search_start() is preceded by a call that can execute tests or run hooks, is nested in a branch, or is called more than once: test executions made before it (the initial population) are forgotten when the counters are reset, so the search starts its iterations with the budget already spent", what=f"{qn_}: budgets reset before anything runs", stmt=f"[{qn_}]")
    ctx.rule("C17.budgets", "ABSINT: get_stopping_conditions creates one condition per configured budget also when budgets carry equal numbers; add_observer attaches a second observer of the same class", floor=5)
    _budgets(ctx, repo)
    ctx.rule("C17.charged", "MUST-PASS: a result the executor makes up (timeout=True) gets its num_executed_statements assigned, or passes through _after_test_case_execution, before it leaves the function", floor=3)
    _charged(ctx, repo)
    ctx.rule("C17.resources", "resources_left() is `all(not sc.is_fulfilled() for sc in self._stopping_conditions)` (universal, unfiltered)", floor=1)
    ctx.rule("C17.counter", "counting conditions: is_fulfilled is counter >= limit; the counter is incremented only and unconditionally in its designated hook and reset in before_search_start", floor=3 * 4)
    ctx.rule("C17.wiring", "every stopping condition handed to the strategy is registered as search observer, and as executor observer when it observes execution; counting conditions declare observes_execution=True", floor=5)
    ctx.rule("C17.hooks", "GenerationAlgorithm hook methods notify every registered observer; executors notify every observer before starting and after finishing a test case", floor=5)

    # ------------------------------------------------------------------ C17.loop
    repo.cls(*ALG_BASE)
    algs = repo.subclasses(*ALG_BASE)
    loops = 0
    for m, c in sorted(algs):
        cdef = repo.modules[m].classes[c]
        fn = repo.methods(cdef).get("generate_tests")
        if fn is None:
            continue
        if any(norm(d) == "abstractmethod" for d in fn.decorator_list):
            continue
        ctx.analysed(fn)
        cfg = CFG(fn)
        asi_nodes = _nodes_calling(cfg, "after_search_iteration", repo=repo, cls_key=(m, c))
        cand = []
        for n in cfg.nodes:
            if n.kind == "test" and isinstance(n.stmt, ast.While):
                in_test = bool(_calls(n.stmt.test, "resources_left"))
                body_asi = any(_calls(s, "after_search_iteration") for s in n.stmt.body)
                if in_test or body_asi:
                    cand.append(n)
        if not cand:
            # delegating implementations (super().generate_tests()) carry no loop of their own
            if any(isinstance(x, ast.Call) and last_attr(x) == "generate_tests" for x in own_nodes(fn)):
                continue
            ctx.fail("C17.loop", fn, f"{c}.generate_tests has no search loop that consults resources_left()/after_search_iteration()")
            continue
        for wn in cand:
            loops += 1
            w = wn.stmt
            conj = _top_conjuncts(w.test)
            has = any(isinstance(x, ast.Call) and isinstance(x.func, ast.Attribute) and x.func.attr == "resources_left" and norm(x.func.value) == "self" and not x.args for x in conj)
            ctx.check("C17.loop", w, has, f"search loop of {c} does not test self.resources_left() as a top-level conjunct of its condition: an exhausted budget does not end the loop", what=f"{c}: resources_left() conjunct")
            # every way back to the loop head passes after_search_iteration
            starts = [b for b, lab in cfg.succ[wn.id] if lab == "true"]
            body_ids = _loop_body_ids(cfg, wn)
            back = cfg.path(starts, [wn.id], avoid_nodes=asi_nodes)
            ctx.paths += 1
            ctx.check(
                "C17.loop",
                w,
                back is None,
                f"search loop of {c}: an iteration can return to the loop head without self.after_search_iteration(...) (iteration not counted)",
                what=f"{c}: after_search_iteration on every back path",
                path=cfg.describe_path(back) if back else [],
                stmt=f"while {norm(w.test)}: [back-edge]",
            )
            # at most once per iteration
            twice = None
            for a in asi_nodes & body_ids:
                nxt = [b for b, lab in cfg.succ[a] if lab != "exc"]
                p = cfg.path(nxt, (asi_nodes & body_ids), avoid_nodes=[wn.id])
                if p:
                    twice = [a, *p]
            ctx.paths += 1
            ctx.check("C17.loop", w, twice is None, f"search loop of {c}: after_search_iteration can run twice in one iteration", what=f"{c}: at most once", path=cfg.describe_path(twice) if twice else [], stmt=f"while {norm(w.test)}: [twice]")
            # before_search_start dominates the loop
            bss = _nodes_calling(cfg, "before_search_start", repo=repo, cls_key=(m, c))
            p = cfg.path([cfg.entry], [wn.id], avoid_nodes=bss)
            ctx.paths += 1
            ctx.check("C17.loop", w, p is None, f"{c}.generate_tests reaches its search loop without self.before_search_start() (counters not reset / start time not set)", what=f"{c}: before_search_start dominates loop", stmt=f"while {norm(w.test)}: [start]")
    ctx.extra["search_loops"] = loops

    # ------------------------------------------------------------------ C17.resources
    rl = repo.func(ALG_BASE[0], "GenerationAlgorithm.resources_left")
    ctx.analysed(rl)
    _check_resources_left(ctx, rl)
    for m, c in algs:
        sub = repo.methods(repo.modules[m].classes[c]).get("resources_left")
        if sub is not None:
            _check_resources_left(ctx, sub)
    # the list consulted is the list the factory assigns
    setter = repo.try_func(ALG_BASE[0], "GenerationAlgorithm.stopping_conditions@setter")
    if setter is None:
        raise AnalysisError("stopping_conditions setter vanished")
    assigns = [n for n in own_nodes(setter) if isinstance(n, ast.Assign)]
    ok = any(norm(a.targets[0]) == "self._stopping_conditions" and norm(a.value) == setter.args.args[1].arg for a in assigns)
    ctx.check("C17.resources", setter, ok, "stopping_conditions setter does not store the given list in self._stopping_conditions", what="setter stores the list read by resources_left")

    # ------------------------------------------------------------------ C17.counter
    for cname, (hook, amounts) in COUNTERS.items():
        cdef = repo.cls(SC_MOD, cname)
        meths = repo.methods(cdef)
        for req in ("current_value", "limit", "is_fulfilled"):
            if req not in meths:
                raise AnalysisError(f"{cname}.{req} vanished")
        missing = [h for h in (hook, "before_search_start") if h not in meths]
        if missing:
            # the inherited StoppingCondition hook is a no-op: the counter is never fed / reset
            ctx.fail("C17.counter", cdef, f"{cname} does not override {missing[0]}; the inherited no-op leaves the counter unfed or never reset", stmt=f"[{missing[0]}]")
            continue
        counter = _ret_attr(meths["current_value"])
        limit = _ret_attr(meths["limit"])
        if counter is None or limit is None:
            ctx.undecide("C17.counter", cdef, "current_value()/limit() are not trivial getters")
            continue
        for f in meths.values():
            ctx.analysed(f)
        # is_fulfilled
        isf = meths["is_fulfilled"]
        body = [s for s in isf.body if not (isinstance(s, ast.Expr) and isinstance(s.value, ast.Constant))]
        good = False
        if len(body) == 1 and isinstance(body[0], ast.Return) and isinstance(body[0].value, ast.Compare) and len(body[0].value.ops) == 1:
            cmp_ = body[0].value
            l, r, op = norm(cmp_.left), norm(cmp_.comparators[0]), cmp_.ops[0]
            good = (l == f"self.{counter}" and r == f"self.{limit}" and isinstance(op, ast.GtE)) or (
                l == f"self.{limit}" and r == f"self.{counter}" and isinstance(op, ast.LtE)
            )
        ctx.check("C17.counter", isf, good, f"{cname}.is_fulfilled is not `self.{counter} >= self.{limit}`: the budget is exceeded before the condition reports fulfilled", what=f"{cname}: {counter} >= {limit}", stmt=norm(body[0]) if body else "")
        # writes of the counter
        inc_seen = False
        for mname, f in meths.items():
            for n in own_nodes(f):
                tgt = None
                if isinstance(n, ast.Assign):
                    for t in n.targets:
                        if norm(t) == f"self.{counter}":
                            tgt = n
                elif isinstance(n, ast.AugAssign) and norm(n.target) == f"self.{counter}":
                    tgt = n
                if tgt is None:
                    continue
                if isinstance(tgt, ast.Assign):
                    ok = mname in RESET_METHODS and norm(tgt.value) == "0"
                    ctx.check("C17.counter", tgt, ok, f"{cname}.{mname} assigns the counter outside reset/before_search_start/__init__ or to a non-zero value", what=f"{cname}.{mname}: reset to 0")
                else:
                    ok = mname == hook and isinstance(tgt.op, ast.Add) and norm(tgt.value) in amounts
                    if ok:
                        # unconditional: no normal path from entry to exit avoids the increment
                        cfg = CFG(f)
                        inc_nodes = set(cfg.nodes_of(tgt))
                        p = cfg.path([cfg.entry], [cfg.exit], avoid_nodes=inc_nodes, labels_excluded=("exc",))
                        ctx.paths += 1
                        ok = p is None
                        inc_seen = inc_seen or ok
                        ctx.check("C17.counter", tgt, ok, f"{cname}.{hook} increments the counter only conditionally", what=f"{cname}.{hook}: unconditional += {norm(tgt.value)}")
                    else:
                        ctx.fail("C17.counter", tgt, f"{cname}.{mname} changes the counter by `{norm(tgt)}`; only `+= {amounts[0]}` in {hook} is allowed")
        ctx.check("C17.counter", meths[hook], inc_seen, f"{cname}.{hook} no longer increments self.{counter}: the budget is never reached", what=f"{cname}: counter fed by {hook}")
        # reset in before_search_start
        bss = meths["before_search_start"]
        ok = any(isinstance(n, ast.Assign) and any(norm(t) == f"self.{counter}" for t in n.targets) for n in own_nodes(bss))
        ctx.check("C17.counter", bss, ok, f"{cname}.before_search_start does not reset self.{counter}", what=f"{cname}: reset at search start")
        # limit writes
        for mname, f in meths.items():
            for n in own_nodes(f):
                if isinstance(n, (ast.Assign, ast.AugAssign)):
                    ts = n.targets if isinstance(n, ast.Assign) else [n.target]
                    if any(norm(t) == f"self.{limit}" for t in ts):
                        ctx.check("C17.counter", n, mname in ("__init__", "set_limit") and isinstance(n, ast.Assign), f"{cname}.{mname} rewrites the limit", what=f"{cname}.{mname}: limit set")
        # observes_execution for executor-fed counters
        if hook.endswith("remote_test_case_execution"):
            init = meths.get("__init__")
            sup = [n for n in own_nodes(init) if isinstance(n, ast.Call) and norm(n.func) == "super().__init__"] if init else []
            ok = bool(sup) and (v := kwarg(sup[0], "observes_execution")) is not None and isinstance(v, ast.Constant) and v.value is True
            ctx.check("C17.wiring", init or cdef, ok, f"{cname} does not construct itself with observes_execution=True: the executor never feeds its counter", what=f"{cname}: observes_execution=True")

    # ------------------------------------------------------------------ C17.wiring
    fac_mod = "pynguin.ga.generationalgorithmfactory"
    gsa = repo.func(fac_mod, "TestSuiteGenerationAlgorithmFactory.get_search_algorithm")
    ctx.analysed(gsa)
    cfg = CFG(gsa)
    assign = [n for n in own_nodes(gsa) if isinstance(n, ast.Assign) and any(isinstance(t, ast.Attribute) and t.attr == "stopping_conditions" for t in n.targets)]
    if not assign:
        raise AnalysisError("get_search_algorithm no longer assigns strategy.stopping_conditions")
    for a in assign:
        lst = norm(a.value)
        strat = norm(a.targets[0].value)
        # a for-loop over the same list in which add_search_observer(<target>) is unconditional
        ok_obs = ok_exec = False
        for n in own_nodes(gsa):
            if isinstance(n, ast.For) and norm(n.iter) == lst and isinstance(n.target, ast.Name):
                tv = n.target.id
                lcfg_body = n.body
                for s in lcfg_body:
                    if isinstance(s, ast.Expr) and isinstance(s.value, ast.Call) and last_attr(s.value) == "add_search_observer" and norm(s.value.func.value) == strat and [norm(x) for x in s.value.args] == [tv]:
                        ok_obs = True
                    if isinstance(s, ast.If) and norm(s.test) == f"{tv}.observes_execution":
                        for t in s.body:
                            if isinstance(t, ast.Expr) and isinstance(t.value, ast.Call) and last_attr(t.value) == "add_observer" and [norm(x) for x in t.value.args] == [tv]:
                                ok_exec = True
                    if isinstance(s, ast.Expr) and isinstance(s.value, ast.Call) and last_attr(s.value) == "add_observer" and [norm(x) for x in s.value.args] == [tv]:
                        ok_exec = True
        ctx.check("C17.wiring", a, ok_obs, "a stopping condition assigned to the strategy is not (unconditionally) registered with add_search_observer: its counter is never updated", what="every condition -> add_search_observer", stmt=f"{norm(a)} [search-observer]")
        ctx.check("C17.wiring", a, ok_exec, "execution-observing stopping conditions are not registered with executor.add_observer", what="observes_execution -> executor.add_observer", stmt=f"{norm(a)} [executor-observer]")
    # get_stopping_conditions: every constructed condition is appended to the returned list
    gsc = repo.func(fac_mod, "GenerationAlgorithmFactory.get_stopping_conditions")
    ctx.analysed(gsc)
    rets = [n for n in own_nodes(gsc) if isinstance(n, ast.Return)]
    ret_name = norm(rets[0].value) if rets else ""
    for n in own_nodes(gsc):
        if isinstance(n, ast.Call) and isinstance(n.func, ast.Name) and n.func.id.endswith("StoppingCondition"):
            p = parent(n)
            ok = isinstance(p, ast.Call) and last_attr(p) == "append"
            if ok:
                holder = norm(p.func.value)
                ok = holder == ret_name or any(
                    isinstance(x, ast.Call) and last_attr(x) == "extend" and norm(x.func.value) == ret_name and [norm(y) for y in x.args] == [holder]
                    for x in own_nodes(gsc)
                )
            ctx.check("C17.wiring", n, ok, f"{n.func.id} is constructed but does not reach the returned list of conditions", what=f"{n.func.id} appended to returned list")
            if n.func.id in COUNTERS:
                # the budget must be installed whenever its own setting asks for it: the construction
                # may depend only on that setting, never on whether another budget is configured
                argnames = {x.id for a in n.args for x in ast.walk(a) if isinstance(x, ast.Name)}
                why = None
                child = n
                for a in _ancestors(n):
                    if isinstance(a, ast.If):
                        if any(child is s or _contains(s, child) for s in a.orelse):
                            why = f"is in the else/elif branch of `if {norm(a.test)[:60]}`"
                            break
                        used = {x.id for x in ast.walk(a.test) if isinstance(x, ast.Name)}
                        foreign = used - argnames - {"stopping", "config"}
                        if foreign:
                            why = f"is guarded by `{norm(a.test)[:60]}` which depends on {sorted(foreign)}"
                            break
                    if isinstance(a, (ast.For, ast.While, ast.Try, ast.With, ast.Match)):
                        why = f"is nested in a {type(a).__name__} statement"
                        break
                    if a is gsc:
                        break
                    child = a
                ctx.check("C17.wiring", n, why is None, f"{n.func.id} {why}: the budget is not installed for some configurations that set it", what=f"{n.func.id} depends only on its own setting", stmt=norm(n) + " [independent]")

    # ------------------------------------------------------------------ C17.hooks
    for hook, cb in (("before_search_start", "before_search_start"), ("after_search_iteration", "after_search_iteration")):
        fn = repo.func(ALG_BASE[0], f"GenerationAlgorithm.{hook}")
        ctx.analysed(fn)
        _check_notify_all(ctx, fn, "self._search_observers", cb)
    aso = repo.func(ALG_BASE[0], "GenerationAlgorithm.add_search_observer")
    ok = any(isinstance(n, ast.Call) and last_attr(n) == "append" and norm(n.func.value) == "self._search_observers" for n in own_nodes(aso))
    ctx.check("C17.hooks", aso, ok, "add_search_observer does not append to self._search_observers", what="add_search_observer appends")
    ex = "pynguin.testcase.execution"
    for hook, cb in (("_before_remote_test_case_execution", "before_remote_test_case_execution"), ("_after_remote_test_case_execution", "after_remote_test_case_execution")):
        fn = repo.func(ex, f"TestCaseExecutor.{hook}")
        ctx.analysed(fn)
        _check_notify_all(ctx, fn, "self._observers", cb)
    # executor entry points: before-hook dominates the start of the execution, after-hook on every normal return that produced a result
    for mod, qn, starter in (
        (ex, "TestCaseExecutor.execute", "start"),
        ("pynguin.testcase.subprocess_executor", "SubprocessTestCaseExecutor.execute_multiple", "_setup_subprocess_execution"),
    ):
        fn = repo.func(mod, qn)
        ctx.analysed(fn)
        cfg = CFG(fn)
        before = _nodes_calling(cfg, "_before_remote_test_case_execution")
        after = _nodes_calling(cfg, "_after_remote_test_case_execution")
        start_nodes = {n.id for n in cfg.nodes if n.stmt is not None and n.kind == "stmt" and any(isinstance(x, ast.Call) and last_attr(x) == starter for x in ast.walk(n.stmt))}
        if not start_nodes:
            raise AnalysisError(f"{qn}: start call {starter} not found")
        p = cfg.path([cfg.entry], start_nodes, avoid_nodes=before)
        ctx.paths += 1
        ctx.check("C17.hooks", fn, p is None, f"{qn} starts an execution without notifying observers (_before_remote_test_case_execution): test executions are not counted", what=f"{qn}: before-hook dominates start", stmt="[before]")
        nxt = [b for s in start_nodes for b, lab in cfg.succ[s] if lab != "exc"]
        p = cfg.path(nxt, [cfg.exit], avoid_nodes=after, labels_excluded=("exc",))
        ctx.paths += 1
        ctx.check("C17.hooks", fn, p is None, f"{qn} can return a result without _after_remote_test_case_execution: executed statements are not counted", what=f"{qn}: after-hook on every normal return", path=cfg.describe_path(p) if p else [], stmt="[after]")


def _loop_body_ids(cfg, wn):
    """Nodes on some cycle through the loop head (body of the loop)."""
    fwd = cfg.reachable([b for b, lab in cfg.succ[wn.id] if lab == "true"], avoid_nodes=[wn.id])
    bwd = cfg.reachable([wn.id], forward=False)
    return fwd & bwd


def _check_resources_left(ctx, fn):
    body = [s for s in fn.body if not (isinstance(s, ast.Expr) and isinstance(s.value, ast.Constant))]
    verdict = None
    if len(body) == 1 and isinstance(body[0], ast.Return) and isinstance(body[0].value, ast.Call):
        call = body[0].value
        neg_outer = False
        fname = norm(call.func)
        if fname in ("all", "any") and len(call.args) == 1 and isinstance(call.args[0], (ast.GeneratorExp, ast.ListComp)):
            ge = call.args[0]
            if len(ge.generators) == 1:
                g = ge.generators[0]
                var = norm(g.target)
                elt = ge.elt
                neg = False
                if isinstance(elt, ast.UnaryOp) and isinstance(elt.op, ast.Not):
                    neg, elt = True, elt.operand
                is_ful = isinstance(elt, ast.Call) and norm(elt.func) == f"{var}.is_fulfilled" and not elt.args
                src_ok = norm(g.iter) == "self._stopping_conditions" and not g.ifs
                if is_ful:
                    verdict = fname == "all" and neg and src_ok
    elif len(body) == 1 and isinstance(body[0], ast.Return) and isinstance(body[0].value, ast.UnaryOp) and isinstance(body[0].value.op, ast.Not):
        inner = body[0].value.operand
        if isinstance(inner, ast.Call) and norm(inner.func) == "any" and len(inner.args) == 1 and isinstance(inner.args[0], (ast.GeneratorExp, ast.ListComp)):
            ge = inner.args[0]
            if len(ge.generators) == 1:
                g = ge.generators[0]
                var = norm(g.target)
                if isinstance(ge.elt, ast.Call) and norm(ge.elt.func) == f"{var}.is_fulfilled":
                    verdict = norm(g.iter) == "self._stopping_conditions" and not g.ifs
    if verdict is None:
        ctx.undecide("C17.resources", fn, "resources_left has a shape the rule cannot interpret")
        return
    ctx.check("C17.resources", fn, verdict, "resources_left() is not `no stopping condition is fulfilled` over all of self._stopping_conditions", what="all(not sc.is_fulfilled()) over self._stopping_conditions", stmt=norm(body[0]))


def _check_notify_all(ctx, fn, coll, cb):
    ok = False
    for n in own_nodes(fn):
        if isinstance(n, ast.For) and norm(n.iter) == coll and isinstance(n.target, ast.Name):
            for s in n.body:
                if isinstance(s, ast.Expr) and isinstance(s.value, ast.Call) and norm(s.value.func) == f"{n.target.id}.{cb}":
                    ok = True
    if ok:
        cfg = CFG(fn)
        # the loop is reached on every normal path
        loops = {x.id for x in cfg.nodes if x.kind == "for" and norm(x.stmt.iter) == coll}
        ok = cfg.path([cfg.entry], [cfg.exit], avoid_nodes=loops, labels_excluded=("exc",)) is None
    ctx.check("C17.hooks", fn, ok, f"{qualname(fn)} does not call {cb} on every element of {coll}", what=f"{qualname(fn)} notifies all of {coll}")


def _ancestors(n):
    p = parent(n)
    while p is not None:
        yield p
        p = parent(p)


def _contains(root, node):
    return any(x is node for x in ast.walk(root))


def _charged(ctx, repo) -> None:
    """The statement budget is charged for every execution: a result that the executor makes up itself (timeout,
    crashed worker, import problem) stands for an execution that started statements, so before it leaves the function
    its num_executed_statements is assigned or it passes through _after_test_case_execution (where the remote budget
    observer stores its count).  A result handed over through a queue is followed to the function that takes it out."""
    n = 0

    def is_make(c):
        return isinstance(c, ast.Call) and last_attr(c) == "ExecutionResult" and any(k.arg == "timeout" and isinstance(k.value, ast.Constant) and k.value.value is True for k in c.keywords)

    def stmt_of(x):
        while not isinstance(x, ast.stmt):
            x = parent(x)
        return x

    def leaks(fn, st, var, put_charges):
        cfg = CFG(fn)
        here = cfg.nodes_of(st)
        if not here:
            raise AnalysisError(f"C17.charged: no CFG node for `{norm(st)}`")
        if isinstance(st, ast.Return) or var is None:
            return True

        def charges(node):
            s = node.stmt
            if s is None or node.kind != "stmt" or isinstance(s, (ast.If, ast.For, ast.While, ast.With, ast.Try, ast.Match, ast.FunctionDef, ast.ClassDef)):
                return False  # headers / exits of compound statements stand for the whole statement
            for x in ast.walk(s):
                if isinstance(x, (ast.Assign, ast.AugAssign)):
                    tg = x.targets if isinstance(x, ast.Assign) else [x.target]
                    if any(isinstance(t, ast.Attribute) and t.attr == "num_executed_statements" and norm(t.value) == var for t in tg):
                        return True
                if isinstance(x, ast.Call) and last_attr(x) == "_after_test_case_execution" and any(norm(a) == var for a in x.args):
                    return True
                if put_charges and isinstance(x, ast.Call) and last_attr(x) == "put" and any(norm(a) == var for a in x.args):
                    return True
            return False

        charging = {nd.id for nd in cfg.nodes if nd.stmt is not None and nd.id not in here and charges(nd)}
        # only results with timeout == True are followed: the false edge of `if <var>.timeout` is not theirs
        tests = {nd.id for nd in cfg.nodes if nd.kind == "test" and isinstance(nd.stmt, ast.If) and norm(nd.stmt.test) == f"{var}.timeout"}
        start = [b for h in here for b, lab in cfg.succ[h] if lab != "exc"]
        return cfg.path(start, [cfg.exit], avoid_nodes=charging, labels_excluded=("exc",), avoid_edges=lambda s_, d_, lab: s_ in tests and lab == "false") is not None

    for modname in ("pynguin.testcase.execution", "pynguin.testcase.subprocess_executor"):
        fns = list(repo.all_functions(modname))
        # consumers: results taken out of a queue
        consumer_ok = False
        for mod, qn, fn in fns:
            for st in own_nodes(fn):
                if isinstance(st, ast.Assign) and len(st.targets) == 1 and isinstance(st.value, ast.Call) and last_attr(st.value) == "get" and "queue" in norm(st.value.func).lower():
                    ctx.analysed(fn)
                    leak = leaks(fn, st, norm(st.targets[0]), False)
                    n += 1
                    consumer_ok = consumer_ok or not leak
                    ctx.check("C17.charged", st, not leak, f"{mod.name}:{qn}: a result taken from the queue with timeout == True (made up by the executing thread) reaches the budget observers with num_executed_statements == 0", what=f"{qn}: timed-out results from the queue carry the statement count", stmt=f"[{qn}] {norm(st)[:60]}")
        for mod, qn, fn in fns:
            makes = [c for c in own_nodes(fn) if is_make(c)]
            if not makes:
                continue
            ctx.analysed(fn)
            for mk in makes:
                st = stmt_of(mk)
                var = norm(st.targets[0]) if isinstance(st, ast.Assign) and len(st.targets) == 1 else None
                leak = leaks(fn, st, var, consumer_ok)
                n += 1
                anc = parent(st)
                where = "body"
                while anc is not None and anc is not fn:
                    if isinstance(anc, ast.ExceptHandler):
                        where = f"except {norm(anc.type) if anc.type is not None else ''}"
                        break
                    if isinstance(anc, ast.If):
                        where = f"if {norm(anc.test)[:40]}"
                        break
                    anc = parent(anc)
                ctx.check("C17.charged", st, not leak, f"{mod.name}:{qn}: the substitute result `{norm(st)[:70]}` reaches the budget observers with num_executed_statements == 0: the statements the test case executed before it timed out (crashed) are not charged to the statement-execution budget, so iterations go on after the budget has really been reached", what=f"{qn}: substitute result carries the statement count", stmt=f"[{qn}] under `{where}`: {norm(st)[:60]}")
    if n < 3:
        raise AnalysisError(f"C17.charged: only {n} substitute results found (confirmed by reading: 4)")
