"""C12 — cached fitness and coverage values are never stale.

Decides the dirty-flag discipline: who may clear the flag and what must have
happened before; that every writer of a chromosome's tests sets it; that the
results of "something changed" operations are not discarded; that the cache
invalidates *all* value maps on a change and guarantees the requested key.
C12.laws interprets ComputationCache from source over every sequence of registrations,
chromosome changes and queries up to a depth: each getter returns what the registered
functions compute on the chromosome's current state (no memoised derivative survives).
Interleavings of clone / crossover histories on shared objects are not decided.
Further clauses (added later): C12.laws interprets ComputationCache over every sequence (depth 3 quick / 4
thorough) of registrations, chromosome changes and queries: each getter returns what the registered functions
compute on the current state; set_fitness_values (local search restoring a test) keeps fitness and covered
verdict in agreement.
"""

from __future__ import annotations

import ast

from sa.engine.cfg import CFG, edge_implies
from sa.engine.index import AnalysisError, last_attr, norm, own_nodes, parent, qualname

CC = "pynguin.ga.computation_cache"
COMP = "pynguin.ga.computations"
MUT = "pynguin.ga.operators.mutation"
CROSS = "pynguin.ga.operators.crossover"
TSC = "pynguin.ga.testsuitechromosome"
TCC = "pynguin.ga.testcasechromosome"
TF = "pynguin.testcase.testfactory"

# functions that may clear the dirty flag (`X.changed = False`), with the reason
CLEARERS = {
    (CC, "ComputationCache._check_cache"): "after invalidating all caches and recomputing",
    (COMP, "TestCaseChromosomeComputation._run_test_case_chromosome"): "after executing and storing the result",
    (COMP, "TestSuiteChromosomeComputation._run_test_suite_chromosome"): "after executing, storing the result and invalidating the test case's cache",
    ("pynguin.ga.algorithms.randomalgorithm", "RandomAlgorithm.generate_sequence"): "fresh test case executed explicitly, result stored just before",
    ("pynguin.testcase.localsearchstatement", "*"): "local search saves and restores the flag around trial executions",
}


def _anc(n):
    p = parent(n)
    while p is not None:
        yield p
        p = parent(p)


def _stmt_nodes(cfg, pred):
    return {n.id for n in cfg.nodes if n.kind == "stmt" and pred(n.stmt)}


def _assigns_attr(s, attr, value=None, recv=None):
    if not isinstance(s, ast.Assign):
        return False
    for t in s.targets:
        if isinstance(t, ast.Attribute) and t.attr == attr and (recv is None or norm(t.value) == recv):
            if value is None or norm(s.value) == value:
                return True
    return False


def check(ctx) -> None:
    repo = ctx.repo
    ctx.rule("C12.invalidate", "on a changed chromosome _check_cache clears every value map before recomputing and before clearing the flag; invalidate_cache clears every *_cache attribute; clone copies every field", floor=5)
    ctx.rule("C12.key", "GUARD-DOM: every `return self._X_cache[key]` is dominated by _check_cache(..., key); in _check_cache every path that skips comp(only) has established `only in cache`", floor=4)
    ctx.rule("C12.run", "an execution result is reused only when neither `changed` nor `last result is None`; after (re-)execution the result is stored before the flag is cleared; the suite runner also invalidates the test case's cache", floor=4)
    ctx.rule("C12.set-changed", "MUST-PASS: every writer of a chromosome's test case / test list reaches `<chromosome>.changed = True` on every path to a normal exit", floor=7)
    ctx.rule("C12.alias", "OWNERSHIP: a variation operator installs test case chromosomes of another suite only as clones (no object shared between two suites' test lists)", floor=1)
    ctx.rule("C12.must-use", "MUST-USE: the boolean result of an operation that reports 'something changed' is never discarded in the variation operators", floor=8)
    ctx.rule("C12.clone-fresh", "ABSINT: ComputationCache.clone returns a cache that shares no list / dict with the original (for empty and non-empty containers) and holds equal contents", floor=2)
    _clone_fresh(ctx, repo)
    ctx.rule("C12.laws", "ABSINT: for every sequence of registrations, queries and chromosome changes (depth 3 quick / 4 thorough after the first registration) each ComputationCache getter returns what the registered functions compute on the current state", floor=250)
    _cache_laws(ctx, repo, 4 if ctx.tier == "thorough" else 3)
    ctx.rule("C12.clearers", "WHO-MAY: `<x>.changed = False` occurs only in the enumerated functions", floor=3)

    # ------------------------------------------------------------------ C12.invalidate
    cdef = repo.cls(CC, "ComputationCache")
    meths = repo.methods(cdef)
    init = meths["__init__"]
    cache_attrs = sorted({t.attr for n in own_nodes(init) if isinstance(n, (ast.Assign, ast.AnnAssign)) for t in ([n.target] if isinstance(n, ast.AnnAssign) else n.targets) if isinstance(t, ast.Attribute) and t.attr.endswith("_cache")})
    if len(cache_attrs) < 3:
        raise AnalysisError(f"ComputationCache.__init__: expected >= 3 *_cache attributes, found {cache_attrs}")
    inv = meths["invalidate_cache"]
    ctx.analysed(inv)
    cleared = {norm(n.func.value).split(".")[-1] for n in own_nodes(inv) if isinstance(n, ast.Call) and last_attr(n) == "clear"}
    reassigned = {t.attr for n in own_nodes(inv) if isinstance(n, ast.Assign) for t in n.targets if isinstance(t, ast.Attribute)}
    for a in cache_attrs:
        ctx.check("C12.invalidate", inv, a in cleared or a in reassigned, f"invalidate_cache does not clear `{a}`: values of the old tests survive a change", what=f"invalidate_cache clears {a}", stmt=f"[{a}]")
    chk = meths["_check_cache"]
    ctx.analysed(chk)
    cfg = CFG(chk)
    tests = [n for n in cfg.nodes if n.kind == "test" and "self._chromosome.changed" in norm(n.stmt.test)]
    if not tests:
        raise AnalysisError("_check_cache: test of self._chromosome.changed not found")
    t0 = tests[0]
    inv_nodes = _stmt_nodes(cfg, lambda s: isinstance(s, ast.Expr) and norm(s.value) == "self.invalidate_cache()")
    comp_nodes = _stmt_nodes(cfg, lambda s: isinstance(s, ast.Expr) and isinstance(s.value, ast.Call) and norm(s.value.func) == "comp")
    clear_nodes = _stmt_nodes(cfg, lambda s: _assigns_attr(s, "changed", "False"))
    starts = [b for b, lab in cfg.succ[t0.id] if lab == "true"]
    p = cfg.path(starts, comp_nodes | clear_nodes | {cfg.exit}, avoid_nodes=inv_nodes, labels_excluded=("exc",))
    ctx.paths += 1
    ctx.check("C12.invalidate", t0.stmt, p is None and bool(inv_nodes), "_check_cache recomputes or clears the dirty flag on a changed chromosome without invalidating ALL cached values first (self.invalidate_cache()): the other value maps keep values of the old tests", what="changed -> invalidate_cache() before comp / flag clear", path=cfg.describe_path(p) if p else [])
    # flag cleared only after comp
    for cn in clear_nodes:
        p = cfg.path(starts, [cn], avoid_nodes=comp_nodes, labels_excluded=("exc",))
        ctx.paths += 1
        ctx.check("C12.invalidate", cfg.nodes[cn].stmt, p is None, "_check_cache clears the dirty flag before the requested values were recomputed", what="flag cleared after comp(only)")
    cl = meths["clone"]
    ctx.analysed(cl)
    kws = {k.arg for n in own_nodes(cl) if isinstance(n, ast.Call) and norm(n.func) == "ComputationCache" for k in n.keywords}
    init_kw = {a.arg for a in init.args.kwonlyargs}
    ctx.check("C12.invalidate", cl, init_kw <= kws, f"ComputationCache.clone does not pass {sorted(init_kw - kws)}", what=f"clone passes all of {sorted(init_kw)}", stmt="[clone]")

    # ------------------------------------------------------------------ C12.key
    for mname, fn in meths.items():
        rets = [n for n in own_nodes(fn) if isinstance(n, ast.Return) and isinstance(n.value, ast.Subscript) and isinstance(n.value.value, ast.Attribute) and n.value.value.attr in cache_attrs]
        for r in rets:
            ctx.analysed(fn)
            key = norm(r.value.slice)
            cache = r.value.value.attr
            c = CFG(fn)
            guards = {n.id for n in c.nodes if n.kind == "stmt" and isinstance(n.stmt, ast.Expr) and isinstance(n.stmt.value, ast.Call) and norm(n.stmt.value.func) == "self._check_cache" and len(n.stmt.value.args) >= 4 and norm(n.stmt.value.args[3]) == key and norm(n.stmt.value.args[1]) == f"self.{cache}"}
            rn = c.nodes_of(r)
            p = c.path([c.entry], rn, avoid_nodes=guards)
            ctx.paths += 1
            ctx.check("C12.key", r, p is None and bool(guards), f"{mname} subscripts {cache}[{key}] without a preceding self._check_cache(<comp>, self.{cache}, <funcs>, {key})", what=f"{mname}: _check_cache(.., {cache}, .., {key}) dominates the subscript")
    # inside _check_cache: a path that does not call comp must have established `only in cache`
    par = [a.arg for a in chk.args.args]
    cache_p, only_p = par[2], par[4] if len(par) > 4 else "only"

    def establishes(src, dst, lab):
        n = cfg.nodes[src]
        if n.kind != "test" or lab not in ("true", "false"):
            return False
        for atom, truth in edge_implies(n.stmt.test, lab == "true"):
            txt = norm(atom)
            if truth and txt == f"{only_p} in {cache_p}":
                return True
            if not truth and txt == f"{only_p} not in {cache_p}":
                return True
            if not truth and isinstance(atom, ast.BoolOp) and isinstance(atom.op, ast.And):
                parts = {norm(v) for v in atom.values}
                if parts == {f"{only_p} is not None", f"{only_p} not in {cache_p}"}:
                    return True  # callers that subscript pass a non-None key
        return False

    p = cfg.path([cfg.entry], [cfg.exit], avoid_nodes=comp_nodes, avoid_edges=establishes, labels_excluded=("exc",))
    ctx.paths += 1
    ctx.check(
        "C12.key",
        chk,
        p is None,
        "_check_cache can return without computing the requested value and without knowing that it is cached "
        "(a size comparison does not guarantee the key): a later subscript raises KeyError for a registered function",
        what="every comp-free path establishes `only in cache`",
        path=cfg.describe_path(p) if p else [],
        stmt="[key-guarantee]",
    )

    # ------------------------------------------------------------------ C12.run
    r1 = repo.func(COMP, "TestCaseChromosomeComputation._run_test_case_chromosome")
    ctx.analysed(r1)
    c1 = CFG(r1)
    ind = r1.args.args[1].arg
    tn = [n for n in c1.nodes if n.kind == "test" and f"{ind}.changed" in norm(n.stmt.test)]
    ok = False
    if tn:
        t = tn[0].stmt.test
        ok = isinstance(t, ast.BoolOp) and isinstance(t.op, ast.Or) and {norm(v) for v in t.values} == {f"{ind}.changed", f"{ind}.get_last_execution_result() is None"}
    ctx.check("C12.run", tn[0].stmt if tn else r1, ok, "_run_test_case_chromosome does not execute exactly when `changed or last result is None`", what="execute iff changed or no result")
    if tn:
        store = _stmt_nodes(c1, lambda s: isinstance(s, ast.Expr) and isinstance(s.value, ast.Call) and last_attr(s.value) == "set_last_execution_result" and any("execute" in norm(a) for a in s.value.args))
        clr = _stmt_nodes(c1, lambda s: _assigns_attr(s, "changed", "False", ind))
        starts = [b for b, lab in c1.succ[tn[0].id] if lab == "true"]
        for cn in clr:
            p = c1.path(starts, [cn], avoid_nodes=store, labels_excluded=("exc",))
            ctx.paths += 1
            ctx.check("C12.run", c1.nodes[cn].stmt, p is None and bool(store), "_run_test_case_chromosome clears the flag without storing a fresh execution result", what="result stored before flag cleared")
    r2 = repo.func(COMP, "TestSuiteChromosomeComputation._run_test_suite_chromosome")
    ctx.analysed(r2)
    c2 = CFG(r2)
    clr = [n for n in c2.nodes if n.kind == "stmt" and _assigns_attr(n.stmt, "changed", "False")]
    if not clr:
        # a runner that never clears the flag re-executes instead of serving a stored result: nothing can go stale here
        ctx.ok("C12.run", r2, "the suite runner does not clear the changed flag (every query re-executes changed test cases)")
    for n in clr:
        recv = norm(n.stmt.targets[0].value)
        invs = _stmt_nodes(c2, lambda s: isinstance(s, ast.Expr) and norm(s.value) == f"{recv}.invalidate_cache()")
        stores = _stmt_nodes(c2, lambda s: isinstance(s, ast.Expr) and norm(s.value).startswith(f"{recv}.set_last_execution_result("))
        loop = next((a for a in _anc(n.stmt) if isinstance(a, ast.For)), None)
        heads = [x.id for x in c2.nodes if x.kind == "for" and x.stmt is loop]
        nxt = [b for b, lab in c2.succ[n.id] if lab != "exc"]
        p = c2.path(nxt, heads + [c2.exit], avoid_nodes=invs, labels_excluded=("exc",))
        ctx.paths += 1
        ctx.check("C12.run", n.stmt, p is None and bool(invs), f"the suite runner clears `{recv}.changed` without invalidating the test case's own cache: the test case serves values of its old statements", what="suite runner: flag clear followed by invalidate_cache()", path=c2.describe_path(p) if p else [])
        ctx.check("C12.run", n.stmt, bool(stores), "the suite runner clears the flag without storing the new result", what="suite runner stores the result", stmt=norm(n.stmt) + " [store]")
    # the selection of what to execute
    sel = [x for x in own_nodes(r2) if isinstance(x, ast.BoolOp) and isinstance(x.op, ast.Or) and any(norm(v).endswith(".changed") for v in x.values)]
    ok = bool(sel) and any(norm(v).endswith(".get_last_execution_result() is None") for v in sel[0].values)
    ctx.check("C12.run", sel[0] if sel else r2, ok, "the suite runner does not select `changed or last result is None` for execution", what="suite runner: execute iff changed or no result", stmt="[select]")

    # ------------------------------------------------------------------ C12.set-changed
    def must_set(fn, write_pred, flag_recv, what, safe_edge=None):
        c = CFG(fn)
        writes = [n for n in c.nodes if n.kind == "stmt" and write_pred(n.stmt)]
        sets = _stmt_nodes(c, lambda s: _assigns_attr(s, "changed", "True", flag_recv))
        for w in writes:
            nxt = [b for b, lab in c.succ[w.id] if lab != "exc"]
            p = c.path(nxt, [c.exit], avoid_nodes=sets, avoid_edges=safe_edge(c) if safe_edge else None, labels_excluded=("exc",))
            ctx.paths += 1
            ctx.analysed(fn)
            ctx.check("C12.set-changed", w.stmt, p is None and bool(sets), f"{qualname(fn)}: {what} is modified but a path reaches the exit without `{flag_recv}.changed = True`: cached values of the old tests are served", what=f"{qualname(fn)}: write -> {flag_recv}.changed = True", path=c.describe_path(p) if p else [])
        return len(writes)

    tsc = repo.cls(TSC, "TestSuiteChromosome")
    n_w = 0
    for mname, fn in repo.methods(tsc).items():
        if mname in ("__init__", "clone"):
            continue

        def wpred(s):
            if isinstance(s, ast.Expr) and isinstance(s.value, ast.Call) and isinstance(s.value.func, ast.Attribute) and norm(s.value.func.value) == "self.test_case_chromosomes" and s.value.func.attr in ("append", "remove", "extend", "insert", "pop", "clear", "sort", "reverse"):
                return True
            if isinstance(s, ast.Assign) and any((isinstance(t, ast.Subscript) and norm(t.value) == "self.test_case_chromosomes") or norm(t) == "self.test_case_chromosomes" for t in s.targets):
                return True
            return isinstance(s, ast.Delete) and any("self.test_case_chromosomes" in norm(t) for t in s.targets)

        def safe(c, fn=fn):
            ext_args = {norm(x.args[0]) for x in own_nodes(fn) if isinstance(x, ast.Call) and last_attr(x) == "extend" and x.args}

            def f(src, dst, lab):
                n = c.nodes[src]
                # extending by an empty list changes nothing
                return n.kind == "test" and lab == "false" and norm(n.stmt.test) in ext_args

            return f

        n_w += must_set(fn, wpred, "self", "the list of test cases", safe)
    for qn, recv, attr in (("splice_test_case_chromosomes", "parent", "test_case"), ("splice_test_suite_chromosomes", "parent", "test_case_chromosomes")):
        fn = repo.func(CROSS, qn)
        n_w += must_set(fn, lambda s, attr=attr, recv=recv: isinstance(s, ast.Assign) and any(norm(t) == f"{recv}.{attr}" for t in s.targets), recv, f"{recv}.{attr}")
    if n_w < 6:
        raise AnalysisError(f"C12.set-changed: only {n_w} writers found")
    # mutation operators: a local flag collects the results and is transferred at the end
    for qn in ("TestCaseMutation.mutate", "TestSuiteMutation.mutate"):
        fn = repo.func(MUT, qn)
        ctx.analysed(fn)
        chrom = fn.args.args[1].arg
        c = CFG(fn)
        last = fn.body[-1]
        ok = isinstance(last, ast.If) and norm(last.test) == "changed" and any(_assigns_attr(s, "changed", "True", chrom) for s in last.body)
        ctx.check("C12.set-changed", last, ok, f"{qn} does not end with `if changed: {chrom}.changed = True`", what=f"{qn}: local flag transferred to the chromosome at the end")
        resets = [n for n in own_nodes(fn) if isinstance(n, ast.Assign) and norm(n.targets[0]) == "changed" and norm(n.value) != "True"]
        local_sets = _stmt_nodes(c, lambda s: isinstance(s, ast.Assign) and norm(s.targets[0]) == "changed" and norm(s.value) == "True") | _stmt_nodes(c, lambda s: isinstance(s, ast.AugAssign) and norm(s.target) == "changed")
        reset_nodes = [nid for r in resets for nid in c.nodes_of(r)]
        after_set = c.reachable(local_sets) if local_sets else set()
        ctx.check("C12.set-changed", fn, bool(resets) and not (set(reset_nodes) & after_set), f"{qn} resets the local `changed` flag after a change may have been recorded", what=f"{qn}: local flag never reset after a recorded change", stmt="[reset]")
        # direct writers inside the operator
        def direct(s):
            if isinstance(s, ast.Expr) and isinstance(s.value, ast.Call):
                f = last_attr(s.value)
                return f in ("remove_statements_batch", "remove_statement", "add_test_case_chromosome", "delete_test_case_chromosome", "set_test_case_chromosome", "insert_statement", "replace_statement")
            return False

        for w in [n for n in c.nodes if n.kind == "stmt" and direct(n.stmt)]:
            nxt = [b for b, lab in c.succ[w.id] if lab != "exc"]
            p = c.path(nxt, [c.exit], avoid_nodes=local_sets, labels_excluded=("exc",))
            ctx.paths += 1
            ctx.check("C12.set-changed", w.stmt, p is None, f"{qn}: `{norm(w.stmt)[:60]}` modifies the chromosome but a path to the exit does not record it in `changed`", what=f"{qn}: direct write recorded", path=c.describe_path(p) if p else [])
        # conditions that contain a changed-reporting call: the true edge must record it
        for t in [n for n in c.nodes if n.kind == "test" and isinstance(n.stmt, ast.If)]:
            calls = [x for x in ast.walk(t.stmt.test) if isinstance(x, ast.Call) and (last_attr(x).startswith("_mutation_") or last_attr(x) in ("_delete_statement", "_mutate_statement"))]
            flag_reads = [x for x in ast.walk(t.stmt.test) if isinstance(x, ast.Attribute) and x.attr == "changed"]
            if not calls and not flag_reads:
                continue
            if t.stmt is last:
                continue
            nxt = [b for b, lab in c.succ[t.id] if lab == "true"]
            p = c.path(nxt, [c.exit], avoid_nodes=local_sets, labels_excluded=("exc",))
            ctx.paths += 1
            ctx.check("C12.set-changed", t.stmt, p is None, f"{qn}: `{norm(t.stmt.test)[:70]}` reports a change but its true branch does not record it in `changed`", what=f"{qn}: reported change recorded", path=c.describe_path(p) if p else [])
        # a test case replaced wholesale
        for w in [n for n in c.nodes if n.kind == "stmt" and isinstance(n.stmt, ast.Assign) and any(norm(tg) in (f"{chrom}.test_case", f"{chrom}.test_case_chromosomes") for tg in n.stmt.targets)]:
            src = norm(w.stmt.value)
            if src == "backup":
                continue  # restoring the pre-mutation clone: equal to the state the cache describes unless `changed` was recorded
            if "test_case_chromosomes" in norm(w.stmt.targets[0]) and " if " in src and ".size() > 0" in src:
                # dropping emptied tests: they were mutated, so `changed` is already recorded through test.changed
                continue
            nxt = [b for b, lab in c.succ[w.id] if lab != "exc"]
            p = c.path(nxt, [c.exit], avoid_nodes=local_sets, labels_excluded=("exc",))
            ctx.paths += 1
            ctx.check("C12.set-changed", w.stmt, p is None, f"{qn}: the chromosome's tests are replaced without recording the change", what=f"{qn}: replacement recorded")

    # ------------------------------------------------------------------ C12.alias
    # a variation operator never installs test case chromosomes that another suite still owns:
    # a shared TestCaseChromosome mutated through one suite leaves the other suite's flag down
    n_alias = 0
    for mname in (CROSS, MUT):
        mod = repo.module(mname)
        for qn, fn in mod.functions.items():
            for n in own_nodes(fn):
                recv = None
                value = None
                if isinstance(n, ast.Assign) and isinstance(n.targets[0], ast.Attribute) and n.targets[0].attr == "test_case_chromosomes":
                    recv, value = norm(n.targets[0].value), n.value
                elif isinstance(n, ast.Call) and last_attr(n) in ("add_test_case_chromosome", "add_test_case_chromosomes", "set_test_case_chromosome") and isinstance(n.func, ast.Attribute) and n.args:
                    recv, value = norm(n.func.value), n.args[-1]
                if recv is None:
                    continue
                foreign = []
                for x in ast.walk(value):
                    if isinstance(x, ast.Attribute) and x.attr == "test_case_chromosomes" and norm(x.value) != recv:
                        # accepted: iterable of a comprehension whose element clones the loop variable
                        ok_ = False
                        a = parent(x)
                        while a is not None and a is not n:
                            if isinstance(a, ast.comprehension):
                                comp = parent(a)
                                if isinstance(comp, (ast.ListComp, ast.GeneratorExp)) and isinstance(comp.elt, ast.Call) and last_attr(comp.elt) == "clone" and norm(comp.elt.func.value) == norm(a.target):
                                    ok_ = True
                                break
                            a = parent(a)
                        if not ok_:
                            foreign.append(x)
                st = n
                while not isinstance(st, ast.stmt):
                    st = parent(st)
                if any(isinstance(x, ast.Attribute) and x.attr == "test_case_chromosomes" and norm(x.value) != recv for x in ast.walk(value)):
                    n_alias += 1
                    ctx.analysed(fn)
                    ctx.check("C12.alias", st, not foreign, f"{qn}: test case chromosomes of `{norm(foreign[0].value) if foreign else ''}` are installed in `{recv}` without cloning: both suites share the objects, and a mutation through one suite marks only that suite as changed - the other keeps serving cached values for tests that have changed", what=f"{qn}: foreign test case chromosomes cloned before installation")
    if n_alias == 0:
        raise AnalysisError("C12.alias: no cross-suite installation site found in the variation operators")

    # ------------------------------------------------------------------ C12.must-use
    tf_cls = repo.cls(TF, "TestFactory")
    family = {m for m, f in repo.methods(tf_cls).items() if f.returns is not None and norm(f.returns) == "bool" and not m.startswith("has_") and not m.startswith("is_") and not m.startswith("_is") and not m.startswith("can_")}
    tm = repo.cls(MUT, "TestCaseMutation")
    family |= {m for m, f in repo.methods(tm).items() if f.returns is not None and norm(f.returns) == "bool"}
    ctx.extra["changed_reporting_family"] = sorted(family)
    n_sites = 0
    for mname in (MUT, TCC, CROSS, "pynguin.ga.testsuitechromosome"):
        mod = repo.module(mname)
        for qn, fn in mod.functions.items():
            for n in own_nodes(fn):
                if isinstance(n, ast.Call) and last_attr(n) in family and isinstance(n.func, ast.Attribute):
                    n_sites += 1
                    ctx.analysed(fn)
                    st = n
                    while not isinstance(st, ast.stmt):
                        st = parent(st)
                    discarded = isinstance(st, ast.Expr) and st.value is n
                    ctx.check("C12.must-use", st, not discarded, f"{qn}: the result of `{norm(n.func)}` (reports whether the test case changed) is discarded", what=f"{qn}: result of {last_attr(n)} used")

    # ------------------------------------------------------------------ C12.clearers
    for mod, qn, fn in repo.all_functions("pynguin"):
        if mod.name.startswith(("pynguin.large_language_model", "pynguin.refinement")):
            continue
        for n in own_nodes(fn):
            if isinstance(n, ast.Assign) and any(isinstance(t, ast.Attribute) and t.attr == "changed" for t in n.targets) and norm(n.value) == "False":
                ctx.analysed(fn)
                base = qn.split(".<locals>")[0].split("#")[0]
                allowed = CLEARERS.get((mod.name, base)) or CLEARERS.get((mod.name, "*"))
                ctx.check("C12.clearers", n, allowed is not None, f"{mod.name}:{qn} clears a chromosome's dirty flag; only the cache, the two run helpers and the enumerated sites may do that", what=f"{qn}: {allowed}")


def _clone_fresh(ctx, repo) -> None:
    from sa.engine import peval

    CC = "pynguin.ga.computation_cache"
    cls = repo.cls(CC, "ComputationCache")
    fn = repo.methods(cls).get("clone")
    if fn is None:
        raise AnalysisError("anchor vanished: ComputationCache.clone")
    ctx.analysed(fn)
    cmod = repo.module(CC)
    cres = peval.repo_class_resolver(repo, only={"ComputationCache"})
    for label, filled in (("non-empty containers", True), ("empty containers", False)):
        kw = {"fitness_functions": ["ff"] if filled else [], "coverage_functions": ["cf"] if filled else [], "fitness_cache": {"ff": 1.0} if filled else {},
              "is_covered_cache": {"ff": False} if filled else {}, "coverage_cache": {"cf": 0.5} if filled else {}}
        tag = f"[clone {label}]"
        try:
            it = peval.Interp(resolver=peval.repo_resolver(repo), class_resolver=cres)
            orig = it.instantiate("ComputationCache", cres("ComputationCache", cmod), ["chromosome"], dict(kw))
            clone = orig.methods["clone"]("other chromosome")
        except (peval.Undecided, peval.Raises) as exc:
            ctx.undecide("C12.clone-fresh", fn, f"{tag}: {exc}")
            continue
        shared = sorted(k for k, v in orig.fields.items() if isinstance(v, (list, dict)) and clone.fields.get(k) is v)
        differs = sorted(k for k, v in orig.fields.items() if isinstance(v, (list, dict)) and clone.fields.get(k) != v)
        own = clone.fields.get("_chromosome") == "other chromosome"
        ctx.check("C12.clone-fresh", fn, not shared and not differs and own,
                  f"{tag}: the clone shares {shared} with the original (contents differ: {differs}; bound to the new chromosome: {own}): a value cached for one chromosome is returned for its relative after that one changed",
                  what=f"{tag}: own copies of every container, equal contents", stmt=tag)


def _cache_laws(ctx, repo, depth: int) -> None:
    """Every getter of ComputationCache returns what the registered functions compute on the chromosome's current
    state, for every sequence of registrations, queries and changes up to `depth` (after the first registration)."""
    import itertools
    import statistics

    from sa.engine import peval

    cls = repo.cls(CC, "ComputationCache")
    meths = repo.methods(cls)
    for m in ("get_fitness", "get_fitness_for", "get_is_covered", "get_coverage", "get_coverage_for", "_check_cache", "add_fitness_function", "add_coverage_function"):
        if m not in meths:
            raise AnalysisError(f"anchor vanished: ComputationCache.{m}")
        ctx.analysed(meths[m])
    cmod = repo.module(CC)
    cres = peval.repo_class_resolver(repo, only={"ComputationCache"})
    FT = {0: [2.0, 0.0, 1.0, 4.0, 0.0, 7.0], 1: [3.0, 5.0, 0.0, 0.0, 6.0, 1.0]}
    CT = {0: [0.5, 1.0, 0.25, 0.0, 0.75, 0.5], 1: [0.0, 0.5, 1.0, 0.25, 0.5, 1.0]}
    ALPHA = ["addf1", "addc0", "addc1", "mutate", "restore0", "fit", "fitfor0", "fitfor1", "iscov0", "iscov1", "cov", "covfor0", "covfor1"]
    n_seq = n_obs = 0
    reported = set()
    for k in range(1, depth + 1):
        for seq in itertools.product(ALPHA, repeat=k):
            if seq[-1] in ("addf1", "addc0", "addc1", "mutate", "restore0"):
                continue  # ends without an observation
            if sum(o == "addf1" for o in seq) > 1 or sum(o == "addc0" for o in seq) > 1 or sum(o == "addc1" for o in seq) > 1:
                continue
            it = peval.Interp(resolver=peval.repo_resolver(repo), class_resolver=cres, max_steps=50000)
            chrom = peval.Obj("chromosome", fields={"changed": True, "version": 0})

            def mk_f(i):
                o = peval.Obj(f"fitness{i}")
                o.methods["compute_fitness"] = lambda ch, i=i: FT[i][ch.fields["version"]]
                o.methods["compute_is_covered"] = lambda ch, i=i: FT[i][ch.fields["version"]] == 0.0
                o.methods["is_maximisation_function"] = lambda: False
                return o

            def mk_c(j):
                o = peval.Obj(f"coverage{j}")
                o.methods["compute_coverage"] = lambda ch, j=j: CT[j][ch.fields["version"]]
                return o

            fs = {0: mk_f(0), 1: mk_f(1)}
            cs = {0: mk_c(0), 1: mk_c(1)}
            regf: list[int] = [0]
            regc: list[int] = []
            override: dict[int, float] = {}  # fitness values put back by set_fitness_values (local search restoring a test)

            def fval(i, ver):
                return override.get(i, FT[i][ver])
            tag = "[laws] addf0 " + " ".join(seq)
            try:
                cache = it.instantiate("ComputationCache", cres("ComputationCache", cmod), [chrom], {})
                cache.methods["add_fitness_function"](fs[0])
                valid = True
                for pos, op in enumerate(seq):
                    ver = chrom.fields["version"]
                    want = got = None
                    if op == "addf1":
                        cache.methods["add_fitness_function"](fs[1]); regf.append(1)
                    elif op.startswith("addc"):
                        j = int(op[-1]); cache.methods["add_coverage_function"](cs[j]); regc.append(j)
                    elif op == "mutate":
                        chrom.fields["version"] = ver + 1
                        chrom.fields["changed"] = True
                        override.clear()
                    elif op == "restore0":
                        cache.methods["set_fitness_values"]({fs[0]: 0.0})
                        if not chrom.fields["changed"]:
                            override[0] = 0.0  # on a changed chromosome the next query recomputes everything anyway
                    elif op == "fit":
                        want = sum(fval(i, ver) for i in regf); got = cache.methods["get_fitness"]()
                    elif op.startswith("fitfor"):
                        i = int(op[-1])
                        if i not in regf:
                            valid = False; break
                        want = fval(i, ver); got = cache.methods["get_fitness_for"](fs[i])
                    elif op.startswith("iscov"):
                        i = int(op[-1])
                        if i not in regf:
                            valid = False; break
                        want = fval(i, ver) == 0.0; got = cache.methods["get_is_covered"](fs[i])
                    elif op == "cov":
                        if not regc:
                            valid = False; break
                        want = statistics.mean(CT[j][ver] for j in regc); got = cache.methods["get_coverage"]()
                    elif op.startswith("covfor"):
                        j = int(op[-1])
                        if j not in regc:
                            valid = False; break
                        want = CT[j][ver]; got = cache.methods["get_coverage_for"](cs[j])
                    if want is not None or got is not None:
                        n_obs += 1
                        if got != want:
                            key = (op, tuple(seq[: pos + 1]))
                            short = "[laws] addf0 " + " ".join(seq[: pos + 1])
                            if short not in reported and len(reported) < 3:
                                reported.add(short)
                                ctx.fail("C12.laws", meths["_check_cache"], f"{short}: the last query returns {got!r}, but " + (f"the fitness values put back by set_fitness_values give {want!r}: fitness and covered verdict of one chromosome disagree after local search restored it" if "restore0" in seq[: pos + 1] else f"the registered functions compute {want!r} on the chromosome's current state: a value cached before a registration or a change is served afterwards"), stmt=short)
                            elif short not in reported:
                                reported.add(short)
                            break
                if valid:
                    n_seq += 1
                    if tag not in reported:
                        ctx.ok("C12.laws", meths["_check_cache"], what=tag)
            except peval.Undecided as exc:
                ctx.undecide("C12.laws", meths["_check_cache"], f"{tag}: {exc}")
                return
            except peval.Raises as exc:
                short = tag
                if len(reported) < 3:
                    ctx.fail("C12.laws", meths["_check_cache"], f"{tag}: raises {exc.name} ({exc.detail[:80]}) for registered functions", stmt=tag)
                reported.add(short)
    if not reported:
        ctx.ok("C12.laws", meths["_check_cache"], what=f"{n_seq} operation sequences (depth {depth}), {n_obs} observations agree with the functions' values on the current state")
