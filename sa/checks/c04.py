"""C04 — branch distances are non-negative, not NaN, zero exactly for the outcome taken.

Decides (a) the shape clauses: each distance helper returns 0.0 only under the operator it is
named for, on (val1, val2) in that order; every compare kind has an arm whose (true, false) pair
is the complement pair of the table; the arguments handed to _update_metrics bind the like-named
parameters at every call site; the bool / exception-match predicates start both distances at 0.0
and reassign exactly one on every path; and (b) the numeric clauses, by interpreting
executed_compare_predicate and the helpers it calls with the checker's own evaluator over a
partition of operand pairs (ordered, equal, NaN, infinities, ints beyond float range, ints
closer than the float resolution, bool/int mixes, strings, bytes, partially ordered sets):
both distances non-negative and not NaN, exactly one zero, the zero one being the outcome of
Python's own operator, and no exception unless the operator itself raises.
The partition includes user classes with partial or inconsistent rich-comparison protocols (only __ge__ / only
__le__, a str subclass with its own equality or order, a container whose __contains__ disagrees with its
iteration or whose __iter__ raises) and exception classes matched through a metaclass hook or ABC registration
(the interpreter matches along the MRO only).  String-distance magnitudes are not decided.
Further clauses (added later): Byte-string distances are also evaluated for non-UTF-8 operands; the partition
includes user classes with partial / inconsistent rich-comparison protocols, str subclasses with their own
comparison, containers whose __contains__ disagrees with iteration, and exception classes with a metaclass
hook or ABC registration (MRO oracle).
"""

from __future__ import annotations

import ast
import math
import operator

from sa.engine import peval
from sa.engine.cfg import CFG
from sa.engine.index import canonical_by_callee, AnalysisError, last_attr, norm, own_nodes, parent

TR = "pynguin.instrumentation.tracer"
TU = "pynguin.utils.type_utils"

HELPER_OP = {"_eq": ast.Eq, "_neq": ast.NotEq, "_lt": ast.Lt, "_le": ast.LtE, "_gt": ast.Gt, "_ge": ast.GtE, "_in": ast.In, "_nin": ast.NotIn, "_is": ast.Is, "_isn": ast.IsNot}
# compare kind -> (true helper, args), (false helper, args); a = value1, b = value2
TABLE = {
    "EQ": (("_eq", "ab"), ("_neq", "ab")),
    "NE": (("_neq", "ab"), ("_eq", "ab")),
    "LT": (("_lt", "ab"), ("_le", "ba")),
    "LE": (("_le", "ab"), ("_lt", "ba")),
    "GT": (("_gt", "ab"), ("_le", "ab")),  # the operator the module evaluates, not its reflection (partial protocols)
    "GE": (("_ge", "ab"), ("_lt", "ab")),
    "IN": (("_in", "ab"), ("_nin", "ab")),
    "NOT_IN": (("_nin", "ab"), ("_in", "ab")),
    "IS": (("_is", "ab"), ("_isn", "ab")),
    "IS_NOT": (("_isn", "ab"), ("_is", "ab")),
}
PYOP = {"EQ": operator.eq, "NE": operator.ne, "LT": operator.lt, "LE": operator.le, "GT": operator.gt, "GE": operator.ge,
        "IN": lambda a, b: a in b, "NOT_IN": lambda a, b: a not in b, "IS": operator.is_, "IS_NOT": operator.is_not}

NAN = float("nan")
BIG = 10**400
ORDER_PAIRS = [
    (1, 2), (2, 1), (2, 2), (1.5, 2), (2, 1.5), (-0.0, 0.0), (0.1 + 0.2, 0.3),
    (NAN, 1.0), (1.0, NAN), (NAN, NAN), (math.inf, 1), (1, math.inf), (-math.inf, math.inf), (math.inf, math.inf),
    (BIG, BIG + 1), (BIG + 1, BIG), (BIG, BIG), (BIG, 1.5), (1.5, BIG), (2**53 + 1, 2**53), (2**53, 2**53 + 1), (2**53 + 1, 2**53 + 1),
    (True, 2), (2, True), (False, 0),
    ("abc", "abd"), ("abd", "abc"), ("abc", "abc"), ("", "a"), ("a", ""), ("ab", "a"), ("a", "ab"),
    (b"\x89PNG", b"\xff\xfe"), (b"ab", b"ab"), (b"b", b"a"),
    (b"\x80", b"\x81"), (b"\x81", b"\x80"), (b"caf\xe9", b"caf\xe8"), (b"\xff", b"\xc3\xa9"), (b"\xc3\xa9", b"\xff"), (bytearray(b"\xfe"), bytearray(b"\xfd")),  # bytes that are not UTF-8 and differ only there
    ({1}, {2}), ({1}, {1, 2}), ({1, 2}, {1}), ({1}, {1}),
    (1, "a"), ("a", 1), (None, None), (None, 1), ((1, 2), (1, 3)), ((1, 3), (1, 2)),
]
MEMBER_PAIRS = [(b"\x80", [b"\x81"]), (b"\x80", b"a\x81b"), (1, [1, 2]), (3, [1, 2]), (3, []), ("a", "abc"), ("z", "abc"), (1, {1: 2}), (2.5, (1, 2)), (NAN, [NAN]), (NAN, [1.0]), (1, 5), ("a", [1, "b"]), (BIG, [1, BIG + 1])]
IDENT_PAIRS = [(None, None), (None, 1), (1, 1.0), ("a", "b")]


def _stmt(n):
    while n is not None and not isinstance(n, ast.stmt):
        n = parent(n)
    return n


def _positive_distance_is_positive(ctx, repo) -> bool:
    """_positive_distance(compute) > 0 and not NaN for a compute() that returns 0, a negative, NaN, a positive, or raises."""
    fn = repo.try_func(TR, "_positive_distance")
    if fn is None:
        return False
    ctx.analysed(fn)

    def raising(name):
        def f():
            raise peval.Raises(name, "probe")
        return f

    probes = [lambda: 0.0, lambda: -3.0, lambda: NAN, lambda: 4.0, lambda: math.inf, raising("OverflowError"), raising("TypeError"), raising("ValueError"), raising("ZeroDivisionError"), raising("FloatingPointError"), raising("ArithmeticError")]
    try:
        for pr in probes:
            r = peval.Interp().run_function(fn, [pr], {}, repo.module(TR))
            if not (isinstance(r, float) and r > 0.0):
                return False
    except (peval.Raises, peval.Undecided):
        return False
    return True


def _canon(repo, fn):
    """The callback with its locals named after the parameters of _update_metrics they feed (distance_true /
    distance_false / predicate): the rules below then do not depend on how the callback spells its locals."""
    um = repo.func(TR, "ExecutionTracer._update_metrics")
    return canonical_by_callee(fn, um, lambda c: norm(c.func) == "self._update_metrics")


def check(ctx) -> None:
    repo = ctx.repo
    ctx.rule("C04.helper-op", "each distance helper returns 0.0 only in the true branch of the operator it is named for, applied to (val1, val2) in that order (or in a handler of the operator's own TypeError); every other return is non-zero", floor=8)
    ctx.rule("C04.complement", "EXHAUSTIVE + TABLE: executed_compare_predicate has an arm for every compare kind except EXC_MATCH and the (true, false) pair of each arm is the complement pair of the table", floor=10)
    ctx.rule("C04.args", "every _update_metrics call binds distance_false / distance_true / predicate to the like-named parameters; update_predicate_distances likewise", floor=5)
    ctx.rule("C04.one-zero", "bool / exception-match predicates: both distances start at 0.0 and every path reassigns exactly one of them to a value that cannot be zero", floor=2)
    ctx.rule("C04.numeric", "ABSINT over a partition of operand pairs (checker's evaluator): distances >= 0, not NaN, exactly one zero = outcome of Python's operator, no exception unless the operator raises", floor=300)
    ctx.rule("C04.assert", "_update_metrics asserts non-negativity of both distances and exactly-one-zero before recording", floor=3)

    tmod = repo.module(TR)
    # ------------------------------------------------------------------ C04.helper-op
    for name, op in HELPER_OP.items():
        fn = repo.func(TR, name)
        ctx.analysed(fn)
        ps = [a.arg for a in fn.args.args]
        zero_rets = [n for n in own_nodes(fn) if isinstance(n, ast.Return) and isinstance(n.value, ast.Constant) and n.value.value in (0, 0.0) and not isinstance(n.value.value, bool)]
        ok_all = bool(zero_rets)
        why = ""
        for r in zero_rets:
            p = parent(r)
            in_handler = isinstance(p, ast.ExceptHandler) and p.type is not None and norm(p.type) == "TypeError"
            if in_handler:
                # only acceptable for the negated membership test: Python's own `not in` raises for the same operands
                if name != "_nin":
                    ok_all, why = False, "returns 0.0 from an exception handler"
                continue
            if not (isinstance(p, ast.If) and r in p.body and isinstance(p.test, ast.Compare) and len(p.test.ops) == 1 and isinstance(p.test.ops[0], op) and norm(p.test.left) == ps[0] and norm(p.test.comparators[0]) == ps[1]):
                ok_all, why = False, f"`return 0.0` is guarded by `{norm(p.test) if isinstance(p, ast.If) else type(p).__name__}` instead of `{ps[0]} {_sym(op)} {ps[1]}`"
        ctx.check("C04.helper-op", fn, ok_all, f"{name}: {why or 'no zero return under its own operator'}: the distance is zero for an outcome the interpreter does not take", what=f"{name}: zero only under `val1 {_sym(op)} val2`")

    # ------------------------------------------------------------------ C04.complement
    ecp = _canon(repo, repo.func(TR, "ExecutionTracer.executed_compare_predicate"))
    ctx.analysed(ecp)
    mt = next((n for n in own_nodes(ecp) if isinstance(n, ast.Match)), None)
    if mt is None:
        raise AnalysisError("executed_compare_predicate: match over cmp_op not found")
    pc = repo.cls("pynguin.instrumentation", "PynguinCompare")
    members = [norm(s.targets[0]) for s in pc.body if isinstance(s, ast.Assign)]
    arms = {}
    for c in mt.cases:
        if isinstance(c.pattern, ast.MatchValue):
            arms[norm(c.pattern.value).split(".")[-1]] = c
    params = [a.arg for a in ecp.args.args]
    va, vb = params[1], params[2]
    wrapped: set[str] = set()
    for m in members:
        if m == "EXC_MATCH":
            continue
        arm = arms.get(m)
        if arm is None:
            ctx.fail("C04.complement", mt, f"compare kind {m} has no arm: executed_compare_predicate raises AssertionError for it", stmt=f"[{m}]")
            continue
        asg = next((s for s in arm.body if isinstance(s, ast.Assign) and isinstance(s.targets[0], ast.Tuple) and isinstance(s.value, ast.Tuple)), None)
        got = None
        if asg is not None and [norm(t) for t in asg.targets[0].elts] == ["distance_true", "distance_false"]:
            got = []
            for pos, v in enumerate(asg.value.elts):
                if isinstance(v, ast.Call) and isinstance(v.func, ast.Name) and len(v.args) == 2:
                    order = "".join("a" if norm(x) == va else "b" if norm(x) == vb else "?" for x in v.args)
                    got.append((v.func.id, order))
                elif pos == 1 and isinstance(v, ast.Call) and norm(v.func) == "_complement" and len(v.args) == 3 and isinstance(v.args[0], ast.Name):
                    # containment wrapper around the distance to the outcome that is not evaluated: _complement(helper, x, y)
                    order = "".join("a" if norm(x) == va else "b" if norm(x) == vb else "?" for x in v.args[1:])
                    got.append((v.args[0].id, order))
                    wrapped.add(m)
        want = TABLE.get(m)
        if want is None:
            ctx.undecide("C04.complement", arm, f"compare kind {m} is not in the checker's table")
            continue
        ctx.check("C04.complement", asg or arm, got is not None and tuple(got) == want, f"{m}: (true, false) distances are {got}, the complement pair is {want}: the zero distance no longer marks the outcome taken", what=f"{m}: {want}", stmt=f"[{m}]")

    if wrapped:
        # the wrapper must be transparent: helper(x, y) with the arguments in order, infinite (never zero, never raising) otherwise
        comp = repo.try_func(TR, "_complement")
        ok, why = comp is not None, "`_complement` is not defined in the tracer module"
        if comp is not None:
            ctx.analysed(comp)
            seen = []

            def probe(x, y):
                seen.append((x, y))
                return 2.5

            def boom(x, y):
                raise peval.Raises("TypeError", "probe")

            try:
                r1 = peval.Interp().run_function(comp, [probe, "L", "R"], {}, repo.module(TR))
                r2 = peval.Interp().run_function(comp, [boom, "L", "R"], {}, repo.module(TR))
                ok = r1 == 2.5 and seen == [("L", "R")] and r2 == math.inf
                why = f"_complement(helper, L, R) evaluated helper{seen} -> {r1!r}; with a raising helper -> {r2!r} (expected 2.5 and inf)"
            except peval.Raises as exc:
                ok, why = False, f"_complement lets {exc.name} escape into the instrumented module"
            except peval.Undecided as exc:
                ok, why = None, str(exc)
        if ok is None:
            ctx.undecide("C04.complement", comp, why)
        else:
            ctx.check("C04.complement", comp or mt, ok, why, what="_complement forwards (helper, x, y) in order and maps a failure to an infinite distance", stmt="[_complement]")

    # ------------------------------------------------------------------ C04.args
    um = repo.func(TR, "ExecutionTracer._update_metrics")
    um_params = [a.arg for a in um.args.args][1:]
    n_calls = 0
    for qn, fn in tmod.functions.items():
        fn = _canon(repo, fn) if qn.startswith("ExecutionTracer.") and qn.count(".") == 1 and qn != "ExecutionTracer._update_metrics" else fn
        for c in own_nodes(fn):
            if isinstance(c, ast.Call) and norm(c.func) == "self._update_metrics":
                n_calls += 1
                ctx.analysed(fn)
                bound = {}
                for i, a in enumerate(c.args):
                    bound[um_params[i]] = norm(a)
                for k in c.keywords:
                    bound[k.arg] = norm(k.value)
                ok = all(bound.get(p) == p for p in um_params)
                ctx.check("C04.args", c, ok, f"{qn}: _update_metrics{tuple(um_params)} is called with {bound}: true and false distances are swapped or misbound", what=f"{qn}: arguments bind like-named parameters")
    upd = [c for c in own_nodes(um) if isinstance(c, ast.Call) and last_attr(c) == "update_predicate_distances"]
    ok = len(upd) == 1 and all(k.arg == norm(k.value) for k in upd[0].keywords) and len(upd[0].keywords) == 3 and not upd[0].args
    ctx.check("C04.args", um, ok, "_update_metrics does not hand (distance_true, distance_false, predicate) to update_predicate_distances by their names", what="_update_metrics -> update_predicate_distances by name")

    # ------------------------------------------------------------------ C04.assert
    asserts = [norm(n.test) for n in own_nodes(um) if isinstance(n, ast.Assert)]
    for want in ("distance_true >= 0.0", "distance_false >= 0.0", "(distance_true == 0.0) ^ (distance_false == 0.0)"):
        ctx.check("C04.assert", um, want in asserts, f"_update_metrics lost its check `{want}`", what=f"assert {want}", stmt=f"[{want}]")

    # ------------------------------------------------------------------ C04.one-zero
    for qn in ("ExecutionTracer.executed_bool_predicate", "ExecutionTracer.executed_exception_match"):
        fn = _canon(repo, repo.func(TR, qn))
        ctx.analysed(fn)
        cfg = CFG(fn)
        inits = {}
        writes = {"distance_true": [], "distance_false": []}
        for n in cfg.nodes:
            if n.kind == "stmt" and isinstance(n.stmt, ast.Assign) and norm(n.stmt.targets[0]) in writes:
                nm = norm(n.stmt.targets[0])
                if nm not in inits and norm(n.stmt.value) == "0.0":
                    inits[nm] = n.id
                else:
                    writes[nm].append(n)
        sink = [n.id for n in cfg.nodes if n.kind == "stmt" and n.stmt is not None and any(isinstance(c, ast.Call) and norm(c.func) == "self._update_metrics" for c in ast.walk(n.stmt))]
        ok = len(inits) == 2 and bool(sink)
        msg = "both distances must start at 0.0 and reach _update_metrics"
        if ok:
            wt = {n.id for n in writes["distance_true"]}
            wf = {n.id for n in writes["distance_false"]}
            # no path without any reassignment, no path with both
            p0 = cfg.path([cfg.entry], sink, avoid_nodes=wt | wf, labels_excluded=("exc",))
            both = None
            for a in wt:
                if cfg.path([b for b, lab in cfg.succ[a] if lab != "exc"], list(wf), labels_excluded=("exc",)) is not None:
                    both = a
            for a in wf:
                if cfg.path([b for b, lab in cfg.succ[a] if lab != "exc"], list(wt), labels_excluded=("exc",)) is not None:
                    both = a
            ctx.paths += 2
            ok = p0 is None and both is None
            msg = "a path reaches _update_metrics with both distances still 0.0" if p0 is not None else "a path reassigns both distances"
            # reassigned values cannot be zero: positive constants, inf, len()/abs() under a truthiness guard
            for n in writes["distance_true"] + writes["distance_false"]:
                v = n.stmt.value
                t = norm(v)
                nonzero = (isinstance(v, ast.Constant) and isinstance(v.value, (int, float)) and v.value > 0) or t in ("inf", "math.inf")
                if not nonzero and isinstance(v, ast.Call) and norm(v.func) == "_positive_distance":
                    nonzero = _positive_distance_is_positive(ctx, repo)
                if not nonzero and t in ("len(value)", "float(abs(value))"):
                    # under `if value:` a Sized value has len > 0 and a number is non-zero
                    anc = parent(n.stmt)
                    while anc is not None and anc is not fn:
                        if isinstance(anc, ast.If) and norm(anc.test) == "value" and _in_body(anc, n.stmt):
                            nonzero = True
                        anc = parent(anc)
                if not nonzero:
                    ok = False
                    msg = f"`{norm(n.stmt)}` may assign zero: both distances zero"
        ctx.check("C04.one-zero", fn, ok, f"{qn}: {msg}", what=f"{qn}: exactly one distance reassigned, to a non-zero value")

    # ------------------------------------------------------------------ C04.numeric
    resolver = peval.repo_resolver(repo)

    def resolve(name, mod):
        if name.startswith("self."):
            return None
        return resolver(name, mod)

    rows = 0
    undecided = 0
    bad = []
    body = ecp.body
    for kind in TABLE:
        pairs = (MEMBER_PAIRS + USER_MEMBER_PAIRS) if kind in ("IN", "NOT_IN") else (ORDER_PAIRS + USER_ORDER_PAIRS + (IDENT_PAIRS if kind in ("IS", "IS_NOT", "EQ", "NE") else []))
        for a, b in pairs:
            try:
                expected = bool(PYOP[kind](a, b))
                op_raises = None
            except Exception as exc:  # noqa: BLE001 - Python's own operator on the representative pair
                expected, op_raises = None, type(exc).__name__
            it = peval.Interp(resolver=resolve, identity=("tt.unwrap",), sinks=("self._update_metrics",), native_types=USER_TYPES)
            env = {"self": peval.Token("self"), va: a, vb: b, params[3]: 0, params[4]: peval.Token(f"PynguinCompare.{kind}")}
            outcome = None
            try:
                it.block(body, env, tmod)
                outcome = ("ok", it.sink_calls[-1] if it.sink_calls else None)
            except peval.Raises as exc:
                outcome = ("raises", exc.name)
            except peval.Undecided as exc:
                undecided += 1
                if undecided <= 3:
                    ctx.undecide("C04.numeric", ecp, f"{kind}({a!r:.20}, {b!r:.20}): {exc}")
                continue
            except peval._Return:
                outcome = ("ok", it.sink_calls[-1] if it.sink_calls else None)
            rows += 1
            desc = f"{kind}({_short(a)}, {_short(b)})"
            if outcome[0] == "raises":
                if op_raises is None:
                    bad.append(f"{desc}: computing the distances raises {outcome[1]} although `{_short(a)} {kind} {_short(b)}` itself evaluates to {expected}")
                else:
                    ctx.ok("C04.numeric", None, f"{desc}: raises like the operator ({op_raises})")
                continue
            call = outcome[1]
            if call is None:
                bad.append(f"{desc}: no distances recorded")
                continue
            _n, args, kwargs = call
            vals = dict(zip(um_params, args))
            vals.update(kwargs)
            dt, df = vals.get("distance_true"), vals.get("distance_false")
            if op_raises is not None:
                # the interpreter raises right after the callback; any recorded pair is moot but must satisfy the recorder's assertions
                good = _num(dt) and _num(df) and dt >= 0 and df >= 0 and ((dt == 0) != (df == 0))
                if not good:
                    bad.append(f"{desc}: recorded (true={dt}, false={df}) violates the recorder's own assertions (AssertionError instead of the operator's {op_raises})")
                else:
                    ctx.ok("C04.numeric", None, f"{desc}: operator raises {op_raises}; recorded pair well-formed")
                continue
            good = _num(dt) and _num(df) and dt >= 0 and df >= 0 and ((dt == 0) != (df == 0)) and ((dt == 0) == expected)
            if good:
                ctx.ok("C04.numeric", None, f"{desc}: true={dt} false={df}, operator -> {expected}")
            else:
                bad.append(f"{desc}: true={dt} false={df} but Python's operator gives {expected}")
    ctx.extra["numeric_partition_rows"] = rows
    ctx.extra["numeric_undecided_rows"] = undecided
    for b in bad[:12]:
        ctx.fail("C04.numeric", ecp, b, stmt="[partition] " + b.split(":")[0])
    if undecided > rows // 4:
        raise AnalysisError(f"C04.numeric: {undecided} of {rows + undecided} partition rows could not be interpreted")

    # exception-match predicate over a small class partition
    eem = _canon(repo, repo.func(TR, "ExecutionTracer.executed_exception_match"))
    eparams = [a.arg for a in eem.args.args]
    EXC_CASES = [(ValueError("x"), ValueError), (ValueError, ValueError), (KeyError("k"), LookupError), (KeyError("k"), (ValueError, KeyError)), (KeyError("k"), (ValueError, OSError)),
                 (ValueError("x"), (TypeError, (ValueError, OSError))), (OSError(), Exception), (KeyboardInterrupt(), Exception), (ZeroDivisionError(), ArithmeticError),
                 (ValueError("x"), _HookedExc), (_HookedExc(), _HookedExc), (ValueError("x"), _VirtualExc), (ValueError("x"), (OSError, _VirtualExc)), (_VirtualExc(), Exception)]
    for err, exc in EXC_CASES:
        et = err if isinstance(err, type) else type(err)
        expected = _handler_matches(et, exc)
        it = peval.Interp(resolver=resolve, identity=("tt.unwrap",), sinks=("self._update_metrics",), native_types=(_HookedExc, _VirtualExc))
        env = {"self": peval.Token("self"), eparams[1]: err, eparams[2]: exc, eparams[3]: 0}
        desc = f"EXC_MATCH({et.__name__}, {_short(exc)})"
        try:
            it.block(eem.body, env, tmod)
        except peval.Raises as e2:
            ctx.fail("C04.numeric", eem, f"{desc}: raises {e2.name} although `except` with this clause simply {'matches' if expected else 'does not match'}", stmt=f"[partition] {desc}")
            continue
        except peval.Undecided as e2:
            ctx.undecide("C04.numeric", eem, f"{desc}: {e2}")
            continue
        rows += 1
        _n, args, kwargs = it.sink_calls[-1]
        vals = dict(zip(um_params, args))
        vals.update(kwargs)
        dt, df = vals.get("distance_true"), vals.get("distance_false")
        good = _num(dt) and _num(df) and ((dt == 0) != (df == 0)) and ((dt == 0) == expected)
        ctx.check("C04.numeric", eem, good, f"{desc}: true={dt} false={df} but the interpreter {'enters' if expected else 'skips'} the handler", what=f"{desc}: true={dt} false={df}", stmt=f"[partition] {desc}")

    # bool predicate over a partition of truth-tested values (incl. objects whose truth value and size disagree)
    ebp = _canon(repo, repo.func(TR, "ExecutionTracer.executed_bool_predicate"))
    bparams = [a.arg for a in ebp.args.args]
    BOOL_CASES = [("True", True), ("False", False), ("0", 0), ("7", 7), ("-3", -3), ("0.0", 0.0), ("2.5", 2.5), ("nan", NAN), ("10**400", BIG), ("''", ""), ("'ab'", "ab"), ("[]", []), ("[1, 2]", [1, 2]),
                  ("None", None), ("object()", object()), ("truthy object of size 0", _TruthyEmpty()), ("falsy object of size 3", _FalsyFull()), ("1+2j", 1 + 2j), ("0j", 0j)]
    for label, val in BOOL_CASES:
        expected = bool(val)
        it = peval.Interp(resolver=resolve, identity=("tt.unwrap",), sinks=("self._update_metrics",), native_types=(_TruthyEmpty, _FalsyFull))
        env = {"self": peval.Token("self"), bparams[1]: val, bparams[2]: 0}
        desc = f"BOOL({label})"
        try:
            it.block(ebp.body, env, tmod)
        except peval.Raises as e2:
            ctx.fail("C04.numeric", ebp, f"{desc}: raises {e2.name} ({e2.detail[:50]}) although the truth test of the module under test simply yields {expected}", stmt=f"[partition] {desc}")
            continue
        except peval.Undecided as e2:
            ctx.undecide("C04.numeric", ebp, f"{desc}: {e2}")
            continue
        rows += 1
        _n, args, kwargs = it.sink_calls[-1]
        vals = dict(zip(um_params, args))
        vals.update(kwargs)
        dt, df = vals.get("distance_true"), vals.get("distance_false")
        good = _num(dt) and _num(df) and dt >= 0 and df >= 0 and ((dt == 0) != (df == 0)) and ((dt == 0) == expected)
        ctx.check("C04.numeric", ebp, good, f"{desc}: true={dt} false={df} but the interpreter takes the {'true' if expected else 'false'} outcome", what=f"{desc}: true={dt} false={df}", stmt=f"[partition] {desc}")


class _GeTrue:
    """Defines only >=, which holds (partial rich-comparison protocol)."""

    def __ge__(self, other):
        return True

    def __repr__(self):
        return "GeTrue()"


class _LeFalse:
    """Defines only <=, which does not hold: `GeTrue() >= LeFalse()` is True, the reflected `LeFalse() <= GeTrue()` is False."""

    def __le__(self, other):
        return False

    def __repr__(self):
        return "LeFalse()"


class _GtTrue:
    def __gt__(self, other):
        return True

    def __repr__(self):
        return "GtTrue()"


class _LtFalse:
    def __lt__(self, other):
        return False

    def __repr__(self):
        return "LtFalse()"


class _StrNeverEqual(str):
    """A str subclass with its own equality (e.g. a secret that refuses comparison)."""

    def __eq__(self, other):
        return False

    def __ne__(self, other):
        return True

    __hash__ = str.__hash__


class _StrNeverLess(str):
    def __lt__(self, other):
        return False

    def __le__(self, other):
        return False


class _ContainsFalse:
    """Membership answered by __contains__ (False) although iteration yields the needle."""

    def __init__(self, items):
        self.items = list(items)

    def __contains__(self, item):
        return False

    def __iter__(self):
        return iter(list(self.items))

    def __repr__(self):
        return f"ContainsFalse({self.items})"


class _IterRaises:
    def __contains__(self, item):
        return False

    def __iter__(self):
        raise RuntimeError("not iterable right now")

    def __repr__(self):
        return "IterRaises()"


class _AlwaysSubclassMeta(type):
    def __subclasscheck__(cls, sub):
        return True


class _HookedExc(Exception, metaclass=_AlwaysSubclassMeta):
    """issubclass(ValueError, _HookedExc) is True through the metaclass hook; `except _HookedExc` does not catch a ValueError."""


import abc as _abc  # noqa: E402


class _VirtualExc(Exception, metaclass=_abc.ABCMeta):
    pass


_VirtualExc.register(ValueError)


def _handler_matches(et, exc) -> bool:
    """The interpreter's rule: identity along the MRO, tuples element-wise."""
    if isinstance(exc, tuple):
        return any(_handler_matches(et, e) for e in exc)
    return any(b is exc for b in et.__mro__)


USER_TYPES = (_GeTrue, _LeFalse, _GtTrue, _LtFalse, _StrNeverEqual, _StrNeverLess, _ContainsFalse, _IterRaises)
USER_ORDER_PAIRS = [(_GeTrue(), _LeFalse()), (_LeFalse(), _GeTrue()), (_GtTrue(), _LtFalse()), (_LtFalse(), _GtTrue()), (_StrNeverEqual("a"), _StrNeverEqual("a")), (_StrNeverEqual("a"), "a"),
                    (_StrNeverLess("a"), "b"), (_StrNeverLess("a"), "a")]
USER_MEMBER_PAIRS = [(1, _ContainsFalse([1])), (1, _ContainsFalse([2])), (1, _IterRaises())]


class _TruthyEmpty:
    """Truth value and size disagree (e.g. an always-truthy result set that is empty)."""

    def __bool__(self):
        return True

    def __len__(self):
        return 0


class _FalsyFull:
    def __bool__(self):
        return False

    def __len__(self):
        return 3


def _in_body(if_node, stmt):
    return any(stmt is x for b in if_node.body for x in ast.walk(b))


def _num(x):
    return isinstance(x, (int, float)) and not isinstance(x, bool) and not (isinstance(x, float) and math.isnan(x))


def _short(v):
    r = repr(v)
    return r if len(r) <= 24 else r[:10] + ".." + r[-8:]


def _sym(op):
    return {ast.Eq: "==", ast.NotEq: "!=", ast.Lt: "<", ast.LtE: "<=", ast.Gt: ">", ast.GtE: ">=", ast.In: "in", ast.NotIn: "not in", ast.Is: "is", ast.IsNot: "is not"}[op]
