"""C34 — ordered sets behave as insertion-ordered sets and sequences.

Decides: (once) every Iterable parameter of the ordered-set API is consumed at
most once per path unless materialised first; (neg) __getitem__ can return for
a negative index; (order) the backing dict and derived sets are built only from
order-preserving constructions; (laws) the classes, interpreted from source, agree with the
insertion-ordered-set semantics for every operation and every kind of operand, observed through
iteration, len, membership, indexing and reversed().  Hash/eq of exotic elements is not decided.
Further clauses (added later): C34.edges: issubset against str / bytes / dict operands counts the elements
they yield; the constructor keeps the elements of a falsy iterable.
"""

from __future__ import annotations

import ast

from sa.engine.cfg import CFG
from sa.engine.dataflow import once_analysis
from sa.engine.index import AnalysisError, norm, own_nodes, parent, qualname

MOD = "pynguin.utils.orderedset"
CLASSES = ("_AbstractOrderedSet", "OrderedSet", "FrozenOrderedSet", "OrderedTypeSet")


def _iterable_params(fn):
    out = []
    a = fn.args
    for arg in [*a.posonlyargs, *a.args, *a.kwonlyargs]:
        if arg.annotation is not None and "Iterable" in norm(arg.annotation):
            out.append((arg.arg, False))
    if a.vararg is not None and a.vararg.annotation is not None and "Iterable" in norm(a.vararg.annotation):
        out.append((a.vararg.arg, True))
    return out


BASE = [3, 1, 2]
UNIVERSE = range(0, 10)


def _laws(ctx, repo) -> None:
    """Interpret the ordered-set classes from source and compare every operation, for every kind of
    operand, with the insertion-ordered-set semantics computed here on plain lists."""
    from sa.engine import peval

    mod = repo.module(MOD)
    cres = peval.repo_class_resolver(repo)

    def fresh():
        return peval.Interp(resolver=peval.repo_resolver(repo), class_resolver=cres, max_steps=400000)

    def mk(it, cname, items):
        return it.instantiate(cname, cres(cname, mod), [list(items)], {})

    # operand kinds: (label, factory(it, cname, self_obj) -> operand, its elements in iteration order)
    def kinds(it, cname, self_obj):
        return [
            ("a list with duplicates", [2, 5, 5, 3, 2], [2, 5, 5, 3, 2]),
            ("a tuple", (7, 1), [7, 1]),
            ("a one-shot generator", (x for x in [2, 6, 6]), [2, 6, 6]),
            ("a one-shot iterator", iter([9, 3, 9]), [9, 3, 9]),
            ("a builtin set", {2, 8}, [2, 8]),
            ("dict keys", {1: "a", 4: "b"}.keys(), [1, 4]),
            ("an ordered set", mk(it, cname, [5, 2, 4]), [5, 2, 4]),
            ("the set itself", self_obj, list(BASE)),
            ("an empty list", [], []),
        ]

    def dedup(xs):
        return list(dict.fromkeys(xs))

    def o_union(base, *others):
        return dedup([*base, *[x for o in others for x in o]])

    def o_inter(base, *others):
        return [x for x in base if all(x in o for o in others)]

    def o_diff(base, *others):
        return [x for x in base if not any(x in o for o in others)]

    def o_sym(base, other):
        return [x for x in base if x not in other] + [x for x in dedup(other) if x not in base]

    def observe(obj):
        """Everything the sequence / set protocol shows of the object."""
        items = list(obj)
        n = len(items)
        out = {"iter": items, "len": len(obj), "in": [u for u in UNIVERSE if u in obj], "index": [], "reversed": list(reversed(obj))}
        for i in range(-n, n):
            out["index"].append(obj[i])
        for bad in (n, -n - 1):
            try:
                obj[bad]
                out["index"].append(("no IndexError", bad))
            except IndexError:
                pass
        return out

    def expected(items):
        n = len(items)
        return {"iter": items, "len": n, "in": [u for u in UNIVERSE if u in items], "index": [items[i] for i in range(-n, n)], "reversed": items[::-1]}

    pure_ops = [("union", o_union, 1), ("__or__", o_union, 1), ("intersection", o_inter, 1), ("__and__", o_inter, 1), ("difference", o_diff, 1), ("symmetric_difference", o_sym, 1), ("__xor__", o_sym, 1)]
    pred_ops = [("issubset", lambda base, o: all(x in o for x in base)), ("issuperset", lambda base, o: all(x in base for x in o))]
    inplace_ops = [("update", o_union), ("difference_update", o_diff), ("intersection_update", o_inter), ("symmetric_difference_update", o_sym)]

    def run(cname, opname, label, body):
        tag = f"[{cname}.{opname}] {label}"
        fn = repo.methods(repo.cls(MOD, cname)).get(opname)
        try:
            problem = body()
        except peval.Undecided as exc:
            ctx.undecide("C34.laws", fn or repo.cls(MOD, cname), f"{tag}: {exc}")
            return
        except peval.Raises as exc:
            problem = f"raises {exc.name} ({exc.detail[:60]})"
        except RuntimeError as exc:  # e.g. dictionary changed size during iteration
            problem = f"raises RuntimeError ({str(exc)[:60]})"
        except RecursionError:
            problem = "does not terminate (recursion)"
        except (IndexError, KeyError, TypeError, ValueError, AttributeError, StopIteration) as exc:  # raised by the interpreted methods through python's protocols
            problem = f"raises {type(exc).__name__} ({str(exc)[:60]})"
        ctx.check("C34.laws", fn or repo.cls(MOD, cname), problem is None, f"{tag}: {problem}: an ordered set must hold what a mathematical set would, in first-insertion order, through iteration, len, membership, indexing (negative indices too) and reversed()", what=tag, stmt=tag)

    for cname in ("OrderedSet", "FrozenOrderedSet"):
        cdef = repo.cls(MOD, cname)
        methods = repo.methods(cdef)
        n_kinds = len(kinds(fresh(), cname, None))
        for k in range(n_kinds):
            for opname, oracle, _ in pure_ops:
                if opname not in methods:
                    continue

                def body(opname=opname, oracle=oracle, k=k):
                    it = fresh()
                    s = mk(it, cname, BASE)
                    label, operand, elems = kinds(it, cname, s)[k]
                    res = s.methods[opname](operand)
                    want = oracle(BASE, elems)
                    got = observe(res)
                    if got != expected(want):
                        return f"yields {got}, expected {expected(want)}"
                    if observe(s) != expected(BASE):
                        return f"changes the receiver to {list(s)}"
                    if getattr(res, "label", None) != cname:
                        return f"returns a {getattr(res, 'label', type(res).__name__)}"
                    return None

                run(cname, opname, kinds(fresh(), cname, None)[k][0], body)
            for opname, oracle in pred_ops:
                def body(opname=opname, oracle=oracle, k=k):
                    it = fresh()
                    s = mk(it, cname, BASE)
                    label, operand, elems = kinds(it, cname, s)[k]
                    got = s.methods[opname](operand)
                    want = oracle(BASE, elems)
                    return None if got is want else f"answers {got!r}, a set would answer {want!r}"

                run(cname, opname, kinds(fresh(), cname, None)[k][0], body)
                # the same with a receiver that is a subset / superset of the operand
                def body2(opname=opname, oracle=oracle, k=k):
                    it = fresh()
                    label, operand, elems = kinds(it, cname, mk(it, cname, BASE))[k]
                    recv_items = dedup(elems)[:1] if opname == "issubset" else dedup([*elems, 0])
                    s = mk(it, cname, recv_items)
                    if label == "the set itself":
                        operand, elems = s, recv_items
                    got = s.methods[opname](operand)
                    want = oracle(recv_items, elems)
                    return None if got is want else f"on {recv_items} answers {got!r}, a set would answer {want!r}"

                run(cname, opname, kinds(fresh(), cname, None)[k][0] + " (related receiver)", body2)
            if cname == "OrderedSet":
                for opname, oracle in inplace_ops:
                    def body(opname=opname, oracle=oracle, k=k):
                        it = fresh()
                        s = mk(it, cname, BASE)
                        s[0], s[-1]  # reads before the change must not be remembered
                        label, operand, elems = kinds(it, cname, s)[k]
                        other_before = list(operand) if label == "an ordered set" else None
                        s.methods[opname](operand)
                        want = oracle(BASE, elems)
                        got = observe(s)
                        if got != expected(want):
                            return f"leaves {got}, expected {expected(want)}"
                        if other_before is not None and list(operand) != other_before:
                            return f"changes its operand to {list(operand)}"
                        return None

                    run(cname, opname, kinds(fresh(), cname, None)[k][0], body)
        # several operands at once
        for opname, oracle in (("union", o_union), ("intersection", o_inter), ("difference", o_diff)):
            def body(opname=opname, oracle=oracle):
                it = fresh()
                s = mk(it, cname, BASE)
                res = s.methods[opname]((x for x in [2, 3, 7]), [3, 8, 2], s)
                want = oracle(BASE, [2, 3, 7], [3, 8, 2], BASE)
                return None if observe(res) == expected(want) else f"yields {observe(res)}, expected {expected(want)}"

            run(cname, opname, "three operands (generator, list, itself)", body)
        if cname == "OrderedSet":
            def body():
                it = fresh()
                s = mk(it, cname, BASE)
                s.methods["difference_update"]((x for x in [3]), s.methods["intersection"]([2]), [])
                return None if observe(s) == expected([1]) else f"leaves {observe(s)}, expected {expected([1])}"

            run(cname, "difference_update", "three operands", body)

            def body():
                it = fresh()
                s = mk(it, cname, BASE)
                s[1]
                s.methods["discard"](1)
                s.methods["add"](7)
                s.methods["add"](3)
                s.methods["discard"](42)
                if observe(s) != expected([3, 2, 7]):
                    return f"after discard(1), add(7), add(3), discard(42): {observe(s)}, expected {expected([3, 2, 7])}"
                s.methods["clear"]()
                return None if observe(s) == expected([]) else f"after clear(): {observe(s)}"

            run(cname, "add", "add / discard / clear between index reads", body)
        else:
            def body():
                it = fresh()
                a, b, c = mk(it, cname, [1, 2]), mk(it, cname, [1, 2]), mk(it, cname, [2, 1])
                if not (a == b) or hash(a) != hash(b):
                    return "equal frozen sets are unequal or hash differently"
                if a == c:
                    return "frozen sets with different order compare equal although iteration order is part of the value"
                return None

            run(cname, "__hash__", "equal sets hash alike", body)
        def body():
            it = fresh()
            a, b = mk(it, cname, [1, 2]), mk(it, cname, [1, 2, 3])
            return None if (a == mk(it, cname, [1, 2])) and not (a == b) and not (b == a) else "__eq__ disagrees with element-wise comparison"

        run(cname, "__eq__", "equality", body)


class _FalsyList(list):
    """An iterable that is falsy although it yields elements (as an array that holds 0 is)."""

    def __bool__(self):
        return False


def _edges(ctx, repo) -> None:
    """Operands whose own protocols differ from 'the elements they yield': a str / bytes (substring `in`), an iterable
    that is falsy but not empty, and None as 'no elements'."""
    from sa.engine import peval

    mod = repo.module(MOD)
    cres = peval.repo_class_resolver(repo)

    def run(tag, body, anchor):
        try:
            problem = body()
        except peval.Undecided as exc:
            ctx.undecide("C34.edges", anchor, f"{tag}: {exc}")
            return
        except peval.Raises as exc:
            problem = f"raises {exc.name} ({exc.detail[:60]})"
        except (TypeError, ValueError) as exc:
            problem = f"raises {type(exc).__name__} ({str(exc)[:60]})"
        ctx.check("C34.edges", anchor, problem is None, f"{tag}: {problem}", what=tag, stmt=tag)

    for cname in ("OrderedSet", "FrozenOrderedSet"):
        sub = repo.methods(repo.cls(MOD, cname)).get("issubset") or repo.cls(MOD, cname)
        ctor = repo.methods(repo.cls(MOD, "_AbstractOrderedSet")).get("__init__") or repo.cls(MOD, cname)
        for base, operand in ((["ab"], "xaby"), ([""], "abc"), ([b"a"], b"abc"), (["a"], "abc"), (["a", "c"], "abc"), ([97], b"abc"), (["ab"], ["x", "ab"]), (["k"], {"k": 1})):
            def body(base=base, operand=operand, cname=cname):
                it = peval.Interp(resolver=peval.repo_resolver(repo), class_resolver=cres, max_steps=100000)
                s = it.instantiate(cname, cres(cname, mod), [list(base)], {})
                got = bool(s.methods["issubset"](operand))
                want = set(base).issubset(operand)
                return None if got == want else f"returns {got}, a set holding {base} answers {want} (only the elements the operand yields count; `in` on a str / bytes is a substring test)"
            run(f"[{cname}.issubset] {base!r} against {operand!r}", body, sub)
        for label, arg, want in (("a falsy iterable that yields 0, 1", _FalsyList([0, 1]), [0, 1]), ("None", None, []), ("an empty tuple", (), []), ("a list holding only 0", [0], [0])):
            def body(arg=arg, want=want, cname=cname):
                it = peval.Interp(resolver=peval.repo_resolver(repo), class_resolver=cres, max_steps=100000, native_types=(_FalsyList,))
                s = it.instantiate(cname, cres(cname, mod), [arg], {})
                got = list(s)
                return None if got == want else f"holds {got}, expected {want}: elements of an iterable that happens to be falsy are lost"
            run(f"[{cname}(...)] built from {label}", body, ctor)


def check(ctx) -> None:
    repo = ctx.repo
    ctx.rule("C34.edges", "ABSINT: issubset against str / bytes / dict operands counts the elements the operand yields (no substring semantics); the constructor keeps the elements of a falsy iterable and treats None as empty", floor=20)
    _edges(ctx, repo)
    ctx.rule("C34.laws", "ABSINT: OrderedSet and FrozenOrderedSet, interpreted from source, agree with the insertion-ordered-set semantics for every operation x operand kind (list with duplicates, tuple, one-shot generator / iterator, builtin set, dict keys, ordered set, the set itself, empty; several operands) through iteration, len, membership, positive and negative indexing and reversed(), before and after in-place changes", floor=110)
    _laws(ctx, repo)
    ctx.rule("C34.once", "ONCE: an Iterable parameter is consumed at most once on every path unless it was materialised (set/tuple/dict.fromkeys/cls) or proven re-iterable (isinstance Collection)", floor=20)
    ctx.rule("C34.neg", "__getitem__ normalises negative indices (or subscripts a materialised sequence) before the position comparison", floor=1)
    ctx.rule("C34.order", "the backing dict `_items` and every derived ordered set are built from order-preserving constructions (dict.fromkeys / comprehension over an ordered source), never from a builtin set", floor=6)

    for cname in CLASSES:
        cdef = repo.cls(MOD, cname)
        for mname, fn in repo.methods(cdef).items():
            # overloads are bodies of `pass`
            if any(norm(d) == "overload" for d in fn.decorator_list):
                continue
            ips = _iterable_params(fn)
            if not ips:
                continue
            ctx.analysed(fn)
            cfg = CFG(fn)
            for pname, is_var in ips:
                if not is_var:
                    worst, where = once_analysis(cfg, pname)
                    ctx.paths += 1
                    stmt = cfg.nodes[where].stmt if where is not None else None
                    ctx.check(
                        "C34.once",
                        stmt if worst >= 2 else fn,
                        worst < 2,
                        f"{cname}.{mname}: Iterable parameter `{pname}` can be consumed more than once on a path "
                        "(a one-shot iterator is exhausted by the first pass)",
                        what=f"{cname}.{mname}({pname}) consumed <= {worst} time(s)",
                        construct=f"{cname}.{mname}",
                        stmt=f"[{pname}] " + (norm(stmt)[:120] if (worst >= 2 and stmt is not None) else ""),
                    )
                else:
                    # elements of *others: loop variables bound over `others`
                    bad = None
                    seen_any = False
                    for n in own_nodes(fn):
                        if isinstance(n, ast.For) and norm(n.iter) == pname and isinstance(n.target, ast.Name):
                            seen_any = True
                            worst, where = once_analysis(cfg, n.target.id, reset_for_over=pname)
                            if worst >= 2:
                                bad = cfg.nodes[where].stmt
                        if isinstance(n, (ast.GeneratorExp, ast.ListComp, ast.SetComp, ast.DictComp)):
                            g0 = n.generators[0]
                            if norm(g0.iter) == pname and isinstance(g0.target, ast.Name):
                                seen_any = True
                                var = g0.target.id
                                cnt = 0
                                parts = [n.elt] if not isinstance(n, ast.DictComp) else [n.key, n.value]
                                parts += g0.ifs
                                for g in n.generators[1:]:
                                    parts += [g.iter, *g.ifs]
                                for p_ in parts:
                                    cnt += sum(1 for x in ast.walk(p_) if isinstance(x, ast.Name) and x.id == var and isinstance(x.ctx, ast.Load))
                                if cnt >= 2:
                                    bad = n
                    ctx.paths += 1
                    ctx.check(
                        "C34.once",
                        bad if bad is not None else fn,
                        bad is None,
                        f"{cname}.{mname}: an element of *{pname} is consumed more than once",
                        what=f"{cname}.{mname}(*{pname}) elements consumed once" + ("" if seen_any else " (passed through)"),
                        construct=f"{cname}.{mname}",
                        stmt=f"[*{pname}] " + (norm(bad)[:120] if bad is not None else ""),
                    )

    # ---------------------------------------------------------------- C34.neg
    gi = None
    for key, fn in repo.module(MOD).functions.items():
        if key.split("#")[0] == "_AbstractOrderedSet.__getitem__" and not any(norm(d) == "overload" for d in fn.decorator_list):
            gi = fn
    if gi is None:
        raise AnalysisError("_AbstractOrderedSet.__getitem__ implementation vanished")
    ctx.analysed(gi)
    idx = gi.args.args[1].arg
    # Abstract evaluation of the index arithmetic over a boundary partition of (size, index):
    # the guards are linear comparisons of `index`, the size and constants, so the representatives
    # {-size-1, -size, -size+1, -1, 0, size-1, size} are decisive for every off-by-one.
    undecided = None
    wrong = []
    n_cases = 0
    for size in (1, 2, 3, 5):
        for index in range(-size - 2, size + 3):
            out = _eval_getitem(gi, idx, size, index)
            n_cases += 1
            if out is None:
                undecided = (size, index)
                break
            want = "return" if -size <= index < size else "raise"
            if out != want:
                wrong.append((size, index, out, want))
        if undecided:
            break
    ctx.extra["getitem_partition_cases"] = n_cases
    if undecided:
        ctx.undecide("C34.neg", gi, f"__getitem__ uses a construct the index evaluator cannot interpret (size={undecided[0]}, index={undecided[1]})")
    else:
        neg = [w for w in wrong if w[1] < 0]
        ctx.check(
            "C34.neg",
            gi,
            not neg,
            "_AbstractOrderedSet.__getitem__ does not return for a valid negative index: "
            + "; ".join(f"len={sz}, index={ix}: {o} (expected {w})" for sz, ix, o, w in neg[:3]),
            what=f"__getitem__ returns for every index in [-len, -1] ({n_cases} boundary cases evaluated)",
            stmt="[negative-index]",
        )
        pos = [w for w in wrong if w[1] >= 0]
        ctx.check(
            "C34.neg",
            gi,
            not pos,
            "_AbstractOrderedSet.__getitem__ mishandles a non-negative index: "
            + "; ".join(f"len={sz}, index={ix}: {o} (expected {w})" for sz, ix, o, w in pos[:3]),
            what="__getitem__ returns for [0, len) and raises beyond",
            stmt="[non-negative-index]",
        )

    # ---------------------------------------------------------------- C34.order
    for cname in CLASSES[:3]:
        cdef = repo.cls(MOD, cname)
        for mname, fn in repo.methods(cdef).items():
            setnames = set()
            for n in own_nodes(fn):
                if isinstance(n, ast.Assign) and isinstance(n.targets[0], ast.Name) and _is_unordered(n.value, setnames):
                    setnames.add(n.targets[0].id)
            for n in own_nodes(fn):
                if isinstance(n, (ast.Assign, ast.AnnAssign)):
                    ts = n.targets if isinstance(n, ast.Assign) else [n.target]
                    if any(norm(t) == "self._items" for t in ts) and n.value is not None:
                        ctx.analysed(fn)
                        ok = _order_preserving(n.value, setnames)
                        ctx.check("C34.order", n, ok, f"{cname}.{mname} rebuilds `_items` from a construction that does not preserve insertion order", what=f"{cname}.{mname}: _items <- ordered construction")
                if isinstance(n, ast.Call) and norm(n.func) in ("cls", "self.__class__", "OrderedSet", "FrozenOrderedSet") and n.args:
                    ctx.analysed(fn)
                    ok = not _is_unordered(n.args[0], setnames)
                    ctx.check("C34.order", n, ok, f"{cname}.{mname} builds an ordered set from an unordered builtin set: iteration order is lost", what=f"{cname}.{mname}: {norm(n)[:60]} from ordered source")
    # iteration goes over the backing dict
    it = repo.func(MOD, "_AbstractOrderedSet.__iter__")
    rets = [n for n in own_nodes(it) if isinstance(n, ast.Return)]
    ok = len(rets) == 1 and norm(rets[0].value) in ("iter(self._items)", "iter(self._items.keys())")
    ctx.check("C34.order", it, ok, "__iter__ does not iterate the insertion-ordered backing dict", what="__iter__ over _items")
    add = repo.func(MOD, "OrderedSet.add")
    ok = any(isinstance(n, ast.Assign) and isinstance(n.targets[0], ast.Subscript) and norm(n.targets[0].value) == "self._items" for n in own_nodes(add))
    ctx.check("C34.order", add, ok, "OrderedSet.add does not insert into the backing dict by key (re-adding must keep the first position)", what="add: _items[value] = None")


class _Undecided(Exception):
    pass


def _eval_getitem(fn, idx, size, index):
    """Evaluate the index arithmetic of __getitem__ for a concrete (size, index): 'return' | 'raise' | None."""
    env = {idx: index}

    def ev(e):
        if isinstance(e, ast.Constant) and isinstance(e.value, (int, bool)):
            return e.value
        if isinstance(e, ast.Name):
            if e.id in env:
                return env[e.id]
            raise _Undecided
        if isinstance(e, ast.Call) and norm(e.func) == "len" and len(e.args) == 1 and norm(e.args[0]) in ("self", "self._items", "self._items.keys()"):
            return size
        if isinstance(e, ast.Call) and norm(e.func) == "isinstance" and norm(e.args[0]) == idx:
            return norm(e.args[1]) in ("int",)
        if isinstance(e, ast.UnaryOp):
            v = ev(e.operand)
            if isinstance(e.op, ast.USub):
                return -v
            if isinstance(e.op, ast.Not):
                return not v
            raise _Undecided
        if isinstance(e, ast.BinOp):
            l, r = ev(e.left), ev(e.right)
            if isinstance(e.op, ast.Add):
                return l + r
            if isinstance(e.op, ast.Sub):
                return l - r
            if isinstance(e.op, ast.Mod) and r != 0:
                return l % r
            raise _Undecided
        if isinstance(e, ast.BoolOp):
            vals = [ev(v) for v in e.values]
            return all(vals) if isinstance(e.op, ast.And) else any(vals)
        if isinstance(e, ast.Compare):
            left = ev(e.left)
            for op, c in zip(e.ops, e.comparators):
                right = ev(c)
                ok = {ast.Lt: left < right, ast.LtE: left <= right, ast.Gt: left > right, ast.GtE: left >= right, ast.Eq: left == right, ast.NotEq: left != right}.get(type(op))
                if ok is None:
                    raise _Undecided
                if not ok:
                    return False
                left = right
            return True
        raise _Undecided

    def run(stmts):
        for s in stmts:
            if (isinstance(s, ast.Expr) and isinstance(s.value, ast.Constant)) or isinstance(s, ast.Pass):
                continue
            if isinstance(s, ast.If):
                r = run(s.body if ev(s.test) else s.orelse)
                if r:
                    return r
            elif isinstance(s, ast.Raise):
                return "raise"
            elif isinstance(s, ast.Assign) and len(s.targets) == 1 and isinstance(s.targets[0], ast.Name):
                env[s.targets[0].id] = ev(s.value)
            elif isinstance(s, ast.AugAssign) and isinstance(s.target, ast.Name) and isinstance(s.op, (ast.Add, ast.Sub)):
                v = ev(s.value)
                env[s.target.id] = env[s.target.id] + v if isinstance(s.op, ast.Add) else env[s.target.id] - v
            elif isinstance(s, ast.For) and isinstance(s.iter, ast.Call) and norm(s.iter.func) == "enumerate" and isinstance(s.target, ast.Tuple):
                # `for i, key in enumerate(<items>): if i == index: return key` -> returns iff 0 <= index < size
                cnt = s.target.elts[0].id
                for i in range(size):
                    env[cnt] = i
                    r = run(s.body)
                    if r:
                        return r
            elif isinstance(s, ast.Return):
                v = s.value
                if isinstance(v, ast.Name):
                    return "return"
                if isinstance(v, ast.Subscript) and isinstance(v.value, ast.Call) and norm(v.value.func) in ("tuple", "list"):
                    k = ev(v.slice)
                    return "return" if -size <= k < size else "raise"
                if isinstance(v, ast.Call) and norm(v.func) == "next" and v.args and isinstance(v.args[0], ast.Call) and norm(v.args[0].func).endswith("islice"):
                    k = ev(v.args[0].args[1])
                    # islice rejects negative start; next() on an exhausted slice raises StopIteration
                    return "return" if 0 <= k < size else "raise"
                raise _Undecided
            else:
                raise _Undecided
        return None

    try:
        body = [s for s in fn.body]
        # the isinstance(index, slice) arm is irrelevant for ints
        r = run(body)
        return r or "raise"
    except (_Undecided, KeyError, TypeError):
        return None


def _anc(n):
    p = parent(n)
    while p is not None:
        yield p
        p = parent(p)


def _is_unordered(e, setnames) -> bool:
    if isinstance(e, ast.Call):
        f = norm(e.func)
        if f in ("set", "frozenset", "set.union", "set.intersection", "set.difference") or f.startswith("set."):
            return True
        if f == "cast" and len(e.args) == 2:
            return _is_unordered(e.args[1], setnames)
    if isinstance(e, (ast.SetComp, ast.Set)):
        return True
    if isinstance(e, ast.Name) and e.id in setnames:
        return True
    if isinstance(e, ast.BinOp) and isinstance(e.op, (ast.BitOr, ast.BitAnd, ast.Sub, ast.BitXor)):
        return _is_unordered(e.left, setnames) or _is_unordered(e.right, setnames)
    return False


def _order_preserving(v, setnames) -> bool:
    if isinstance(v, ast.Call) and norm(v.func) == "dict.fromkeys" and v.args:
        a = v.args[0]
        if isinstance(a, ast.BoolOp):
            return all(not _is_unordered(x, setnames) for x in a.values)
        return not _is_unordered(a, setnames)
    if isinstance(v, ast.DictComp):
        src = v.generators[0].iter
        return not _is_unordered(src, setnames)
    if isinstance(v, ast.Dict) and not v.keys:
        return True
    if isinstance(v, ast.Call) and norm(v.func) == "dict" and not v.args:
        return True
    return False
