"""C34 — ordered sets behave as insertion-ordered sets and sequences.

Decides: (once) every Iterable parameter of the ordered-set API is consumed at
most once per path unless materialised first; (neg) __getitem__ can return for
a negative index; (order) the backing dict and derived sets are built only from
order-preserving constructions.  Element equality/hash semantics are not decided.
"""

from __future__ import annotations

import ast

from sa.engine.cfg import CFG
from sa.engine.dataflow import once_analysis
from sa.engine.index import AnalysisError, norm, own_nodes, parent, qualname

MOD = "pynguin.utils.orderedset"
CLASSES = ("_AbstractOrderedSet", "OrderedSet", "FrozenOrderedSet", "OrderedTypeSet")


def _iterable_params(fn):
    out = []
    a = fn.args
    for arg in [*a.posonlyargs, *a.args, *a.kwonlyargs]:
        if arg.annotation is not None and "Iterable" in norm(arg.annotation):
            out.append((arg.arg, False))
    if a.vararg is not None and a.vararg.annotation is not None and "Iterable" in norm(a.vararg.annotation):
        out.append((a.vararg.arg, True))
    return out


def check(ctx) -> None:
    repo = ctx.repo
    ctx.rule("C34.once", "ONCE: an Iterable parameter is consumed at most once on every path unless it was materialised (set/tuple/dict.fromkeys/cls) or proven re-iterable (isinstance Collection)", floor=20)
    ctx.rule("C34.neg", "__getitem__ normalises negative indices (or subscripts a materialised sequence) before the position comparison", floor=1)
    ctx.rule("C34.order", "the backing dict `_items` and every derived ordered set are built from order-preserving constructions (dict.fromkeys / comprehension over an ordered source), never from a builtin set", floor=6)

    for cname in CLASSES:
        cdef = repo.cls(MOD, cname)
        for mname, fn in repo.methods(cdef).items():
            # overloads are bodies of `pass`
            if any(norm(d) == "overload" for d in fn.decorator_list):
                continue
            ips = _iterable_params(fn)
            if not ips:
                continue
            ctx.analysed(fn)
            cfg = CFG(fn)
            for pname, is_var in ips:
                if not is_var:
                    worst, where = once_analysis(cfg, pname)
                    ctx.paths += 1
                    stmt = cfg.nodes[where].stmt if where is not None else None
                    ctx.check(
                        "C34.once",
                        stmt if worst >= 2 else fn,
                        worst < 2,
                        f"{cname}.{mname}: Iterable parameter `{pname}` can be consumed more than once on a path "
                        "(a one-shot iterator is exhausted by the first pass)",
                        what=f"{cname}.{mname}({pname}) consumed <= {worst} time(s)",
                        construct=f"{cname}.{mname}",
                        stmt=f"[{pname}] " + (norm(stmt)[:120] if (worst >= 2 and stmt is not None) else ""),
                    )
                else:
                    # elements of *others: loop variables bound over `others`
                    bad = None
                    seen_any = False
                    for n in own_nodes(fn):
                        if isinstance(n, ast.For) and norm(n.iter) == pname and isinstance(n.target, ast.Name):
                            seen_any = True
                            worst, where = once_analysis(cfg, n.target.id, reset_for_over=pname)
                            if worst >= 2:
                                bad = cfg.nodes[where].stmt
                        if isinstance(n, (ast.GeneratorExp, ast.ListComp, ast.SetComp, ast.DictComp)):
                            g0 = n.generators[0]
                            if norm(g0.iter) == pname and isinstance(g0.target, ast.Name):
                                seen_any = True
                                var = g0.target.id
                                cnt = 0
                                parts = [n.elt] if not isinstance(n, ast.DictComp) else [n.key, n.value]
                                parts += g0.ifs
                                for g in n.generators[1:]:
                                    parts += [g.iter, *g.ifs]
                                for p_ in parts:
                                    cnt += sum(1 for x in ast.walk(p_) if isinstance(x, ast.Name) and x.id == var and isinstance(x.ctx, ast.Load))
                                if cnt >= 2:
                                    bad = n
                    ctx.paths += 1
                    ctx.check(
                        "C34.once",
                        bad if bad is not None else fn,
                        bad is None,
                        f"{cname}.{mname}: an element of *{pname} is consumed more than once",
                        what=f"{cname}.{mname}(*{pname}) elements consumed once" + ("" if seen_any else " (passed through)"),
                        construct=f"{cname}.{mname}",
                        stmt=f"[*{pname}] " + (norm(bad)[:120] if bad is not None else ""),
                    )

    # ---------------------------------------------------------------- C34.neg
    gi = None
    for key, fn in repo.module(MOD).functions.items():
        if key.split("#")[0] == "_AbstractOrderedSet.__getitem__" and not any(norm(d) == "overload" for d in fn.decorator_list):
            gi = fn
    if gi is None:
        raise AnalysisError("_AbstractOrderedSet.__getitem__ implementation vanished")
    ctx.analysed(gi)
    idx = gi.args.args[1].arg
    # Abstract evaluation of the index arithmetic over a boundary partition of (size, index):
    # the guards are linear comparisons of `index`, the size and constants, so the representatives
    # {-size-1, -size, -size+1, -1, 0, size-1, size} are decisive for every off-by-one.
    undecided = None
    wrong = []
    n_cases = 0
    for size in (1, 2, 3, 5):
        for index in range(-size - 2, size + 3):
            out = _eval_getitem(gi, idx, size, index)
            n_cases += 1
            if out is None:
                undecided = (size, index)
                break
            want = "return" if -size <= index < size else "raise"
            if out != want:
                wrong.append((size, index, out, want))
        if undecided:
            break
    ctx.extra["getitem_partition_cases"] = n_cases
    if undecided:
        ctx.undecide("C34.neg", gi, f"__getitem__ uses a construct the index evaluator cannot interpret (size={undecided[0]}, index={undecided[1]})")
    else:
        neg = [w for w in wrong if w[1] < 0]
        ctx.check(
            "C34.neg",
            gi,
            not neg,
            "_AbstractOrderedSet.__getitem__ does not return for a valid negative index: "
            + "; ".join(f"len={sz}, index={ix}: {o} (expected {w})" for sz, ix, o, w in neg[:3]),
            what=f"__getitem__ returns for every index in [-len, -1] ({n_cases} boundary cases evaluated)",
            stmt="[negative-index]",
        )
        pos = [w for w in wrong if w[1] >= 0]
        ctx.check(
            "C34.neg",
            gi,
            not pos,
            "_AbstractOrderedSet.__getitem__ mishandles a non-negative index: "
            + "; ".join(f"len={sz}, index={ix}: {o} (expected {w})" for sz, ix, o, w in pos[:3]),
            what="__getitem__ returns for [0, len) and raises beyond",
            stmt="[non-negative-index]",
        )

    # ---------------------------------------------------------------- C34.order
    for cname in CLASSES[:3]:
        cdef = repo.cls(MOD, cname)
        for mname, fn in repo.methods(cdef).items():
            setnames = set()
            for n in own_nodes(fn):
                if isinstance(n, ast.Assign) and isinstance(n.targets[0], ast.Name) and _is_unordered(n.value, setnames):
                    setnames.add(n.targets[0].id)
            for n in own_nodes(fn):
                if isinstance(n, (ast.Assign, ast.AnnAssign)):
                    ts = n.targets if isinstance(n, ast.Assign) else [n.target]
                    if any(norm(t) == "self._items" for t in ts) and n.value is not None:
                        ctx.analysed(fn)
                        ok = _order_preserving(n.value, setnames)
                        ctx.check("C34.order", n, ok, f"{cname}.{mname} rebuilds `_items` from a construction that does not preserve insertion order", what=f"{cname}.{mname}: _items <- ordered construction")
                if isinstance(n, ast.Call) and norm(n.func) in ("cls", "self.__class__", "OrderedSet", "FrozenOrderedSet") and n.args:
                    ctx.analysed(fn)
                    ok = not _is_unordered(n.args[0], setnames)
                    ctx.check("C34.order", n, ok, f"{cname}.{mname} builds an ordered set from an unordered builtin set: iteration order is lost", what=f"{cname}.{mname}: {norm(n)[:60]} from ordered source")
    # iteration goes over the backing dict
    it = repo.func(MOD, "_AbstractOrderedSet.__iter__")
    rets = [n for n in own_nodes(it) if isinstance(n, ast.Return)]
    ok = len(rets) == 1 and norm(rets[0].value) in ("iter(self._items)", "iter(self._items.keys())")
    ctx.check("C34.order", it, ok, "__iter__ does not iterate the insertion-ordered backing dict", what="__iter__ over _items")
    add = repo.func(MOD, "OrderedSet.add")
    ok = any(isinstance(n, ast.Assign) and isinstance(n.targets[0], ast.Subscript) and norm(n.targets[0].value) == "self._items" for n in own_nodes(add))
    ctx.check("C34.order", add, ok, "OrderedSet.add does not insert into the backing dict by key (re-adding must keep the first position)", what="add: _items[value] = None")


class _Undecided(Exception):
    pass


def _eval_getitem(fn, idx, size, index):
    """Evaluate the index arithmetic of __getitem__ for a concrete (size, index): 'return' | 'raise' | None."""
    env = {idx: index}

    def ev(e):
        if isinstance(e, ast.Constant) and isinstance(e.value, (int, bool)):
            return e.value
        if isinstance(e, ast.Name):
            if e.id in env:
                return env[e.id]
            raise _Undecided
        if isinstance(e, ast.Call) and norm(e.func) == "len" and len(e.args) == 1 and norm(e.args[0]) in ("self", "self._items", "self._items.keys()"):
            return size
        if isinstance(e, ast.Call) and norm(e.func) == "isinstance" and norm(e.args[0]) == idx:
            return norm(e.args[1]) in ("int",)
        if isinstance(e, ast.UnaryOp):
            v = ev(e.operand)
            if isinstance(e.op, ast.USub):
                return -v
            if isinstance(e.op, ast.Not):
                return not v
            raise _Undecided
        if isinstance(e, ast.BinOp):
            l, r = ev(e.left), ev(e.right)
            if isinstance(e.op, ast.Add):
                return l + r
            if isinstance(e.op, ast.Sub):
                return l - r
            if isinstance(e.op, ast.Mod) and r != 0:
                return l % r
            raise _Undecided
        if isinstance(e, ast.BoolOp):
            vals = [ev(v) for v in e.values]
            return all(vals) if isinstance(e.op, ast.And) else any(vals)
        if isinstance(e, ast.Compare):
            left = ev(e.left)
            for op, c in zip(e.ops, e.comparators):
                right = ev(c)
                ok = {ast.Lt: left < right, ast.LtE: left <= right, ast.Gt: left > right, ast.GtE: left >= right, ast.Eq: left == right, ast.NotEq: left != right}.get(type(op))
                if ok is None:
                    raise _Undecided
                if not ok:
                    return False
                left = right
            return True
        raise _Undecided

    def run(stmts):
        for s in stmts:
            if (isinstance(s, ast.Expr) and isinstance(s.value, ast.Constant)) or isinstance(s, ast.Pass):
                continue
            if isinstance(s, ast.If):
                r = run(s.body if ev(s.test) else s.orelse)
                if r:
                    return r
            elif isinstance(s, ast.Raise):
                return "raise"
            elif isinstance(s, ast.Assign) and len(s.targets) == 1 and isinstance(s.targets[0], ast.Name):
                env[s.targets[0].id] = ev(s.value)
            elif isinstance(s, ast.AugAssign) and isinstance(s.target, ast.Name) and isinstance(s.op, (ast.Add, ast.Sub)):
                v = ev(s.value)
                env[s.target.id] = env[s.target.id] + v if isinstance(s.op, ast.Add) else env[s.target.id] - v
            elif isinstance(s, ast.For) and isinstance(s.iter, ast.Call) and norm(s.iter.func) == "enumerate" and isinstance(s.target, ast.Tuple):
                # `for i, key in enumerate(<items>): if i == index: return key` -> returns iff 0 <= index < size
                cnt = s.target.elts[0].id
                for i in range(size):
                    env[cnt] = i
                    r = run(s.body)
                    if r:
                        return r
            elif isinstance(s, ast.Return):
                v = s.value
                if isinstance(v, ast.Name):
                    return "return"
                if isinstance(v, ast.Subscript) and isinstance(v.value, ast.Call) and norm(v.value.func) in ("tuple", "list"):
                    k = ev(v.slice)
                    return "return" if -size <= k < size else "raise"
                if isinstance(v, ast.Call) and norm(v.func) == "next" and v.args and isinstance(v.args[0], ast.Call) and norm(v.args[0].func).endswith("islice"):
                    k = ev(v.args[0].args[1])
                    # islice rejects negative start; next() on an exhausted slice raises StopIteration
                    return "return" if 0 <= k < size else "raise"
                raise _Undecided
            else:
                raise _Undecided
        return None

    try:
        body = [s for s in fn.body]
        # the isinstance(index, slice) arm is irrelevant for ints
        r = run(body)
        return r or "raise"
    except (_Undecided, KeyError, TypeError):
        return None


def _anc(n):
    p = parent(n)
    while p is not None:
        yield p
        p = parent(p)


def _is_unordered(e, setnames) -> bool:
    if isinstance(e, ast.Call):
        f = norm(e.func)
        if f in ("set", "frozenset", "set.union", "set.intersection", "set.difference") or f.startswith("set."):
            return True
        if f == "cast" and len(e.args) == 2:
            return _is_unordered(e.args[1], setnames)
    if isinstance(e, (ast.SetComp, ast.Set)):
        return True
    if isinstance(e, ast.Name) and e.id in setnames:
        return True
    if isinstance(e, ast.BinOp) and isinstance(e.op, (ast.BitOr, ast.BitAnd, ast.Sub, ast.BitXor)):
        return _is_unordered(e.left, setnames) or _is_unordered(e.right, setnames)
    return False


def _order_preserving(v, setnames) -> bool:
    if isinstance(v, ast.Call) and norm(v.func) == "dict.fromkeys" and v.args:
        a = v.args[0]
        if isinstance(a, ast.BoolOp):
            return all(not _is_unordered(x, setnames) for x in a.values)
        return not _is_unordered(a, setnames)
    if isinstance(v, ast.DictComp):
        src = v.generators[0].iter
        return not _is_unordered(src, setnames)
    if isinstance(v, ast.Dict) and not v.keys:
        return True
    if isinstance(v, ast.Call) and norm(v.func) == "dict" and not v.args:
        return True
    return False
