"""C23 — literal values round-trip through generated source.

Decides, by interpreting literal_to_cst / parse_literal (and the ML twin ml_value_to_cst) with the
checker's own evaluator over a partition of values (libcst constructors symbolic, token rules of
libcst re-implemented), that every rendered literal is a valid token sequence which evaluates to
the same value - sign of zero, infinities, NaN, negative numbers, bool vs int, arbitrary
str / bytes, nested collections - and that parse_literal is the inverse of literal_to_cst on it.
Plus table clauses: generate / mutate / parse / render dispatch over the same primitive types,
bool before int, renderers are not memoised (equal values of different type or sign share a hash).
generate_literal is interpreted for every requested type under size-0 / 1 / default configurations and
scripted extreme draws (type and size of the result, no exception); mutation draws are not decided.
Further clauses (added later): C23.parse also reads hexadecimal / octal / binary / underscored int spellings
and interprets the write half set_literal_value over the value partition; C23.escape: no read of a string
node's raw_value where its value is needed; a tuple written without parentheses stays a valid literal when
mutation empties it.
"""

from __future__ import annotations

import ast
import math

from sa.checks.c20 import same
from sa.engine import cstterm, peval
from sa.engine.index import AnalysisError, decorator_names, last_attr, norm, own_nodes

LG = "pynguin.testcase.literalgen"
ML = "pynguin.utils.pynguinml.ndarray_cst"

NAN = float("nan")
FLOATS = [0.0, -0.0, 1.5, -1.5, 5.0, -5.0, 5e-324, -5e-324, 1e-7, 1.7976931348623157e308, 1e16, 1e22, float(2**63), 0.1 + 0.2, math.inf, -math.inf, NAN]
PRIMS = [True, False, 0, 1, -1, 7, -7, 10**30, -(10**30), 10**5000, -(10**5000), "", "it's \"q\"\n\\", "\x00é", b"", b"\x00\xff'\"", complex(1, 2), complex(-0.0, 2.0), complex(math.inf, -0.0), complex(NAN, -1.5), complex(-1.5, -math.inf)]
COLLS = [[], [1, -2.5, "a"], (), (1,), (True, 0), set(), {1, 2}, {"k": [1, (-0.0,)], 2: b"x"}, [[-0.0], (math.inf,)], [1, 1.0, True]]


def _short(v):
    try:
        r = repr(v)
    except ValueError:  # an int with more digits than repr() converts
        r = f"<int of {v.bit_length()} bits>"
    return r if len(r) <= 40 else r[:24] + ".." + r[-10:]


def _cached(fn) -> bool:
    return any("cache" in d for d in decorator_names(fn))


def _ml_mutation(ctx, repo) -> None:
    """MLTestFactory._mutated_ml_expr interpreted for tuple- and list-structured ndarray payloads and the
    scalar kinds (the numeric mutation itself stubbed): the mutated literal evaluates to a value of the
    structure the statement is bound to."""
    import types as _types

    TF = "pynguin.testcase.testfactory"
    fn = repo.try_func(TF, "MLTestFactory._mutated_ml_expr")
    if fn is None or not repo.has_module(ML):
        raise AnalysisError("anchor vanished: MLTestFactory._mutated_ml_expr / ndarray_cst")
    ctx.analysed(fn)
    mlmod = repo.module(ML)
    render = repo.func(ML, "ml_value_to_cst")
    cases = [
        ("tuple payload, ndim 1", dict(kind="ndarray", is_tuple=True), (1, 2, 3), [1, 1, 7], tuple),
        ("list payload, ndim 1", dict(kind="ndarray", is_tuple=False), [1, 2, 3], [4, 2, 3], list),
        ("nested list payload", dict(kind="ndarray", is_tuple=False), [[1.5, 2.0], [0.0, -1.0]], [[1.5, 2.0], [0.0, 3.5]], list),
        ("scalar", dict(kind="ml_scalar"), 3, 5, int),
        ("allowed value", dict(kind="allowed_values", allowed_values=["same", "valid"]), "same", "valid", str),
    ]
    for label, kw, old, mutated, want_type in cases:
        info = _types.SimpleNamespace(**{"kind": None, "dtype": "int32", "low": 0, "high": 9, "is_tuple": False, "allowed_values": None, **kw})
        it = peval.Interp(resolver=peval.repo_resolver(repo), ctor_prefixes=("cst.",), max_steps=400000, native_types=(_types.SimpleNamespace,),
                          externs={"ndarray_cst.ml_cst_to_value": lambda _e, _o=old: _o, "ndarray_mutation.mutate_ndarray": lambda *_a, _m=mutated: (list(_m), True), "ndarray_mutation.replacement_value": lambda *_a, _m=mutated: _m,
                                   "randomness.choice": lambda seq: list(seq)[-1],
                                   "ndarray_cst.ml_value_to_cst": lambda v: peval.Interp(resolver=peval.repo_resolver(repo), ctor_prefixes=("cst.",), max_steps=400000).run_function(render, [v], {}, mlmod)})
        tag = f"[ml {label}]"
        try:
            term = it.run_function(fn, [info, peval.Term("cst.Name", ["old"], {})], {}, repo.module(TF))
            if term is None:
                ctx.fail("C23.ml-mutate", fn, f"{tag}: no mutated expression although the mutation reported a change", stmt=tag)
                continue
            text = cstterm.render(term)
            back = cstterm.safe_eval(text, {})
        except peval.Undecided as exc:
            ctx.undecide("C23.ml-mutate", fn, f"{tag}: {exc}")
            continue
        except (peval.Raises, cstterm.Invalid) as exc:
            ctx.fail("C23.ml-mutate", fn, f"{tag}: {type(exc).__name__} {exc}", stmt=tag)
            continue
        except Exception as exc:  # noqa: BLE001
            ctx.fail("C23.ml-mutate", fn, f"{tag}: the mutated text does not evaluate: {type(exc).__name__}: {str(exc)[:60]}", stmt=tag)
            continue
        want_val = tuple(mutated) if want_type is tuple else mutated
        ctx.check("C23.ml-mutate", fn, type(back) is want_type and back == want_val, f"{tag}: the mutated literal `{text[:50]}` evaluates to {_short(back)} ({type(back).__name__}); the statement is bound to a {want_type.__name__} and the mutation produced {want_val!r}: the literal no longer evaluates to a value of the requested collection type", what=f"{tag} -> `{text[:40]}`", stmt=tag)


def _generation(ctx, repo) -> None:
    """generate_literal interpreted for every requested type under a grid of configurations (sizes 0 / 1 /
    default) and scripted random draws (lowest, highest, seeded): the literal is produced without an
    exception, is a valid token sequence and evaluates to a value of the requested type."""
    import types as _types

    mod = repo.module(LG)
    gen = repo.func(LG, "generate_literal")
    ctx.analysed(gen)
    resolver = peval.repo_resolver(repo)
    configs = {"all sizes 0": (0, 0, 0, 0), "all sizes 1": (1, 1, 1, 1), "defaults": (5, 20, 20, 2048)}
    seeded_values = {int: -7, float: -0.0, complex: complex(-0.0, math.inf), str: "it's", bytes: b"\x00'"}

    class Provider:
        def __init__(self, seeded):
            self.seeded = seeded

        def get_constant_for(self, typ):
            return seeded_values.get(typ) if self.seeded else None

        def get_all_constants_for(self, typ):
            return [seeded_values[typ], "k=v", "a;b"] if self.seeded and typ is str else [seeded_values[typ]] if self.seeded and typ in seeded_values else []

    def script(kind):
        state = {"n": 0}

        def tick():
            state["n"] += 1
            return state["n"]

        def next_int(lo=-100, hi=100):
            if not lo < hi:
                raise peval.Raises("ValueError", f"empty range in randrange({lo}, {hi})")
            return {"lowest": lo, "highest": hi - 1, "seeded": (lo + hi - 1) // 2}[kind]

        return {
            "randomness.next_bool": lambda: {"lowest": False, "highest": False, "seeded": tick() % 2 == 0}[kind],
            "randomness.next_float": lambda: {"lowest": 0.999, "highest": 0.5, "seeded": 0.0}[kind],
            "randomness.next_int": next_int,
            "randomness.next_gaussian": lambda: {"lowest": -2.5, "highest": 2.5, "seeded": 0.0}[kind],
            "randomness.next_string": lambda n: ("'\\\"\n" * n)[:n],
            "randomness.next_bytes": lambda n: (b"\x00'\xff" * n)[:n],
            "randomness.next_char": lambda: "'",
            "randomness.choice": lambda seq: list(seq)[0 if kind == "lowest" else -1],
        }

    for cname, (coll, strlen, byteslen, max_int) in configs.items():
        cfg = _types.SimpleNamespace(
            test_creation=_types.SimpleNamespace(collection_size=coll, string_length=strlen, bytes_length=byteslen, max_int=max_int, max_delta=20, collection_reference_probability=0.5),
            seeding=_types.SimpleNamespace(seeded_primitives_reuse_probability=0.2),
            string_statement=_types.SimpleNamespace(token_assembly_probability=0.1, max_assembled_tokens=3),
            search_algorithm=_types.SimpleNamespace(random_perturbation=0.2),
        )
        for kind in ("lowest", "highest", "seeded"):
            for raw in (bool, int, float, complex, str, bytes, list, set, tuple, dict, None):
                label = f"[{cname}; {kind} draws] {raw.__name__ if raw else None}"
                it = peval.Interp(resolver=resolver, ctor_prefixes=("cst.",), max_steps=400000, externs=script(kind), consts={"config.configuration": cfg}, native_types=(_types.SimpleNamespace, Provider))
                try:
                    term = it.run_function(gen, [raw, Provider(kind == "seeded")], {}, mod)
                    text = cstterm.render(term)
                    back = cstterm.safe_eval(text, {})
                except peval.Undecided as exc:
                    ctx.undecide("C23.generate", gen, f"{label}: {exc}")
                    continue
                except peval.Raises as exc:
                    ctx.fail("C23.generate", gen, f"{label}: generate_literal raises {exc.name} ({exc.detail[:70]}): a legal configuration makes literal generation fail", stmt=label)
                    continue
                except cstterm.Invalid as exc:
                    ctx.fail("C23.generate", gen, f"{label}: invalid token - {exc}", stmt=label)
                    continue
                except Exception as exc:  # noqa: BLE001
                    ctx.fail("C23.generate", gen, f"{label}: the generated text does not evaluate: {type(exc).__name__}: {str(exc)[:60]}", stmt=label)
                    continue
                ok = back is None if raw is None else type(back) is raw
                within = True
                if raw in (list, set, tuple) and ok:
                    within = len(back) <= max(coll, 0) or len(back) == 0
                if raw is str and ok and kind != "seeded":
                    within = len(back) <= max(strlen - 1, 0)
                ctx.check("C23.generate", gen, ok and within, f"{label}: generated `{text[:60]}` evaluates to {_short(back)} ({type(back).__name__})" + ("" if ok else f", not a {raw.__name__ if raw else None}") + ("" if within else ", larger than the configured maximum"), what=f"{label} -> `{text[:40]}`", stmt=label)


def check(ctx) -> None:
    repo = ctx.repo
    ctx.rule("C23.hashable", "ABSINT + WHO-MAY: the reference pool offers only hashable bindings as elements of a set; every caller states the collection type", floor=7)
    _hashable_elements(ctx, repo)
    ctx.rule("C23.escape", "WHO-MAY: no read of a libcst string node's raw_value (escape sequences unprocessed) where the value of a literal is needed; expected count zero, detector self-checked on a synthetic positive", floor=1)
    from sa.engine.prop import raw_string_value_reads, raw_string_value_selfcheck
    if not raw_string_value_selfcheck():
        raise AnalysisError("C23.escape: the raw_value detector does not match its own positive example")
    ctx.ok("C23.escape", None, "detector matches the synthetic positive example")
    for _mod, _n in raw_string_value_reads(ctx.repo, ("pynguin.testcase.literalgen", "pynguin.testcase.localsearchstatement", "pynguin.testcase.localsearch", "pynguin.utils.pynguinml", "pynguin.testcase.testfactory")):
        ctx.fail("C23.escape", _n, f"{_mod.name}: `{norm(_n)}` reads the source text between the quotes, escape sequences unprocessed, as the value of a string literal: mutation / local search would work on the escaped source text: one mutation of 'a\\nb' changes several characters of the value, the damage compounds", stmt=f"[raw_value] {norm(_n)}")
    ctx.rule("C23.ml-mutate", "ABSINT: MLTestFactory._mutated_ml_expr for tuple / list / nested ndarray payloads, scalars and allowed values (numeric mutation stubbed) renders a literal that evaluates to the mutated value in the structure the statement is bound to", floor=5)
    _ml_mutation(ctx, repo)
    ctx.rule("C23.generate", "ABSINT: generate_literal for every requested type under configurations with sizes 0 / 1 / default and scripted draws (lowest, highest, seeded) yields, without raising, valid tokens that evaluate to a value of the requested type within the configured maximum size", floor=90)
    _generation(ctx, repo)
    ctx.rule("C23.render", "ABSINT: literal_to_cst over the value partition: valid tokens, rendered text evaluates to the same value (type, sign of zero, inf, nan)", floor=40)
    ctx.rule("C23.parse", "ABSINT: parse_literal(literal_to_cst(v), type(v)) is v for every primitive representative (the parser accepts exactly the shapes the renderer emits); hexadecimal / octal / binary / underscored int spellings are read as Python reads them", floor=40)
    ctx.rule("C23.ml-twin", "sibling renderer ml_value_to_cst agrees on the same float/int partition", floor=20)
    ctx.rule("C23.tables", "generate_literal, _dispatch_mutate, parse_literal and literal_to_cst cover the same primitive types; bool is tested before int", floor=8)
    ctx.rule("C23.uncached", "no value renderer is memoised (0.0 / -0.0, 1 / 1.0 / True / (1+0j) are equal and hash alike: a cache would return the node of another value)", floor=4)

    mod = repo.module(LG)
    resolver = peval.repo_resolver(repo)
    l2c = repo.func(LG, "literal_to_cst")
    pl = repo.func(LG, "parse_literal")
    ctx.analysed(l2c)
    ctx.analysed(pl)

    def interp():
        return peval.Interp(resolver=resolver, ctor_prefixes=("cst.",), max_steps=400000)

    def render(fn, fmod, value):
        return interp().run_function(fn, [value], {}, fmod)

    def judge_render(rule, fn, fmod, value, label):
        try:
            term = render(fn, fmod, value)
            text = cstterm.render(term)
            back = cstterm.safe_eval(text, {})
        except peval.Undecided as exc:
            ctx.undecide(rule, fn, f"{label}: {exc}")
            return None
        except cstterm.Invalid as exc:
            ctx.fail(rule, fn, f"{label}: invalid token - {exc}", stmt=f"[partition] {label}")
            return None
        except peval.Raises as exc:
            ctx.fail(rule, fn, f"{label}: rendering raises {exc.name} {exc.detail[:60]}", stmt=f"[partition] {label}")
            return None
        except Exception as exc:  # noqa: BLE001
            ctx.fail(rule, fn, f"{label}: rendered text does not evaluate: {type(exc).__name__}: {str(exc)[:60]}", stmt=f"[partition] {label}")
            return None
        ok = same(value, back)
        ctx.check(rule, fn, ok, f"{label}: renders as `{text}` which evaluates to {_short(back)}", what=f"{label} -> `{text[:50]}`", stmt=f"[partition] {label}")
        return term

    for v in [*FLOATS, *PRIMS, *COLLS]:
        term = judge_render("C23.render", l2c, mod, v, f"{type(v).__name__} {_short(v)}")
        if term is None or isinstance(v, (list, tuple, set, dict)):
            continue
        # parse side: the parser is handed the very term the renderer produced
        label = f"{type(v).__name__} {_short(v)}"
        try:
            parsed = interp().run_function(pl, [term, type(v)], {}, mod)
        except peval.Undecided as exc:
            ctx.undecide("C23.parse", pl, f"{label}: {exc}")
            continue
        except peval.Raises as exc:
            ctx.fail("C23.parse", pl, f"{label}: parsing its own rendering raises {exc.name}", stmt=f"[partition] {label}")
            continue
        ctx.check("C23.parse", pl, parsed is not None and same(v, parsed), f"{label}: rendered as `{cstterm.render(term)}` but parse_literal returns {_short(parsed)}: rendering and parsing back is not the identity", what=f"{label} parses back", stmt=f"[partition] {label}")

    # int literals as a seeded (hand-written or earlier exported) test may spell them: the parser must read what Python reads
    for text in ("0xFF", "0o755", "0b101", "1_000", "0XAB", "00", "12"):
        for neg in (False, True):
            tok = peval.Term("cst.Integer", [], {"value": text})
            term = peval.Term("cst.UnaryOperation", [], {"operator": peval.Term("cst.Minus", [], {}), "expression": tok}) if neg else tok
            label = f"int literal `{'-' if neg else ''}{text}`"
            want = -int(text, 0) if neg else int(text, 0)
            try:
                parsed = interp().run_function(pl, [term, int], {}, mod)
            except peval.Undecided as exc:
                ctx.undecide("C23.parse", pl, f"{label}: {exc}")
                continue
            except peval.Raises as exc:
                ctx.fail("C23.parse", pl, f"{label}: parse_literal raises {exc.name} ({exc.detail[:50]}): mutating or locally searching a seeded test that contains this literal crashes", stmt=f"[spelling] {label}")
                continue
            ctx.check("C23.parse", pl, parsed == want and type(parsed) is int, f"{label}: parse_literal returns {_short(parsed)}, Python reads {want}", what=f"{label} -> {want}", stmt=f"[spelling] {label}")

    # a tuple written without parentheses (`x = 1,` in a seeded test) that loses its last element: libcst refuses an
    # empty tuple without parentheses, so the mutation must add them
    mt = repo.try_func(LG, "_mutate_tuple")
    if mt is None:
        raise AnalysisError("anchor vanished: literalgen._mutate_tuple")
    ctx.analysed(mt)
    for n_elems in (1, 2):
        label = f"tuple of {n_elems} written without parentheses, one element removed"
        bare = peval.Term("cst.Tuple", [], {"elements": [peval.Term("cst.Element", [], {"value": peval.Term("cst.Integer", [], {"value": str(i + 1)})}) for i in range(n_elems)], "lpar": [], "rpar": []})
        it = peval.Interp(resolver=resolver, ctor_prefixes=("cst.",), externs={"randomness.next_bool": lambda: True, "randomness.next_int": lambda a, b: a}, max_steps=100000)
        try:
            out = it.run_function(mt, [bare, peval.Obj("constant_provider")], {}, mod)
        except (peval.Undecided, peval.Raises) as exc:
            ctx.undecide("C23.generate", mt, f"{label}: {exc}")
            continue
        elems = out.fields.get("elements") if isinstance(out, peval.Term) else None
        ok = isinstance(out, peval.Term) and out.name.endswith("Tuple") and (bool(elems) or (bool(out.fields.get("lpar")) and bool(out.fields.get("rpar"))))
        ctx.check("C23.generate", mt, ok, f"{label}: the result has {len(elems or [])} element(s) and no parentheses - libcst rejects it (`A zero-length tuple must be wrapped in parentheses`), mutating the seeded test crashes", what=f"{label}: still a valid tuple literal", stmt=f"[bare tuple] {n_elems}")

    # the write half of local search: set_literal_value hands the rendering of EVERY value on (no value is refused)
    LSS = "pynguin.testcase.localsearchstatement"
    slv = repo.try_func(LSS, "set_literal_value") if repo.has_module(LSS) else None
    if slv is None:
        raise AnalysisError("anchor vanished: localsearchstatement.set_literal_value")
    ctx.analysed(slv)
    lmod = repo.module(LSS)
    for v in [*FLOATS, *PRIMS]:
        label = f"write {type(v).__name__} {_short(v)}"
        written = []
        it = peval.Interp(resolver=resolver, ctor_prefixes=("cst.",), max_steps=400000, externs={"_replace_rhs": lambda tcase, pos, expr, written=written: (written.append(expr), True)[1]})
        try:
            ret = it.run_function(slv, [peval.Obj("test_case"), 0, v], {}, lmod)
        except (peval.Undecided, peval.Raises) as exc:
            ctx.undecide("C23.parse", slv, f"{label}: {exc}")
            continue
        okw = ret is True and len(written) == 1
        if okw:
            try:
                okw = same(v, cstterm.safe_eval(cstterm.render(written[0]), {}))
            except Exception:  # noqa: BLE001
                okw = False
        ctx.check("C23.parse", slv, okw, f"{label}: set_literal_value returns {ret!r} after {len(written)} write(s): the statement keeps its old literal (every caller ignores the result), local search silently works on another value", what=f"{label}: written", stmt=f"[write] {label}")

    # ------------------------------------------------------------------ C23.ml-twin
    if repo.has_module(ML):
        mlm = repo.module(ML)
        m2c = repo.func(ML, "ml_value_to_cst")
        ctx.analysed(m2c)
        for v in [*FLOATS, True, False, None, 0, -3, 10**30, "a'b", [1.5, [-0.0]], (math.inf,), (1, (2,)), complex(1.5, -2.0)]:
            judge_render("C23.ml-twin", m2c, mlm, v, f"{type(v).__name__} {_short(v)}")

    # ------------------------------------------------------------------ C23.tables
    def types_tested(fn, var_names):
        out = []
        for n in own_nodes(fn):
            if isinstance(n, ast.Compare) and len(n.ops) == 1 and isinstance(n.ops[0], (ast.Is, ast.In)) and norm(n.left) in var_names:
                c = n.comparators[0]
                if isinstance(c, ast.Set):
                    out += [norm(e) for e in c.elts]
                else:
                    out.append(norm(c))
            if isinstance(n, ast.Call) and norm(n.func) == "isinstance" and norm(n.args[0]) in var_names:
                t = n.args[1]
                elts = []
                stack = [t]
                while stack:
                    x = stack.pop()
                    if isinstance(x, ast.BinOp):
                        stack += [x.left, x.right]
                    elif isinstance(x, ast.Tuple):
                        stack += x.elts
                    else:
                        elts.append(norm(x))
                out += elts
        return out

    need = {"bool", "int", "float", "complex", "str", "bytes"}
    gl = repo.func(LG, "generate_literal")
    dm = repo.func(LG, "_dispatch_mutate")
    ppl = repo.func(LG, "_parse_primitive_literal")
    for fn, names in ((gl, {"raw", "raw_type", "typ"}), (dm, {"raw", "raw_type", "typ"}), (l2c, {"value"})):
        ctx.analysed(fn)
        got = set(types_tested(fn, names))
        ctx.check("C23.tables", fn, need <= got, f"{fn.name} no longer dispatches on {sorted(need - got)}", what=f"{fn.name} covers {sorted(need)}")
    got = set(types_tested(pl, {"raw"})) | set(types_tested(ppl, {"raw"}))
    ctx.check("C23.tables", pl, (need - {"str", "bytes"}) <= got, f"parse_literal / _parse_primitive_literal no longer dispatch on {sorted(need - got)}", what="parse side covers the primitive types")
    for fn, var in ((l2c, "value"), (gl, None), (dm, None)):
        seq = []
        for s in fn.body:
            if isinstance(s, ast.If):
                seq.append(norm(s.test))
        b = next((i for i, t in enumerate(seq) if "bool" in t), None)
        i_ = next((i for i, t in enumerate(seq) if "int" in t.replace("isinstance", "").replace("print", "")), None)
        ctx.check("C23.tables", fn, b is not None and i_ is not None and b < i_, f"{fn.name}: the int arm precedes the bool arm (True would be handled as the integer 1)", what=f"{fn.name}: bool before int", stmt="[bool<int]")
    b = next((i for i, s in enumerate(ppl.body) if isinstance(s, ast.If) and "bool" in norm(s.test)), None)
    i_ = next((i for i, s in enumerate(ppl.body) if isinstance(s, ast.If) and norm(s.test) == "raw is int"), None)
    ctx.check("C23.tables", ppl, b is not None and i_ is not None and b < i_, "_parse_primitive_literal: int before bool", what="_parse_primitive_literal: bool before int", stmt="[bool<int]")

    # ------------------------------------------------------------------ C23.uncached
    renderers = [("_int_to_cst", LG), ("_float_to_cst", LG), ("_complex_to_cst", LG), ("literal_to_cst", LG), ("_collection_to_cst", LG)]
    if repo.has_module(ML):
        renderers += [("_float_to_cst", ML), ("_int_to_cst", ML), ("ml_value_to_cst", ML)]
    seen = set()
    for name, m in renderers:
        fn = repo.try_func(m, name)
        if fn is None:
            continue
        # the renderer itself and every same-module helper it calls with a value
        stack = [fn]
        while stack:
            f = stack.pop()
            if id(f) in seen:
                continue
            seen.add(id(f))
            ctx.check("C23.uncached", f, not _cached(f), f"{m}:{f.name} is memoised ({', '.join(decorator_names(f))}): values that compare equal (0.0 / -0.0, 7.0 / (7+0j), 1 / True) share a cache slot and get each other's rendering", what=f"{f.name} not memoised")
            for c in own_nodes(f):
                if isinstance(c, ast.Call) and isinstance(c.func, ast.Name) and c.func.id in repo.module(m).functions:
                    stack.append(repo.module(m).functions[c.func.id])


def _hashable_elements(ctx, repo) -> None:
    """References offered as elements of a set literal are bound to hashable values: _reference_pool, interpreted over a
    test case binding a list, a dict, a set, an int, a str, a tuple and an untyped variable, offers for a set only the
    hashable ones (and all of them for a list); every caller tells the pool which collection it fills."""
    TF = "pynguin.testcase.testfactory"
    fn = repo.try_func(TF, "TestFactory._reference_pool")
    if fn is None:
        raise AnalysisError("anchor vanished: TestFactory._reference_pool")
    ctx.analysed(fn)
    mod = repo.module(TF)
    spec = [("var_0", list), ("var_1", dict), ("var_2", set), ("var_3", int), ("var_4", str), ("var_5", tuple), ("var_6", None), (None, None), ("var_8", bytearray), ("var_9", frozenset)]
    stmts = [peval.Obj("stmt", fields={"bound_variable": v, "bound_type": t}) for v, t in spec]
    tcase = peval.Obj("test_case")
    tcase.methods["statements"] = lambda: list(stmts)
    params = [a.arg for a in fn.args.args]
    for container, want in ((set, ["var_3", "var_4", "var_5", "var_9"]), (list, [v for v, _t in spec if v]), (None, [v for v, _t in spec if v])):
        tag = f"[element pool] for a {'collection of unknown type' if container is None else container.__name__}"
        it = peval.Interp(resolver=peval.repo_resolver(repo), ctor_prefixes=("cst.",), max_steps=20000)
        args = [peval.Obj("factory"), tcase, len(spec)] + ([container] if len(params) > 3 else [])
        try:
            out = it.run_function(fn, args, {}, mod)
        except (peval.Undecided, peval.Raises) as exc:
            ctx.undecide("C23.hashable", fn, f"{tag}: {exc}")
            continue
        names = [t.fields.get("value") if isinstance(t, peval.Term) else getattr(t, "value", None) for t in out]
        if not names or not all(isinstance(n_, str) for n_ in names):
            names = [t.args[0] if isinstance(t, peval.Term) and t.args else n_ for t, n_ in zip(out, names)]
        ok = names == want
        ctx.check("C23.hashable", fn, ok, f"{tag} the pool offers {names}, expected {want}: " + ("a set literal gets a reference to an unhashable value - `var_1 = {var_0, 1}` with a list var_0 raises TypeError, so the literal does not evaluate to a set" if container is set else "in-scope variables are withheld"), what=f"{tag}: {want}", stmt=tag)
    callers = [(qn, c) for _m, qn, f in repo.all_functions(TF) for c in own_nodes(f) if isinstance(c, ast.Call) and last_attr(c) == "_reference_pool"]
    for qn, c in callers:
        ok = len(c.args) >= 3 or any(k.arg == "container" for k in c.keywords)
        ctx.check("C23.hashable", c, ok, f"{qn}: `{norm(c)}` does not say which collection the references are for: a set built from this pool may reference a list or dict", what=f"{qn}: pool asked for a stated collection type", stmt=f"[pool caller] {qn}: {norm(c)[:50]}")
    if len(callers) < 4:
        raise AnalysisError(f"C23.hashable: only {len(callers)} callers of _reference_pool (confirmed by reading: 5)")
