"""C25 — subtyping is a preorder consistent with the class hierarchy.

Decides the laws on a finite universe: TypeSystem.is_subtype / is_maybe_subtype / subtype_distance
and the three visitors they construct are interpreted from source by the checker's evaluator over
33 proper types (instances over a diamond hierarchy and the numeric tower, hard-coded generics,
tuples of different arity, unions incl. None and tuple members, Any, None) on a model type graph.
Laws: reflexive, transitive (Any excluded: it is both top and bottom by design), everything below
Any, a union is a subtype exactly when all members are, maybe ⊇ strict, instance subsumption
agrees with the class hierarchy, distance defined only for maybe-subtypes, distance 0 for
identical types, a non-union is below a union exactly when it is below some member (strictly for
is_subtype, leniently for is_maybe_subtype; unions nested in tuples are in the universe).  Plus
shape: the Any test comes first, strict and maybe visitors differ only in the union arm; the
inheritance graph gets its edges from each class's own __bases__.  Types outside the universe's
shapes are not decided.
"""

from __future__ import annotations

import ast
import re
import collections

from sa.checks._typemodel import BASES, Model, ancestors
from sa.engine import peval
from sa.engine.index import AnalysisError, last_attr, norm, own_nodes

TS = "pynguin.analyses.typesystem"


def shape(t) -> str:
    k = t.classes[0]
    if k == "Instance":
        return "generic-instance" if t.fields["args"] else "instance"
    if k == "UnionType":
        inner = sorted({shape(i) for i in t.fields["items"]})
        return "union(" + ",".join(inner) + ")"
    return {"TupleType": "tuple", "AnyType": "Any", "NoneType": "None"}.get(k, k)


def report_grouped(ctx, rule, anchor, law, violations, explain):
    """violations: list of (a, b[, extra]) -> one finding per (law, shape signature)."""
    groups = collections.OrderedDict()
    for v in violations:
        sig = " vs ".join(shape(x) for x in v[:2] if hasattr(x, "classes"))
        a_, b_ = v[0], v[1]
        if all(hasattr(x, "classes") and x.classes[0] == "Instance" and x.fields["args"] for x in (a_, b_)):
            ca, cb = a_.fields["type"].fields["name"], b_.fields["type"].fields["name"]
            sig += " [same class]" if ca == cb else (" [related classes]" if ca in ancestors(cb) or cb in ancestors(ca) else " [unrelated classes]")
        groups.setdefault(sig, []).append(v)
    for sig, vs in groups.items():
        ex = "; ".join(explain(v) for v in vs[:3])
        ctx.fail(rule, anchor, f"{law} fails for {len(vs)} pair(s) of shape [{sig}], e.g. {ex}", stmt=f"[{law}] {sig}")


def _edges_from_own_bases(ctx, repo) -> None:
    """The inheritance graph gets, for every analysed class, edges to that class's own direct bases."""
    MODM = "pynguin.analyses.module"
    fn = repo.func(MODM, "__analyse_included_classes")
    ctx.analysed(fn)
    loops = [lp for lp in own_nodes(fn) if isinstance(lp, ast.For) and any(isinstance(c, ast.Call) and last_attr(c) == "add_subclass_edge" for c in ast.walk(lp))]
    if not loops:
        raise AnalysisError("__analyse_included_classes: the loop that adds subclass edges was not found")
    for lp in loops:
        it = norm(lp.iter)
        own = re.fullmatch(r"(\w+)\.__bases__", it) is not None
        inherited_attr = "__orig_bases__" in it and not re.search(r"__dict__|vars\(", it)
        ctx.check("C25.edges", lp, own or ("__bases__" in it and not inherited_attr) or ("__orig_bases__" in it and not inherited_attr), f"subclass edges are drawn from `{it[:80]}`: `__orig_bases__` is an ordinary class attribute and is inherited, so a class without parametrised bases of its own (class SortedIntList(IntList) below class IntList(list[int])) gets the bases of an ancestor - its real direct base is missing from the graph and is_subclass / is_subtype disagree with issubclass", what=f"edges from {it[:40]}", stmt="[bases]")
        edge = next(c for c in ast.walk(lp) if isinstance(c, ast.Call) and last_attr(c) == "add_subclass_edge")
        kw = {k.arg: norm(k.value) for k in edge.keywords}
        ctx.check("C25.edges", edge, "super_class" in kw and "sub_class" in kw and kw["super_class"] != kw["sub_class"] and "base" in kw["super_class"], f"add_subclass_edge({kw}) does not connect the base (super_class) with the analysed class (sub_class)", what="edge base -> analysed class", stmt="[direction]")


def check(ctx) -> None:
    repo = ctx.repo
    ctx.rule("C25.reflexive", "is_subtype(T, T) for every T of the universe", floor=30)
    ctx.rule("C25.transitive", "is_subtype is transitive on the universe without Any", floor=1)
    ctx.rule("C25.any-top", "is_subtype(T, Any) and is_maybe_subtype(T, Any) for every T", floor=30)
    ctx.rule("C25.union-all", "a union is a subtype of T exactly when all its members are; a maybe-subtype when some member is", floor=100)
    ctx.rule("C25.union-target", "a non-union type is a subtype of a union exactly when it is a subtype of some member - with the strict relation for is_subtype, the lenient one for is_maybe_subtype (unions nested in tuples included)", floor=100)
    ctx.rule("C25.edges", "the inheritance graph gets, for every analysed class, edges from its own direct bases (`cls.__bases__`; never an inheritable attribute such as __orig_bases__ read through getattr) in the direction base -> class", floor=2)
    _edges_from_own_bases(ctx, repo)
    ctx.rule("C25.class-agree", "Instance(X) <: Instance(Y) iff X is a (transitive) subclass of Y in the model hierarchy incl. the numeric tower", floor=100)
    ctx.rule("C25.maybe-superset", "is_subtype(A, B) implies is_maybe_subtype(A, B)", floor=1)
    ctx.rule("C25.distance-defined", "subtype_distance(T, S) is defined only when S may be a subtype of T", floor=1)
    ctx.rule("C25.distance-zero", "subtype_distance(T, T) == 0 for every T", floor=30)
    ctx.rule("C25.shape", "the Any test is the first decision of is_subtype / is_maybe_subtype; _MaybeSubtypeVisitor overrides only the union arm (any instead of all)", floor=4)

    m = Model(repo)
    U = m.universe()
    anchor_sub = repo.func(TS, "TypeSystem.is_subtype")
    anchor_maybe = repo.func(TS, "TypeSystem.is_maybe_subtype")
    anchor_dist = repo.func(TS, "TypeSystem.subtype_distance")
    for f in (anchor_sub, anchor_maybe, anchor_dist):
        ctx.analysed(f)
    for cls in ("_SubtypeVisitor", "_MaybeSubtypeVisitor", "_SubtypeDistanceVisitor"):
        for meth in repo.methods(repo.cls(TS, cls)).values():
            ctx.analysed(meth)

    rel = {}
    undecided = 0
    for q in ("is_subtype", "is_maybe_subtype", "subtype_distance"):
        for a in U:
            for b in U:
                try:
                    rel[q, a.label, b.label] = m.query(q, a, b)
                except peval.Undecided as exc:
                    undecided += 1
                    if undecided <= 3:
                        ctx.undecide("C25.reflexive", anchor_sub, f"{q}({a.label}, {b.label}): {exc}")
                    rel[q, a.label, b.label] = None
                except peval.Raises as exc:
                    ctx.fail("C25.reflexive", anchor_sub, f"{q}({a.label}, {b.label}) raises {exc.name} {exc.detail[:60]}", stmt=f"[raises] {q} {shape(a)} vs {shape(b)}")
                    rel[q, a.label, b.label] = None
    if undecided > len(U):
        raise AnalysisError(f"C25: {undecided} queries could not be interpreted")
    ctx.extra["universe"] = [t.label for t in U]
    ctx.extra["queries_interpreted"] = len(rel)
    sub = lambda a, b: rel["is_subtype", a.label, b.label]  # noqa: E731
    maybe = lambda a, b: rel["is_maybe_subtype", a.label, b.label]  # noqa: E731
    dist = lambda a, b: rel["subtype_distance", a.label, b.label]  # noqa: E731

    # reflexive / any-top / distance-zero
    for t in U:
        ctx.check("C25.reflexive", anchor_sub, bool(sub(t, t)), f"is_subtype({t.label}, {t.label}) is False", what=f"{t.label} <: {t.label}", stmt=f"[reflexive] {shape(t)}")
        ctx.check("C25.any-top", anchor_sub, bool(sub(t, m.any)) and bool(maybe(t, m.any)), f"{t.label} is not a subtype of Any", what=f"{t.label} <: Any", stmt=f"[any-top] {shape(t)}")
    bad = [(t, t, dist(t, t)) for t in U if dist(t, t) != 0]
    good = [t for t in U if dist(t, t) == 0]
    for t in good:
        ctx.ok("C25.distance-zero", anchor_dist, f"distance({t.label}, {t.label}) = 0")
    report_grouped(ctx, "C25.distance-zero", anchor_dist, "distance(T, T) == 0", bad, lambda v: f"subtype_distance({v[0].label}, {v[0].label}) = {v[2]}")

    # transitive
    non_any = [t for t in U if t is not m.any]
    bad = []
    n_trip = 0
    for a in non_any:
        for b in non_any:
            if not sub(a, b):
                continue
            for c in non_any:
                if sub(b, c):
                    n_trip += 1
                    if not sub(a, c):
                        bad.append((a, c, b))
    ctx.extra["transitivity_triples"] = n_trip
    if bad:
        report_grouped(ctx, "C25.transitive", anchor_sub, "transitivity", bad, lambda v: f"{v[0].label} <: {v[2].label} <: {v[1].label} but not {v[0].label} <: {v[1].label}")
    else:
        ctx.ok("C25.transitive", anchor_sub, f"{n_trip} chains A <: B <: C all close")

    # unions
    unions = [t for t in U if t.classes[0] == "UnionType"]
    bad_all, bad_any = [], []
    for u in unions:
        for t in U:
            if t is m.any:
                continue
            want_all = all(sub(i, t) for i in u.fields["items"])
            want_any = any(maybe(i, t) for i in u.fields["items"])
            if bool(sub(u, t)) != want_all:
                bad_all.append((u, t))
            else:
                ctx.ok("C25.union-all", anchor_sub, f"{u.label} <: {t.label} == all members")
            if bool(maybe(u, t)) != want_any:
                bad_any.append((u, t))
    report_grouped(ctx, "C25.union-all", anchor_sub, "union <: T iff all members <: T", bad_all, lambda v: f"is_subtype({v[0].label}, {v[1].label}) = {sub(v[0], v[1])}")
    report_grouped(ctx, "C25.union-all", anchor_maybe, "union maybe<: T iff some member maybe<: T", bad_any, lambda v: f"is_maybe_subtype({v[0].label}, {v[1].label}) = {maybe(v[0], v[1])}")

    # a non-union against a union target: some member suffices - strictly for is_subtype, leniently for is_maybe_subtype
    bad_strict, bad_lenient = [], []
    for a in U:
        if a.classes[0] in ("UnionType", "AnyType"):
            continue
        for t in unions:
            if any(x.classes[0] == "AnyType" for x in t.fields["items"]):
                continue
            want_s = any(sub(a, x) for x in t.fields["items"])
            want_m = any(maybe(a, x) for x in t.fields["items"])
            if bool(sub(a, t)) != want_s:
                bad_strict.append((a, t, want_s))
            else:
                ctx.ok("C25.union-target", anchor_sub, f"{a.label} <: {t.label} == some member")
            if bool(maybe(a, t)) != want_m:
                bad_lenient.append((a, t, want_m))
    report_grouped(ctx, "C25.union-target", anchor_sub, "non-union <: union iff it is a (strict) subtype of some member", bad_strict, lambda v: f"is_subtype({v[0].label}, {v[1].label}) = {sub(v[0], v[1])}, member-wise {v[2]}")
    report_grouped(ctx, "C25.union-target", anchor_maybe, "non-union maybe<: union iff it may be a subtype of some member", bad_lenient, lambda v: f"is_maybe_subtype({v[0].label}, {v[1].label}) = {maybe(v[0], v[1])}, member-wise {v[2]}")

    # class agreement
    plain = [t for t in U if t.classes[0] == "Instance" and not t.fields["args"]]
    bad = []
    for a in plain:
        for b in plain:
            want = b.fields["type"].fields["name"] in ancestors(a.fields["type"].fields["name"])
            if bool(sub(a, b)) != want:
                bad.append((a, b, want))
            else:
                ctx.ok("C25.class-agree", anchor_sub, f"{a.label} <: {b.label} == {want}")
    report_grouped(ctx, "C25.class-agree", anchor_sub, "instance subsumption == subclass relation", bad, lambda v: f"is_subtype({v[0].label}, {v[1].label}) = {sub(v[0], v[1])}, hierarchy says {v[2]}")

    # maybe superset / distance defined
    bad = [(a, b) for a in U for b in U if sub(a, b) and not maybe(a, b)]
    if bad:
        report_grouped(ctx, "C25.maybe-superset", anchor_maybe, "strict => maybe", bad, lambda v: f"{v[0].label} <: {v[1].label} but not maybe")
    else:
        ctx.ok("C25.maybe-superset", anchor_maybe, "every strict subtype pair is also a maybe-subtype pair")
    bad = [(t, s, dist(t, s)) for t in U for s in U if dist(t, s) is not None and not maybe(s, t)]
    if bad:
        report_grouped(ctx, "C25.distance-defined", anchor_dist, "distance defined => maybe-subtype", bad, lambda v: f"subtype_distance({v[0].label}, {v[1].label}) = {v[2]} but {v[1].label} is not a maybe-subtype of {v[0].label}")
    else:
        ctx.ok("C25.distance-defined", anchor_dist, "every defined distance goes to a maybe-subtype")

    # ------------------------------------------------------------------ C25.shape
    for fn in (anchor_sub, anchor_maybe):
        first = next((s for s in fn.body if isinstance(s, ast.If)), None)
        ok = first is not None and norm(first.test) == "isinstance(right, AnyType)" and isinstance(first.body[-1], ast.Return) and norm(first.body[-1].value) == "True"
        ctx.check("C25.shape", fn, ok, f"{fn.name}: `isinstance(right, AnyType) -> True` is no longer the first decision", what=f"{fn.name}: Any first")
    mv = repo.cls(TS, "_MaybeSubtypeVisitor")
    over = sorted(repo.methods(mv))
    ctx.check("C25.shape", mv, set(over) <= {"visit_union_type", "visit_unsupported_type"}, f"_MaybeSubtypeVisitor overrides {over}: strict and maybe subtyping differ in more than the union arm", what="maybe visitor overrides only the union arm")
    sv = repo.methods(repo.cls(TS, "_SubtypeVisitor"))["visit_union_type"]
    mvu = repo.methods(mv)["visit_union_type"]
    r1 = next(n for n in own_nodes(sv) if isinstance(n, ast.Return))
    r2 = next(n for n in own_nodes(mvu) if isinstance(n, ast.Return))
    ok = norm(r1.value).startswith("all(") and norm(r2.value).startswith("any(") and norm(r1.value)[4:] == norm(r2.value)[4:]
    ctx.check("C25.shape", mvu, ok, "the union arms of the strict and the maybe visitor are not `all(...)` / `any(...)` over the same expression", what="union arm: all vs any over the same check")
