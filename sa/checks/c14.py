"""C14 — ranking and selection operators honour their contracts.

Decides, by interpreting the operators' source with the checker's evaluator over finite partitions
(representative chromosomes are opaque objects with a fitness vector), that
 * DominanceComparator.compare agrees with Pareto dominance on all pairs of a point grid,
 * _get_non_dominated_solutions returns exactly the non-dominated individuals for every sequence
   of up to 4 individuals over that grid (any order, with ties and duplicates),
 * _get_zero_front holds, for every goal, an individual of minimal fitness (shortest among ties),
 * fast_epsilon_dominance_assignment leaves every distance in [0, 1) whatever it was before,
 * RankSelection.get_index returns an int in [0, len) for every bias of the documented range
   [1.0, 2.0] and every random value of [0, 1) incl. the largest double below 1, is monotone in
   the random value and puts the median in the better half;
plus a shape clause: the front scan leaves its inner loop only when the candidate is dominated;
 * compute_ranking_assignment, interpreted over populations that contain structurally equal individuals
   (clones compare equal) x tie coin x configured population size, puts every individual into at most one
   front (by identity), makes every later front the non-dominated set of the not yet ranked and sets each
   member's rank to its front index (C14.assignment).
The statistical preference of rank selection beyond monotonicity is not decided.
Further clauses (added later): C14.assignment interprets compute_ranking_assignment over populations with
structurally equal individuals (partition by identity, rank == front index). RankSelection.get_index
additionally satisfies a frequency law over a fixed grid of draws (better ranks are selected at least as
often).
"""

from __future__ import annotations

import ast
import itertools

from sa.engine import peval
from sa.engine.cfg import CFG
from sa.engine.guards import unguarded_path
from sa.engine.index import AnalysisError, last_attr, norm, own_nodes, parent

RK = "pynguin.ga.operators.ranking"
CMP = "pynguin.ga.operators.comparator"
SEL = "pynguin.ga.operators.selection"

GRID = [(3, 4), (4, 3), (2, 2), (3, 3), (5, 5), (2, 5)]
GOALS = ["g0", "g1"]


def dominates(a, b) -> bool:
    return all(x <= y for x, y in zip(a, b)) and any(x < y for x, y in zip(a, b))


def make_ind(vec, label, length=3, distance=-1):
    o = peval.Obj(label, fields={"rank": -1, "distance": distance})
    o.vec = vec
    o.methods["get_fitness_for"] = lambda goal, vec=vec: vec[GOALS.index(goal)]
    o.methods["length"] = lambda length=length: length
    o.methods["get_fitness_functions"] = lambda: list(GOALS)
    return o


def _assignment(ctx, repo, cra, resolver, rmod, cmod) -> None:
    """compute_ranking_assignment interpreted over populations that contain structurally equal individuals (clones
    compare equal): the fronts hold every individual at most once (by identity), front 0 is the zero front, every
    later front is exactly the set of non-dominated individuals among those not yet ranked, and the rank of a member
    is the index of its front."""
    psc = repo.func(CMP, "PreferenceSortingComparator.compare")
    dcmp = repo.func(CMP, "DominanceComparator.compare")
    cls = repo.cls(RK, "RankBasedPreferenceSorting")
    meths = repo.methods(cls)

    def pref_ctor(goal):
        o = peval.Obj("PreferenceSortingComparator", fields={"_PreferenceSortingComparator__objective": goal, "__objective": goal})
        o.methods["compare"] = lambda a, b: peval.Interp(resolver=resolver).run_function(psc, [o, a, b], {"self.__objective": goal}, cmod)
        return o

    def dom_ctor(goals=()):
        o = peval.Obj("DominanceComparator", fields={"_objectives": list(goals)})
        o.methods["compare"] = lambda a, b: peval.Interp(resolver=resolver).run_function(dcmp, [o, a, b], {}, cmod)
        return o

    def equal_ind(vec, label, key):
        o = make_ind(vec, label)
        o.key = key
        o.methods["__eq__"] = lambda other, o=o: getattr(other, "key", None) == o.key
        o.methods["__hash__"] = lambda o=o: hash(o.key)
        o.__class__ = peval.ProtoObj
        return o

    pops = [
        [((1, 1), "same"), ((1, 1), "same"), ((2, 2), "other")],
        [((1, 1), "same"), ((1, 1), "same")],
        [((3, 4), "p"), ((4, 3), "q"), ((3, 4), "p"), ((5, 5), "r")],
        [((2, 2), "x"), ((3, 3), "y"), ((2, 2), "x"), ((3, 3), "y"), ((4, 4), "z")],
        [((3, 4), "a"), ((4, 3), "b"), ((2, 2), "c")],
        [((1, 5), "a"), ((5, 1), "b"), ((3, 3), "c"), ((4, 4), "d"), ((4, 4), "d")],
    ]
    n = 0
    for pop in pops:
        for coin, popsize in itertools.product((True, False), (50, 2, 1)):
            inds = [equal_ind(v, f"i{i}{v}", k) for i, (v, k) in enumerate(pop)]
            tag = f"[assignment] {pop} coin={coin} size={popsize}"
            selfobj = peval.Obj("RankBasedPreferenceSorting", fields={"_logger": peval.Obj("logger", methods={"debug": lambda *a, **k: None})})
            it = peval.Interp(resolver=resolver, externs={"OrderedSet": lambda x=(): _OSet(x), "PreferenceSortingComparator": pref_ctor, "DominanceComparator": dom_ctor, "randomness.next_bool": lambda coin=coin: coin,
                                                          "RankedFronts": lambda fronts=None: list(fronts or [])},
                              consts={"config.configuration.search_algorithm.population": popsize})
            for mname, mfn in meths.items():
                selfobj.methods[mname] = (lambda f: (lambda *a, **k: it.run_function(f, [selfobj, *a] if f.args.args and f.args.args[0].arg == "self" else list(a), k, rmod)))(mfn)
            try:
                fronts = it.run_function(cra, [selfobj, list(inds), list(GOALS)], {}, rmod)
            except peval.Undecided as exc:
                ctx.undecide("C14.assignment", cra, f"{tag}: {exc}")
                return
            except peval.Raises as exc:
                ctx.fail("C14.assignment", cra, f"{tag}: raises {exc.name} {exc.detail[:60]}", stmt=tag)
                continue
            n += 1
            members = [m for f in fronts for m in f]
            why = ""
            if len({id(m) for m in members}) != len(members):
                why = "an individual is a member of two fronts"
            ranked: set[int] = set()
            for idx, front in enumerate(fronts):
                if not why and any(m.fields["rank"] != idx for m in front):
                    why = f"a member of front {idx} carries rank {[m.fields['rank'] for m in front]}"
                if idx >= 1 and not why:
                    rest = [i for i in inds if id(i) not in ranked]
                    if len(fronts[0]) >= popsize:
                        want = rest  # documented shortcut: one catch-all front when the zero front fills the population
                    else:
                        want = [i for i in rest if not any(dominates(j.vec, i.vec) for j in rest)]
                    if sorted(map(id, front)) != sorted(map(id, want)):
                        why = f"front {idx} is {[m.label for m in front]}, the non-dominated individuals among those not yet ranked are {[w.label for w in want]}"
                ranked |= {id(m) for m in front}
            if not why and len(fronts[0]) < popsize:
                # below the configured size ranking goes on while individuals are left
                if len(members) < min(popsize, len(inds)) and len(members) < len(inds):
                    why = f"only {len(members)} of {len(inds)} individuals are ranked although the configured population size {popsize} is not reached"
            if why:
                shown = getattr(ctx, "_c14_shown", 0)
                ctx._c14_shown = shown + 1
                if shown >= 3:
                    continue
            ctx.check("C14.assignment", cra, not why, f"{tag}: {why}: individuals that compare equal (clones) are confused with each other - one is ranked twice, the other never (rank -1)", what=f"{tag}: fronts partition the ranked individuals by identity", stmt=tag)
    if n == 0:
        raise AnalysisError("C14.assignment: nothing interpreted")


def check(ctx) -> None:
    repo = ctx.repo
    ctx.rule("C14.dominance", "ABSINT: DominanceComparator.compare == Pareto dominance (-1 / 1 / 0) on every ordered pair of the point grid, incl. None operands", floor=30)
    ctx.rule("C14.front", "ABSINT: _get_non_dominated_solutions returns exactly the non-dominated individuals for every sequence of <= 4 individuals over the grid", floor=700)
    ctx.rule("C14.front-shape", "the front scan breaks out of its inner loop only when the candidate is dominated", floor=1)
    ctx.rule("C14.assignment", "ABSINT: compute_ranking_assignment over populations with structurally equal individuals x tie coin x configured size: every individual in at most one front (by identity), later fronts == non-dominated among the not yet ranked, rank == front index", floor=30)
    ctx.rule("C14.zero-front", "ABSINT: for every goal the zero front holds an individual of minimal fitness, shortest among ties; every member gets rank 0", floor=10)
    ctx.rule("C14.distance", "ABSINT: after fast_epsilon_dominance_assignment every distance of the front is in [0, 1), whatever it was before (fresh chromosomes start at -1)", floor=18)
    ctx.rule("C14.index", "ABSINT: RankSelection.get_index is an int in [0, len) for bias in [1.0, 2.0] x random in [0, 1) x len, non-decreasing in the random value, median in the better half", floor=45)

    resolver = peval.repo_resolver(repo)
    rmod = repo.module(RK)
    cmod = repo.module(CMP)
    dom_cmp = repo.func(CMP, "DominanceComparator.compare")
    ctx.analysed(dom_cmp)

    def comparator_obj(goals):
        selfobj = peval.Obj("DominanceComparator", fields={"_objectives": list(goals)})

        def compare(a, b):
            it = peval.Interp(resolver=resolver, externs={"OrderedSet": lambda x=(): list(x)})
            return it.run_function(dom_cmp, [selfobj, a, b], {}, cmod)

        selfobj.methods["compare"] = compare
        return selfobj

    # ------------------------------------------------------------------ C14.dominance
    cmpo = comparator_obj(GOALS)
    for va, vb in itertools.product(GRID, repeat=2):
        a, b = make_ind(va, f"a{va}"), make_ind(vb, f"b{vb}")
        want = -1 if dominates(va, vb) else (1 if dominates(vb, va) else 0)
        try:
            got = cmpo.methods["compare"](a, b)
        except peval.Undecided as exc:
            ctx.undecide("C14.dominance", dom_cmp, f"{va} vs {vb}: {exc}")
            continue
        except peval.Raises as exc:
            ctx.fail("C14.dominance", dom_cmp, f"compare({va}, {vb}) raises {exc.name}", stmt=f"[{va} vs {vb}]")
            continue
        ctx.check("C14.dominance", dom_cmp, got == want, f"compare({va}, {vb}) = {got}, Pareto dominance says {want}", what=f"{va} vs {vb} -> {want}", stmt=f"[{va} vs {vb}]")
    for args, want in (((None, "x"), 1), (("x", None), -1)):
        a = [make_ind((1, 1), "x") if v == "x" else None for v in args]
        try:
            got = cmpo.methods["compare"](*a)
            ctx.check("C14.dominance", dom_cmp, got == want, f"compare{args} = {got}, expected {want}", what=f"None operand -> {want}", stmt=f"[{args}]")
        except (peval.Undecided, peval.Raises) as exc:
            ctx.undecide("C14.dominance", dom_cmp, f"None operand: {exc}")

    # ------------------------------------------------------------------ C14.front
    nds = repo.func(RK, "RankBasedPreferenceSorting._get_non_dominated_solutions")
    ctx.analysed(nds)
    bad = None
    rows = 0
    und = None
    for n in range(1, 5):
        for seq in itertools.product(GRID[:5], repeat=n):
            inds = [make_ind(v, f"i{i}{v}") for i, v in enumerate(seq)]
            it = peval.Interp(resolver=resolver)
            try:
                front = it.run_function(nds, [inds, comparator_obj(GOALS), 1], {}, rmod)
            except peval.Undecided as exc:
                und = str(exc)
                break
            except peval.Raises as exc:
                bad = (seq, f"raises {exc.name} {exc.detail}")
                break
            rows += 1
            want = [i for i in inds if not any(dominates(j.vec, i.vec) for j in inds)]
            if sorted(map(id, front)) != sorted(map(id, want)):
                bad = (seq, f"front {[f.vec for f in front]} != non-dominated {[w.vec for w in want]}")
                break
            if any(f.fields["rank"] != 1 for f in front):
                bad = (seq, "a front member did not receive the front index as rank")
                break
        if bad or und:
            break
    ctx.extra["front_sequences"] = rows
    if und:
        ctx.undecide("C14.front", nds, und)
    elif bad:
        ctx.fail("C14.front", nds, f"population {list(bad[0])}: {bad[1]} - a later front is not exactly the set of non-dominated individuals among those not yet ranked", stmt=f"[partition] {list(bad[0])}")
    else:
        ctx.rule_counts["C14.front"] = ctx.rule_counts.get("C14.front", 0) + rows - 1
        ctx.ok("C14.front", nds, f"{rows} sequences over {GRID[:5]}: front == non-dominated set")

    # ------------------------------------------------------------------ C14.front-shape
    cfg = CFG(nds)
    inner = [n for n in own_nodes(nds) if isinstance(n, ast.For) and isinstance(parent(n), ast.For)]
    breaks = [n for l in inner for n in ast.walk(l) if isinstance(n, ast.Break)]
    if not inner:
        raise AnalysisError("_get_non_dominated_solutions: inner scan loop not found")
    flag_names = {norm(n.targets[0]) for n in own_nodes(nds) if isinstance(n, ast.Assign) and isinstance(n.value, ast.Call) and last_attr(n.value) == "compare"}
    for b in breaks:
        p = unguarded_path(cfg, cfg.nodes_of(b), lambda lit: lit[2] and isinstance(lit[1], ast.Compare) and norm(lit[1].left) in flag_names and isinstance(lit[1].ops[0], ast.Gt) and norm(lit[1].comparators[0]) == "0")
        ctx.paths += 1
        ctx.check("C14.front-shape", b, p is None, "the scan of a candidate against the front stops although the candidate is not dominated: front members it dominates but has not met yet stay in the front", what="inner scan left only when the candidate is dominated", path=cfg.describe_path(p) if p else [])
    ctx.check("C14.front-shape", nds, len(breaks) >= 1, "no early exit at all (allowed, but the anchor of the rule vanished)", what="scan has its dominated-exit", stmt="[anchor]") if breaks else ctx.ok("C14.front-shape", nds, "scan without early exit")
    cra = repo.func(RK, "RankBasedPreferenceSorting.compute_ranking_assignment")
    ctx.analysed(cra)
    _assignment(ctx, repo, cra, resolver, rmod, cmod)

    # ------------------------------------------------------------------ C14.zero-front
    zf = repo.func(RK, "RankBasedPreferenceSorting._get_zero_front")
    ctx.analysed(zf)
    psc = repo.func(CMP, "PreferenceSortingComparator.compare")

    def pref_ctor(goal):
        o = peval.Obj("PreferenceSortingComparator", fields={"_PreferenceSortingComparator__objective": goal, "__objective": goal})

        def compare(a, b):
            it = peval.Interp(resolver=resolver)
            return it.run_function(psc, [o, a, b], {"self.__objective": goal}, cmod)

        o.methods["compare"] = compare
        return o

    pops = [
        [((3, 4), 3), ((4, 3), 3), ((2, 2), 5)],
        [((3, 4), 3), ((3, 4), 2), ((4, 1), 9)],
        [((1, 1), 4)],
        [((2, 5), 3), ((5, 2), 3), ((3, 3), 1), ((2, 5), 1)],
        [((0, 7), 2), ((0, 7), 2), ((7, 0), 2)],
    ]
    for pop in pops:
        for coin, popsize in itertools.product((True, False), (1, 50)):
            inds = [make_ind(v, f"i{i}{v}", length=l) for i, (v, l) in enumerate(pop)]
            # the configured population size must not matter: every goal keeps its best individual in the zero front
            it = peval.Interp(resolver=resolver, externs={"OrderedSet": lambda x=(): _OSet(x), "PreferenceSortingComparator": pref_ctor, "randomness.next_bool": lambda coin=coin: coin},
                              consts={"config.configuration.search_algorithm.population": popsize})
            try:
                front = it.run_function(zf, [inds, list(GOALS)], {}, rmod)
            except peval.Undecided as exc:
                ctx.undecide("C14.zero-front", zf, f"{pop}: {exc}")
                continue
            except peval.Raises as exc:
                ctx.fail("C14.zero-front", zf, f"population {pop}: raises {exc.name} {exc.detail}", stmt=f"[partition] {pop} coin={coin} size={popsize}")
                continue
            ok = True
            why = ""
            for gi, g in enumerate(GOALS):
                best = min(v[gi] for v, _l in pop)
                best_len = min(l for v, l in pop if v[gi] == best)
                if not any(f.vec[gi] == best and f.methods["length"]() == best_len for f in front):
                    ok, why = False, f"goal {g}: no member with the minimal fitness {best} and minimal length {best_len}"
            if any(f.fields["rank"] != 0 for f in front):
                ok, why = False, "a zero-front member has rank != 0"
            ctx.check("C14.zero-front", zf, ok, f"population {pop} (tie coin {coin}, configured population size {popsize}): {why}", what=f"{pop} coin={coin} size={popsize}: best per goal in the zero front", stmt=f"[partition] {pop} coin={coin} size={popsize}")

    # ------------------------------------------------------------------ C14.distance
    fed = repo.func(RK, "fast_epsilon_dominance_assignment")
    ctx.analysed(fed)
    fronts = [[(3, 4)], [(3, 4), (4, 3)], [(2, 2), (2, 2)], [(1, 5), (2, 4), (3, 3)], [(0, 0), (0, 0), (0, 1)], [(3, 4), (4, 3), (3, 3), (5, 1)]]
    for fr in fronts:
        for init in (-1, 0, 7.5):
            inds = [make_ind(v, f"i{i}{v}", distance=init) for i, v in enumerate(fr)]
            it = peval.Interp(resolver=resolver)
            try:
                it.run_function(fed, [inds, list(GOALS)], {}, rmod)
            except peval.Undecided as exc:
                ctx.undecide("C14.distance", fed, f"{fr}: {exc}")
                continue
            except peval.Raises as exc:
                ctx.fail("C14.distance", fed, f"front {fr}: raises {exc.name} {exc.detail}", stmt=f"[partition] {fr} init={init}")
                continue
            ds = [i.fields["distance"] for i in inds]
            ok = all(isinstance(d, (int, float)) and 0 <= d < 1 for d in ds)
            ctx.check("C14.distance", fed, ok, f"front {fr} with previous distance {init}: distances {ds} are not all in [0, 1)", what=f"{fr} init={init} -> {ds}", stmt=f"[partition] {fr} init={init}")

    # ------------------------------------------------------------------ C14.index
    gi = repo.func(SEL, "RankSelection.get_index")
    ctx.analysed(gi)
    smod = repo.module(SEL)
    BIAS = [1.0, 1.0000001, 1.01, 1.25, 1.5, 1.68, 1.7, 1.99, 2.0]
    RAND = [0.0, 5e-324, 1e-12, 0.25, 0.5, 0.75, 0.999, 0.999999999, 1 - 2**-53]
    LENS = [1, 2, 3, 10, 1000]
    for bias in BIAS:
        for n in LENS:
            prev = -1
            bad = None
            for r in RAND:
                selfobj = peval.Obj("RankSelection", fields={"bias": bias})
                it = peval.Interp(resolver=resolver, externs={"randomness.next_float": lambda r=r: r, "sqrt": __import__("math").sqrt})
                try:
                    idx = it.run_function(gi, [selfobj, list(range(n))], {}, smod)
                except peval.Undecided as exc:
                    ctx.undecide("C14.index", gi, f"bias={bias} len={n} r={r}: {exc}")
                    bad = "undecided"
                    break
                except peval.Raises as exc:
                    bad = f"random={r!r}: raises {exc.name}"
                    break
                if not (isinstance(idx, int) and not isinstance(idx, bool) and 0 <= idx < n):
                    bad = f"random={r!r}: index {idx!r} is outside [0, {n})"
                    break
                if idx < prev:
                    bad = f"random={r!r}: index {idx} < index {prev} of a smaller random value (not monotone: a worse rank preferred)"
                    break
                if r == 0.5 and idx > n / 2:
                    bad = f"median random value selects index {idx} of {n}: the worse half is preferred"
                    break
                prev = idx
            if bad == "undecided":
                continue
            ctx.check("C14.index", gi, bad is None, f"bias={bias}, population of {n}: {bad}", what=f"bias={bias} len={n}: indices in range and monotone", stmt=f"[partition] bias={bias} len={n}")


    # selection frequency over an equidistant grid of draws: a better rank never gets fewer draws than a worse one
    DRAWS = 420
    for bias in (1.0, 1.5, 2.0):
        for n in (3, 5, 10):
            counts = [0] * n
            bad = None
            for k in range(DRAWS):
                r = (k + 0.5) / DRAWS
                it = peval.Interp(resolver=resolver, externs={"randomness.next_float": lambda r=r: r, "sqrt": __import__("math").sqrt})
                try:
                    idx = it.run_function(gi, [peval.Obj("RankSelection", fields={"bias": bias}), list(range(n))], {}, smod)
                    counts[idx] += 1
                except (peval.Undecided, peval.Raises, IndexError, TypeError) as exc:
                    bad = f"r={r}: {exc}"
                    break
            if bad is not None:
                ctx.undecide("C14.index", gi, f"frequency bias={bias} len={n}: {bad}")
                continue
            slack = 2  # grid effects at bucket borders
            worse_preferred = [(i, counts[i], counts[i + 1]) for i in range(n - 1) if counts[i] + slack < counts[i + 1]]
            ctx.check("C14.index", gi, not worse_preferred, f"bias={bias}, population of {n}: over {DRAWS} equidistant draws the indices are chosen {counts} times - index {worse_preferred[0][0] + 1 if worse_preferred else ''} (a worse rank) is chosen more often than index {worse_preferred[0][0] if worse_preferred else ''}: rank selection prefers a worse individual over a better one", what=f"bias={bias} len={n}: frequencies non-increasing {counts}", stmt=f"[frequency] bias={bias} len={n}")


class _OSet(list):
    """Insertion-ordered set stand-in for the evaluator (OrderedSet semantics: add ignores duplicates)."""

    def __init__(self, it=()):
        super().__init__()
        for x in it:
            self.add(x)

    def add(self, x):
        if not any(x is y for y in self):
            self.append(x)
