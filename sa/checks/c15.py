"""C15 — variation operators keep every test case well-formed.

Decides the representation-invariant discipline of TestCase and the length guards:
 * the private representation (_statements, _type_registry, _var_counter, _code_cache, and the
   per-statement read-set cache _used_vars) is written only inside testcase.py;
 * every TestCase method that changes _statements drops the code cache and brings the type registry
   up to date on every path;
 * the read-set cache of a statement is copied only together with the very node it was computed for;
 * appended / rebuilt statements get their binding from next_var_name(), from the statement they
   replace, or none;
 * crossover installs an offspring only if the size of the finished offspring is below the
   configured maximum (the guard reads the size after the last change), and the insertion loops
   re-test the size before every insertion.
 * _find_variable_of_type, interpreted over representative test cases for every position, offers
   exactly the matching variables bound before the position; the factory never consults the
   whole-test-case type registry.
 * delete_statement_gracefully, interpreted over every well-formed 4-statement test case and position,
   leaves no read without a remaining earlier binder and removes nothing outside the name-based
   dependency closure (C15.cascade).
Def-before-use after arbitrary operator histories (cursor arithmetic of the recursive emitters) is
not decided.
Further clauses (added later): C15.container interprets TestCase (registry == bound variables after add / chop
/ batch removal, clone independence); C15.cascade interprets delete_statement_gracefully over every well-
formed 4-statement test case: no read is left without a binder and nothing outside the dependency closure is
removed.
"""

from __future__ import annotations

import ast
import itertools

from sa.engine import peval
import re

from sa.engine.cfg import CFG
from sa.engine.guards import unguarded_path
from sa.engine.index import AnalysisError, last_attr, norm, own_nodes, parent

TC = "pynguin.testcase.testcase"
CROSS = "pynguin.ga.operators.crossover"
MUT = "pynguin.ga.operators.mutation"
TCF = "pynguin.ga.testcasefactory"
PRIVATE = ("_statements", "_type_registry", "_var_counter", "_code_cache", "_used_vars")
LIST_MUTATORS = ("append", "insert", "pop", "remove", "clear", "extend", "sort", "reverse", "__setitem__", "__delitem__")
TC_MUTATORS = ("add_statement", "insert_statement", "remove_statement", "replace_statement", "remove_statements_batch", "chop", "remove_statement_with_forward_dependencies", "append_test_case", "append_test_case_from", "remove_unused_variables")


def _stmt(n):
    while n is not None and not isinstance(n, ast.stmt):
        n = parent(n)
    return n


class _RepStmt:
    def __init__(self, bound_variable, bound_type):
        self.bound_variable = bound_variable
        self.bound_type = bound_type


class _RepTestCase:
    def __init__(self, stmts):
        self._stmts = stmts

    def statements(self):
        return list(self._stmts)

    def size(self):
        return len(self._stmts)


def _container_laws(ctx, repo) -> None:
    """TestCase interpreted from source over representative statements: after every container operation the type
    registry lists exactly the bound variables of the statements, a clone shares nothing that an operation changes,
    chop(p) keeps statements 0..p."""
    from sa.engine import peval

    mod = repo.module(TC)
    cres = peval.repo_class_resolver(repo, only={"TestCase", "Statement"})
    anchor = repo.cls(TC, "TestCase")
    SPEC = [("var_0", int, ()), ("var_1", str, ()), ("var_2", int, ("var_0",)), (None, None, ("var_1",)), ("var_3", list, ("var_2", "var_1"))]

    def fresh():
        it = peval.Interp(resolver=peval.repo_resolver(repo), class_resolver=cres, max_steps=400000)
        t = it.instantiate("TestCase", cres("TestCase", mod), [], {})
        for v, ty, uses in SPEC:
            t.methods["add_statement"](stmt(it, v, ty, uses))
        return it, t

    def stmt(it, var, typ, uses=()):
        return it.instantiate("Statement", cres("Statement", mod), [], {"node": peval.Term("cst.SimpleStatementLine", [f"{var} = ..."], {}), "bound_variable": var, "bound_type": typ, "assertions": [], "accessible": None, "ml_info": None, "_used_vars": set(uses)}, init=False)

    def registry(t):
        return {k: list(v) for k, v in t.fields["_type_registry"].items() if v}

    def expected_registry(t):
        out = {}
        for s in t.fields["_statements"]:
            if s.fields["bound_variable"] is not None and s.fields["bound_type"] is not None:
                out.setdefault(s.fields["bound_type"], []).append(s.fields["bound_variable"])
        return out

    def names(t):
        return [s.fields["bound_variable"] for s in t.fields["_statements"]]

    def run(label, body):
        try:
            problem = body()
        except peval.Undecided as exc:
            ctx.undecide("C15.container", anchor, f"{label}: {exc}")
            return
        except peval.Raises as exc:
            problem = f"raises {exc.name} ({exc.detail[:60]})"
        ctx.check("C15.container", anchor, problem is None, f"[{label}] {problem}", what=f"[{label}]", stmt=f"[{label}]")

    def clone_then_add(on_clone):
        def body():
            it, t = fresh()
            c = t.methods["clone"]()
            target, other = (c, t) if on_clone else (t, c)
            target.methods["add_statement"](stmt(it, "var_9", int))
            if registry(other) != expected_registry(other) or names(other) != [v for v, _t, _u in SPEC]:
                return f"add_statement on the {'clone' if on_clone else 'original'} changes the other test case: its registry is {registry(other)}, its statements bind {names(other)} - the registry of a test case that was not touched offers variables it does not define (a later crossover reads an unbound name)"
            if registry(target) != expected_registry(target):
                return f"registry {registry(target)} != statements {expected_registry(target)}"
            return None
        return body

    run("clone, then add_statement on the clone", clone_then_add(True))
    run("clone, then add_statement on the original", clone_then_add(False))
    n = len(SPEC)
    for p in (-1, 0, 1, n - 1, n + 3):
        def body(p=p):
            _it, t = fresh()
            t.methods["chop"](p)
            want = [v for v, _t, _u in SPEC][: max(p + 1, 0)]
            if names(t) != want:
                return f"chop({p}) keeps the statements binding {names(t)}, expected {want} (statements 0..{p}): " + ("a failing test case that raises in its first statement loses that statement and is dropped as empty" if p == 0 else "statements after the raising one stay / needed ones are lost")
            if registry(t) != expected_registry(t):
                return f"after chop({p}) the registry is {registry(t)}, the statements give {expected_registry(t)}"
            return None
        run(f"chop({p})", body)
    for idxs in ({1}, {0, 4}, set()):
        def body(idxs=idxs):
            _it, t = fresh()
            t.methods["remove_statements_batch"](set(idxs))
            want = [v for i, (v, _t, _u) in enumerate(SPEC) if i not in idxs]
            if names(t) != want or registry(t) != expected_registry(t):
                return f"remove_statements_batch({sorted(idxs)}) leaves {names(t)} / registry {registry(t)}, expected {want} / {expected_registry(t)}"
            return None
        run(f"remove_statements_batch({sorted(idxs)})", body)


def _find_variable_bounded(ctx, repo, fn) -> None:
    """The candidates offered for a statement built at `position` are the matching variables bound
    at an index < position - all of them and nothing else."""
    from sa.engine import peval

    stmts = [_RepStmt("int_0", int), _RepStmt(None, None), _RepStmt("str_0", str), _RepStmt("bool_0", bool), _RepStmt("int_1", int), _RepStmt("list_0", list), _RepStmt("int_2", int)]
    test_case = _RepTestCase(stmts)
    for raw in (int, str):
        for position in range(len(stmts) + 1):
            offered: list = []

            def choice(seq, _o=offered):
                _o.append(list(seq))
                return seq[0]

            want = [s.bound_variable for s in stmts[:position] if s.bound_variable is not None and issubclass(s.bound_type, raw)]
            it = peval.Interp(resolver=peval.repo_resolver(repo), native_types=(_RepStmt, _RepTestCase), externs={"randomness.choice": choice}, consts={"raw": raw})
            label = f"[{raw.__name__} @ {position}]"
            try:
                got = it.run_function(fn, [test_case, raw, position], {}, repo.module("pynguin.testcase.testfactory"))
            except (peval.Undecided, peval.Raises) as exc:
                ctx.undecide("C15.bound-before-use", fn, f"{label} {exc}")
                continue
            cands = offered[0] if offered else ([] if got is None else [got])
            late = [v for v in cands if v not in want]
            ctx.check("C15.bound-before-use", fn, sorted(cands) == sorted(want), f"_find_variable_of_type(test case, {raw.__name__}, position={position}) offers {cands}, the variables of that type bound before the position are {want}" + (f": {late} " + "is" * (len(late) == 1) + "are" * (len(late) != 1) + " bound at or after the position - the statement built there reads a name that is not defined yet (NameError when the test runs)" if late else ": reusable variables are withheld"), what=f"{label} candidates == variables bound before the position", stmt=label)


def _cascade(ctx, repo) -> None:
    """delete_statement_gracefully, interpreted over every well-formed 4-statement test case (a statement binds a
    fresh name, re-binds the first name, or binds nothing; it reads any subset of the names bound before it) and
    every position: afterwards no remaining statement reads a name without a remaining earlier binder, and nothing
    outside the name-based dependency closure of the deleted statement is removed."""
    TF = "pynguin.testcase.testfactory"
    fn = repo.try_func(TF, "TestFactory.delete_statement_gracefully")
    if fn is None:
        raise AnalysisError("anchor vanished: TestFactory.delete_statement_gracefully")
    ctx.analysed(fn)
    mod = repo.module(TF)
    N = 4
    shapes = []

    def rec(i, bound_so_far, acc):
        if i == N:
            shapes.append(list(acc))
            return
        avail = sorted(bound_so_far)
        for bv in ([None, f"v{i}"] + (["v0"] if i >= 1 and "v0" in bound_so_far else [])):
            for r in range(len(avail) + 1):
                if r > 2:
                    break
                for used in itertools.combinations(avail, r):
                    acc.append((bv, frozenset(used)))
                    rec(i + 1, bound_so_far | ({bv} if bv else set()), acc)
                    acc.pop()

    rec(0, frozenset(), [])
    n = 0
    shown = 0
    for shape in shapes:
        for position in range(N):
            removed: list = []
            stmts = []
            for bv, used in shape:
                o = peval.Obj("stmt", fields={"bound_variable": bv})
                o.methods["used_variables"] = lambda used=used: set(used)
                stmts.append(o)
            tcase = peval.Obj("test_case")
            tcase.methods["size"] = lambda: N
            tcase.methods["statements"] = lambda stmts=stmts: list(stmts)
            tcase.methods["remove_statements_batch"] = lambda idxs, removed=removed: removed.append(set(idxs))
            tcase.methods["remove_statement"] = lambda idx, removed=removed: removed.append({idx})
            tag = f"[cascade] {[(b, sorted(u)) for b, u in shape]} delete {position}"
            it = peval.Interp(resolver=peval.repo_resolver(repo), max_steps=20000)
            try:
                it.run_function(fn, [tcase, position], {}, mod)
            except (peval.Undecided,) as exc:
                ctx.undecide("C15.cascade", fn, f"{tag}: {exc}")
                return
            except peval.Raises as exc:
                ctx.fail("C15.cascade", fn, f"{tag}: raises {exc.name}", stmt="[cascade] raises")
                return
            gone = set().union(*removed) if removed else set()
            # name-based closure (upper bound) and well-formedness (lower bound)
            dead = {shape[position][0]} - {None}
            closure = {position}
            ch = True
            while ch:
                ch = False
                for i in range(position + 1, N):
                    if i not in closure and shape[i][1] & dead:
                        closure.add(i)
                        if shape[i][0] and shape[i][0] not in dead:
                            dead.add(shape[i][0])
                        ch = True
            dangling = []
            for i in range(N):
                if i in gone:
                    continue
                for u in shape[i][1]:
                    if not any(j not in gone and shape[j][0] == u for j in range(i)):
                        dangling.append((i, u))
            ok = position in gone and not dangling and gone <= closure
            n += 1
            if not ok and shown < 3:
                shown += 1
                ctx.fail("C15.cascade", fn, f"{tag}: removes {sorted(gone)} (name-based closure {sorted(closure)}); statement/name pairs left without a binder: {dangling}: the test case reads a variable whose producing statement was deleted (or loses unrelated statements)", stmt=f"[cascade] {'dangling read' if dangling else 'unrelated removal'}")
            elif ok:
                ctx.ok("C15.cascade", fn, what=tag)
    if n < 1000:
        raise AnalysisError(f"C15.cascade: only {n} cases")


def check(ctx) -> None:
    repo = ctx.repo
    ctx.rule("C15.writers", "WHO-MAY: the private representation of TestCase / Statement is written only in testcase/testcase.py", floor=10)
    ctx.rule("C15.mutators", "MUST-PASS: every TestCase method that changes _statements reaches `_code_cache = None` and `_rebuild_registry()` / `_register()` on every path to a normal exit", floor=7)
    ctx.rule("C15.read-cache", "a statement's cached read set is copied only to a statement built with the same node object", floor=1)
    ctx.rule("C15.names", "every Statement built inside TestCase binds next_var_name(), the binding of the statement it is rebuilt from, or nothing", floor=3)
    ctx.rule("C15.bound-before-use", "ABSINT + WHO-MAY: _find_variable_of_type, interpreted over representative test cases, offers exactly the matching variables bound before `position`; the test factory consults the whole-test-case type registry nowhere", floor=6)
    tf_ = repo.module("pynguin.testcase.testfactory")
    fv_ = tf_.functions.get("TestFactory._find_variable_of_type")
    if fv_ is None:
        raise AnalysisError("anchor vanished: TestFactory._find_variable_of_type")
    ctx.analysed(fv_)
    _find_variable_bounded(ctx, repo, fv_)
    for qn_, fn_ in tf_.functions.items():
        for c_ in own_nodes(fn_):
            if isinstance(c_, ast.Call) and isinstance(c_.func, ast.Attribute) and c_.func.attr == "variables_of_type" or (isinstance(c_, ast.Attribute) and c_.attr == "_type_registry"):
                ctx.fail("C15.bound-before-use", c_, f"{qn_} looks candidates up in the type registry of the whole test case (`{norm(c_)[:60]}`): it also holds variables that are bound after the position the statement is built for, so a statement can read a variable before it is defined", stmt=f"[{qn_}] registry lookup")
    ctx.rule("C15.cascade", "ABSINT: delete_statement_gracefully over every well-formed 4-statement test case and position leaves no read without a remaining earlier binder and removes nothing outside the name-based dependency closure", floor=1000)
    _cascade(ctx, repo)
    ctx.rule("C15.container", "ABSINT: TestCase interpreted from source over representative statements - registry == bound variables of the statements after add / chop / remove_statements_batch, clone and original share nothing an operation changes, chop(p) keeps statements 0..p", floor=10)
    _container_laws(ctx, repo)
    ctx.rule("C15.length", "crossover installs the offspring only under `<finished offspring>.size() < chromosome_length` read after its last change; insertion loops test the size in their loop condition", floor=3)

    # ------------------------------------------------------------------ C15.writers
    for mod, qn, fn in repo.all_functions("pynguin"):
        for n in own_nodes(fn):
            tgt = None
            if isinstance(n, (ast.Assign, ast.AugAssign, ast.AnnAssign)):
                for t in n.targets if isinstance(n, ast.Assign) else [n.target]:
                    base = t.value if isinstance(t, ast.Subscript) else t
                    if isinstance(base, ast.Attribute) and base.attr in PRIVATE:
                        tgt = base
            elif isinstance(n, ast.Call) and isinstance(n.func, ast.Attribute) and n.func.attr in LIST_MUTATORS and isinstance(n.func.value, ast.Attribute) and n.func.value.attr in PRIVATE:
                tgt = n.func.value
            elif isinstance(n, ast.Delete):
                for t in n.targets:
                    base = t.value if isinstance(t, ast.Subscript) else t
                    if isinstance(base, ast.Attribute) and base.attr in PRIVATE:
                        tgt = base
            if tgt is None:
                continue
            # other classes may have like-named private fields of their own (self._statements of a visitor, ...)
            if mod.name != TC and norm(tgt.value) == "self":
                continue
            ctx.analysed(fn)
            ctx.check("C15.writers", _stmt(n), mod.name == TC, f"{mod.name}:{qn} writes `{norm(tgt)}` of a test case / statement from outside testcase.py: the registry, the name counter or the code cache can no longer be kept consistent", what=f"{qn}: writes {tgt.attr}")

    # ------------------------------------------------------------------ C15.mutators
    tcc = repo.cls(TC, "TestCase")
    for name, fn in repo.methods(tcc).items():
        if name in ("__init__", "clone"):
            continue
        writes = []
        for n in own_nodes(fn):
            if isinstance(n, (ast.Assign, ast.AugAssign)):
                for t in n.targets if isinstance(n, ast.Assign) else [n.target]:
                    base = t.value if isinstance(t, ast.Subscript) else t
                    if norm(base) == "self._statements":
                        writes.append(n)
            elif isinstance(n, ast.Call) and isinstance(n.func, ast.Attribute) and norm(n.func.value) == "self._statements" and n.func.attr in LIST_MUTATORS:
                writes.append(n)
            elif isinstance(n, ast.Delete) and any(norm(t.value if isinstance(t, ast.Subscript) else t) == "self._statements" for t in n.targets):
                writes.append(n)
        if not writes:
            continue
        ctx.analysed(fn)
        cfg = CFG(fn)
        reg = {n.id for n in cfg.nodes if n.kind == "stmt" and n.stmt is not None and any(isinstance(c, ast.Call) and norm(c.func) in ("self._rebuild_registry", "self._register") for c in ast.walk(n.stmt))}
        drop = {n.id for n in cfg.nodes if n.kind == "stmt" and n.stmt is not None and norm(n.stmt) == "self._code_cache = None"}
        for w in writes:
            st = _stmt(w)
            ids = cfg.nodes_of(st)
            nxt = [b for s in ids for b, lab in cfg.succ[s] if lab != "exc"]
            p1 = cfg.path(nxt, [cfg.exit], avoid_nodes=reg, labels_excluded=("exc",))
            # the cache may be dropped before or after the write
            before = cfg.path([cfg.entry], ids, avoid_nodes=drop) is None
            after = cfg.path(nxt, [cfg.exit], avoid_nodes=drop, labels_excluded=("exc",)) is None
            ctx.paths += 3
            ctx.check("C15.mutators", st, p1 is None and bool(reg), f"TestCase.{name}: `{norm(w)[:60]}` changes the statement list but a path leaves without updating the per-type variable registry: variables_of_type() then offers names that are not bound (or misses bound ones)", what=f"{name}: registry updated after the write", path=cfg.describe_path(p1) if p1 else [])
            ctx.check("C15.mutators", st, before or after, f"TestCase.{name}: `{norm(w)[:60]}` changes the statement list without dropping the cached source code: to_code(), equality and hashing keep using the old statements", what=f"{name}: code cache dropped", stmt=norm(st)[:120] + " [code-cache]")

    # ------------------------------------------------------------------ C15.read-cache
    n_copies = 0
    for mod, qn, fn in repo.all_functions("pynguin"):
        for n in own_nodes(fn):
            if isinstance(n, ast.Assign) and isinstance(n.targets[0], ast.Attribute) and n.targets[0].attr == "_used_vars" and not (isinstance(n.value, ast.Constant) and n.value.value is None):
                if norm(n.targets[0].value) == "self":
                    continue  # the lazy computation inside Statement.used_variables
                n_copies += 1
                ctx.analysed(fn)
                dst = norm(n.targets[0].value)
                src = norm(n.value.value) if isinstance(n.value, ast.Attribute) and n.value.attr == "_used_vars" else None
                ok = False
                why = "the right-hand side is not another statement's cache"
                if src is not None:
                    cons = [a for a in own_nodes(fn) if isinstance(a, ast.Assign) and norm(a.targets[0]) == dst and isinstance(a.value, ast.Call) and norm(a.value.func).endswith("Statement")]
                    if len(cons) == 1:
                        node_kw = next((norm(k.value) for k in cons[0].value.keywords if k.arg == "node"), norm(cons[0].value.args[0]) if cons[0].value.args else None)
                        ok = node_kw == f"{src}.node"
                        why = f"`{dst}` is built with node={node_kw}, not {src}.node: the copied read set describes another syntax tree (e.g. the names before renaming)"
                    else:
                        why = f"construction of `{dst}` not found"
                ctx.check("C15.read-cache", n, ok, f"{mod.name}:{qn}: `{norm(n)}` - {why}; dependency analysis (forward_dependencies, graceful deletion, unused-variable removal, head-reference resolution) then works on stale names", what=f"{qn}: read set copied with the same node")
    if n_copies == 0:
        raise AnalysisError("no copy of Statement._used_vars found (TestCase.clone used to propagate it)")

    # ------------------------------------------------------------------ C15.names
    for name, fn in repo.methods(tcc).items():
        for c in own_nodes(fn):
            if isinstance(c, ast.Call) and norm(c.func) in ("Statement", "dataclasses.replace"):
                ctx.analysed(fn)
                if norm(c.func) == "dataclasses.replace":
                    kw = next((k.value for k in c.keywords if k.arg == "bound_variable"), None)
                    ok = kw is None or norm(kw) == "None"
                    ctx.check("C15.names", c, ok, f"TestCase.{name}: dataclasses.replace rebinds the statement to `{norm(kw) if kw is not None else ''}`", what=f"{name}: replace keeps or clears the binding")
                    continue
                kw = next((k.value for k in c.keywords if k.arg == "bound_variable"), None)
                if kw is None:
                    ctx.ok("C15.names", c, f"{name}: statement without binding")
                    continue
                t = norm(kw)
                ok = t == "None" or re.fullmatch(r"\w+\.bound_variable", t) is not None
                if not ok and isinstance(kw, ast.Name):
                    defs = [norm(a.value) for a in own_nodes(fn) if isinstance(a, ast.Assign) and norm(a.targets[0]) == kw.id]
                    ok = bool(defs) and all(d == "self.next_var_name()" or re.fullmatch(r"\w+\.bound_variable", d) or d == "None" or (d in [norm(x.targets[0]) for x in own_nodes(fn) if isinstance(x, ast.Assign) and norm(x.value) == "self.next_var_name()"]) for d in defs)
                ctx.check("C15.names", c, ok, f"TestCase.{name}: a statement is built with bound_variable={t}, which is neither a fresh name from next_var_name() nor the binding of the statement it replaces: names can collide", what=f"{name}: binding from next_var_name() or the replaced statement")
    nv = repo.methods(tcc)["next_var_name"]
    ctx.analysed(nv)
    inc = [n for n in own_nodes(nv) if isinstance(n, ast.AugAssign) and norm(n.target) == "self._var_counter" and isinstance(n.op, ast.Add)]
    ctx.check("C15.names", nv, len(inc) == 1, "next_var_name no longer advances the counter exactly once per name", what="next_var_name advances the counter")
    cl = repo.methods(tcc)["clone"]
    ctx.check("C15.names", cl, any(isinstance(n, ast.Assign) and norm(n) == "tc._var_counter = self._var_counter" for n in own_nodes(cl)), "clone does not carry the name counter over: the clone hands out names that are already bound", what="clone copies the name counter", stmt="[counter]")

    # ------------------------------------------------------------------ C15.length
    sp = repo.func(CROSS, "splice_test_case_chromosomes")
    ctx.analysed(sp)
    cfg = CFG(sp)
    installs = [n for n in cfg.nodes if n.kind == "stmt" and isinstance(n.stmt, ast.Assign) and norm(n.stmt.targets[0]).endswith(".test_case")]
    if not installs:
        raise AnalysisError("splice_test_case_chromosomes: installation of the offspring not found")
    for inst in installs:
        off = norm(inst.stmt.value)

        def fresh_size(lit, off=off):
            _k, e, pol = lit
            return pol and isinstance(e, ast.Compare) and isinstance(e.ops[0], ast.Lt) and norm(e.left) == f"{off}.size()" and norm(e.comparators[0]).endswith("chromosome_length")

        p = unguarded_path(cfg, [inst.id], fresh_size)
        ctx.paths += 1
        ok = p is None
        why = f"`{norm(inst.stmt)}` is reachable without `{off}.size() < chromosome_length` evaluated on the finished offspring (a size remembered before statements were appended does not bound the result)"
        if ok:
            # no change of the offspring between the guard and the installation
            guards = [n for n in cfg.nodes if n.kind == "test" and f"{off}.size()" in norm(n.stmt.test) and "chromosome_length" in norm(n.stmt.test)]
            muts = {n.id for n in cfg.nodes if n.kind == "stmt" and n.stmt is not None and any(isinstance(c, ast.Call) and last_attr(c) in TC_MUTATORS and norm(c.func.value) == off for c in ast.walk(n.stmt))}
            for g in guards:
                if cfg.path([b for b, lab in cfg.succ[g.id] if lab == "true"], [inst.id], avoid_nodes=set()) is not None:
                    reach = cfg.reachable([b for b, lab in cfg.succ[g.id] if lab == "true"])
                    if any(mn in reach and inst.id in cfg.reachable([mn]) for mn in muts):
                        ok = False
                        why = "the offspring is changed after the length guard"
        ctx.check("C15.length", inst.stmt, ok, f"crossover: {why}: a test case longer than the configured maximum is installed", what="offspring installed only under a fresh size < maximum", path=cfg.describe_path(p) if p else [])
    for m_, qn in ((MUT, "TestCaseMutation._mutation_insert"), (TCF, "RandomLengthTestCaseFactory.get_test_case")):
        fn = repo.func(m_, qn)
        ctx.analysed(fn)
        loops = [n for n in own_nodes(fn) if isinstance(n, ast.While) and any(isinstance(c, ast.Call) and last_attr(c) == "insert_random_statement" for c in ast.walk(n))]
        ok = len(loops) == 1
        if ok:
            conj = [norm(v) for v in (loops[0].test.values if isinstance(loops[0].test, ast.BoolOp) and isinstance(loops[0].test.op, ast.And) else [loops[0].test])]
            ok = any(re.fullmatch(r"\w+(\.\w+)*\.size\(\) < .+", c) for c in conj)
        ctx.check("C15.length", loops[0] if loops else fn, ok, f"{qn}: the insertion loop no longer re-tests `<test case>.size() < <limit>` as a conjunct of its condition before every insertion", what=f"{qn}: size re-tested before every insertion")
