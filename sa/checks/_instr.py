"""Shared model of pynguin's bytecode instrumentation templates (used by C01, C02, C03, C09).

 * the instruction generators (Python31xInstrumentationInstructionsGenerator) are interpreted from
   source (sa.engine.peval) - never imported - for concrete setup actions and method calls; the
   result is the literal sequence of artificial instructions they splice into the module under test;
 * a symbolic operand stack runs such a sequence (semantics table for the opcodes that may appear);
 * the call sites of generate_instructions / generate_overriding_instructions in the adapters are
   extracted with their setup action, their arguments, their placement (before / after / override)
   and the opcodes of the enclosing `case` arm.
"""

from __future__ import annotations

import ast
import enum
import itertools

from sa.engine import peval
from sa.engine.index import AnalysisError, last_attr, norm, own_nodes, parent

COMMON = "pynguin.instrumentation.version.common"
VERSIONS = ["python3_10", "python3_11", "python3_12", "python3_13", "python3_14"]
VMOD = "pynguin.instrumentation.version."
ADAPTERS = ["BranchCoverageInstrumentation", "LineCoverageInstrumentation", "CheckedCoverageInstrumentation", "DynamicSeedingInstrumentation"]
ARG_CLASSES = {"InstrumentationConstantLoad", "InstrumentationFastLoad", "InstrumentationFastLoadTuple", "InstrumentationNameLoad", "InstrumentationGlobalLoad",
               "InstrumentationDeref", "InstrumentationClassDeref", "InstrumentationMethodCall"}


def running_version() -> str:
    import sys

    v = f"python3_{sys.version_info.minor}"
    return v if v in VERSIONS else VERSIONS[-1]


# ---------------------------------------------------------------------------------------------- enums
def build_enum(repo, module: str, name: str):
    """A real IntEnum with the members of an enum class of the analysed package (auto() counts from 1)."""
    cls = repo.cls(module, name)
    members = {}
    nxt = 1
    for s in cls.body:
        if isinstance(s, ast.Assign) and len(s.targets) == 1 and isinstance(s.targets[0], ast.Name):
            v = s.value
            if isinstance(v, ast.Constant) and isinstance(v.value, int):
                members[s.targets[0].id] = v.value
                nxt = v.value + 1
            elif isinstance(v, ast.Call) and norm(v.func).endswith("auto"):
                members[s.targets[0].id] = nxt
                nxt += 1
            else:
                raise AnalysisError(f"{name}.{s.targets[0].id}: value `{norm(v)}` is neither an int nor auto()")
    if not members:
        raise AnalysisError(f"{name}: no members")
    return enum.IntEnum(name, members)


class Generators:
    """Interprets the instruction generators of one version module."""

    def __init__(self, repo, version: str):
        self.repo = repo
        self.version = version
        self.mod = repo.module(VMOD + version)
        gen = [c for c in self.mod.classes if c.endswith("InstrumentationInstructionsGenerator")]
        if len(gen) != 1:
            raise AnalysisError(f"{version}: expected one instruction generator class, found {gen}")
        self.gen_name = gen[0]
        self.Action = build_enum(repo, COMMON, "InstrumentationSetupAction")
        self.StackValue = build_enum(repo, COMMON, "InstrumentationStackValue")
        self.consts = {"BinaryOp.ADD.value": 0, "InstrumentationStackValue": self.StackValue, "InstrumentationSetupAction": self.Action}
        for m in self.Action:
            self.consts[f"InstrumentationSetupAction.{m.name}"] = m
        for m in self.StackValue:
            self.consts[f"InstrumentationStackValue.{m.name}"] = m
        self.cres = peval.repo_class_resolver(repo, only=ARG_CLASSES | {self.gen_name})
        self.resolver = peval.repo_resolver(repo)

    def generator_functions(self):
        out = []
        for m, c in self.repo.mro(self.mod.name, self.gen_name):
            cdef = self.repo.modules[m].classes[c]
            out.extend(s for s in cdef.body if isinstance(s, ast.FunctionDef))
        return out

    def _interp(self):
        return peval.Interp(
            resolver=self.resolver,
            class_resolver=self.cres,
            ctor_prefixes=("cf.ArtificialInstr",),
            consts=self.consts,
            externs={"chain": lambda *a: [x for s in a for x in s]},
            max_steps=200000,
        )

    def _gen(self, it):
        mro = [(self.repo.modules[m].classes[c], self.repo.modules[m]) for m, c in self.repo.mro(self.mod.name, self.gen_name)]
        return it.instantiate(self.gen_name, mro, [], {})

    def make_arg(self, it, kind: str, payload=None):
        if kind.startswith("STACK:"):
            return self.StackValue[kind.split(":")[1]]
        common = self.repo.module(COMMON)
        mro = self.cres(kind, common)
        if not mro:
            raise AnalysisError(f"argument class {kind} vanished from {COMMON}")
        return it.instantiate(kind, mro, [payload if payload is not None else f"<{kind}>"], {})

    def method_call(self, it, args):
        common = self.repo.module(COMMON)
        return it.instantiate("InstrumentationMethodCall", self.cres("InstrumentationMethodCall", common), ["<tracer>", "<method>", tuple(args)], {})

    def sequence(self, action: str, arg_kinds, overriding: bool):
        """-> list of (opname, arg) with the marker ("<INSTR>", None) for the overridden instruction."""
        it = self._interp()
        gen = self._gen(it)
        args = [self.make_arg(it, a[0], a[1]) for a in arg_kinds]
        mc = self.method_call(it, args)
        act = self.Action[action]
        if overriding:
            res = gen.methods["generate_overriding_instructions"](act, "<INSTR>", mc, 7)
        else:
            res = gen.methods["generate_instructions"](act, mc, 7)
        out = []
        for t in res:
            if t == "<INSTR>":
                out.append(("<INSTR>", None))
            elif isinstance(t, peval.Term) and t.name == "ArtificialInstr":
                out.append((t.fields.get("name"), t.fields.get("arg")))
            else:
                raise peval.Undecided(f"generator produced `{t!r}`")
        return out


# ---------------------------------------------------------------------------------------------- stack machine
class StackError(Exception):
    pass


def run_stack(seq, stack, instr_effect=None):
    """Run (opname, arg) pairs over a symbolic stack (list, last = top).  Returns (stack, calls, consumed)
    where calls = [(callable symbols, argument symbols)] and consumed = operands the overridden instruction popped."""
    st = list(stack)
    calls = []
    consumed = None
    fresh = itertools.count(1)

    def pop(n=1):
        if len(st) < n:
            raise StackError("operand stack underflow")
        vals = st[len(st) - n:]
        del st[len(st) - n:]
        return vals

    for op, arg in seq:
        if op == "<INSTR>":
            p, q = instr_effect
            consumed = pop(p)
            st.extend(f"r{i + 1}" for i in range(q))
        elif op in ("COPY",):
            if not isinstance(arg, int) or arg < 1 or arg > len(st):
                raise StackError(f"COPY {arg} reaches below the modelled stack")
            st.append(st[-arg])
        elif op == "SWAP":
            if not isinstance(arg, int) or arg < 2 or arg > len(st):
                raise StackError(f"SWAP {arg} reaches below the modelled stack")
            st[-1], st[-arg] = st[-arg], st[-1]
        elif op == "POP_TOP":
            pop()
        elif op == "DUP_TOP":
            st.append(st[-1])
        elif op == "DUP_TOP_TWO":
            st.extend(st[-2:])
        elif op == "ROT_TWO":
            a, b = pop(2)
            st.extend([b, a])
        elif op == "ROT_THREE":
            a, b, c = pop(3)
            st.extend([c, a, b])
        elif op == "ROT_FOUR":
            a, b, c, d = pop(4)
            st.extend([d, a, b, c])
        elif op in ("LOAD_CONST", "LOAD_FAST", "LOAD_FAST_CHECK", "LOAD_NAME", "LOAD_DEREF", "LOAD_CLASSDEREF", "LOAD_LOCALS", "LOAD_GLOBAL"):
            if op == "LOAD_GLOBAL" and isinstance(arg, tuple) and arg and arg[0] is True:
                st.append("NULL")
            st.append(f"{op.lower()}#{next(fresh)}")
        elif op == "LOAD_FAST_LOAD_FAST":
            st.extend([f"load_fast#{next(fresh)}", f"load_fast#{next(fresh)}"])
        elif op == "LOAD_FROM_DICT_OR_DEREF":
            pop()
            st.append(f"deref#{next(fresh)}")
        elif op == "BUILD_TUPLE":
            vals = pop(arg)
            st.append("tuple(" + ",".join(vals) + ")")
        elif op == "LOAD_METHOD" or (op == "LOAD_ATTR" and isinstance(arg, tuple) and arg and arg[0] is True):
            (recv,) = pop()
            st.extend([f"method<{recv}>", f"self<{recv}>"])
        elif op == "PRECALL":
            pass
        elif op in ("CALL", "CALL_METHOD"):
            vals = pop(arg)
            fn = pop(2)
            if not (fn[0].startswith("method<") and fn[1].startswith("self<")):
                raise StackError(f"{op} {arg}: the callable slots hold {fn}, not the tracer method")
            calls.append((fn, vals))
            st.append(f"ret#{next(fresh)}")
        elif op in ("BINARY_ADD", "BINARY_OP"):
            a, b = pop(2)
            st.append(f"({a} <op> {b})")
        else:
            raise peval.Undecided(f"opcode {op} is not in the stack model")
    return st, calls, consumed


# (reads before the instruction, pushes after it) for the opcodes adapters splice around
OPERANDS = {
    "LOAD_ATTR": (1, 1), "LOAD_METHOD": (1, 2), "DELETE_ATTR": (1, 0), "IMPORT_FROM": (1, 2), "LOAD_SUPER_ATTR": (3, 1), "STORE_ATTR": (2, 0),
    "STORE_SUBSCR": (3, 0), "DELETE_SUBSCR": (2, 0), "BINARY_SUBSCR": (2, 1), "STORE_SLICE": (4, 0), "BINARY_SLICE": (3, 1), "IMPORT_NAME": (2, 1),
    "LOAD_FAST": (0, 1), "LOAD_FAST_CHECK": (0, 1), "LOAD_FAST_AND_CLEAR": (0, 1), "STORE_FAST": (1, 0), "DELETE_FAST": (0, 0),
    "LOAD_NAME": (0, 1), "STORE_NAME": (1, 0), "DELETE_NAME": (0, 0), "LOAD_GLOBAL": (0, 1), "STORE_GLOBAL": (1, 0), "DELETE_GLOBAL": (0, 0),
    "LOAD_DEREF": (0, 1), "STORE_DEREF": (1, 0), "DELETE_DEREF": (0, 0), "LOAD_CLASSDEREF": (0, 1), "LOAD_FROM_DICT_OR_DEREF": (1, 1),
    "LOAD_FAST_BORROW": (0, 1), "LOAD_FAST_BORROW_LOAD_FAST_BORROW": (0, 2), "LOAD_FAST_LOAD_FAST": (0, 2), "STORE_FAST_STORE_FAST": (2, 0), "STORE_FAST_LOAD_FAST": (1, 1),
}


# ---------------------------------------------------------------------------------------------- call sites
class Site:
    def __init__(self, fn, call, overriding, action, arg_alts, placement, opcodes, index_expr, method):
        self.fn, self.call, self.overriding, self.action, self.arg_alts = fn, call, overriding, action, arg_alts
        self.placement, self.opcodes, self.index_expr, self.method = placement, opcodes, index_expr, method

    def variants(self, opcode=None):
        """Argument tuples (kind, payload, cond) possible for the given opcode of the arm."""
        alts = [[a for a in alt if cond_holds(a[2], opcode)] for alt in self.arg_alts]
        return list(itertools.product(*alts)) if alts else [()]

    def label(self):
        ops = "|".join(self.opcodes) if self.opcodes else "-"
        return f"{self.fn._qualname}[{ops}] {self.placement}"


def _single_assignment(fn, name):
    vals = [s.value for s in own_nodes(fn) if isinstance(s, ast.Assign) and len(s.targets) == 1 and norm(s.targets[0]) == name]
    return vals[0] if len(vals) == 1 else None


def _arg_alternatives(fn, e, cond=()):
    """An element of the argument tuple -> list of (kind, payload, cond) alternatives; cond = ((test, polarity), ...)."""
    if isinstance(e, ast.IfExp):
        return _arg_alternatives(fn, e.body, (*cond, (e.test, True))) + _arg_alternatives(fn, e.orelse, (*cond, (e.test, False)))
    if isinstance(e, ast.Attribute) and norm(e.value) == "InstrumentationStackValue":
        return [(f"STACK:{e.attr}", None, cond)]
    if isinstance(e, ast.Call):
        k = last_attr(e) if isinstance(e.func, ast.Attribute) else norm(e.func)
        if k == "InstrumentationFastLoadTuple":
            return [(k, ("a", "b"), cond), (k, "a", cond)]
        if k in ARG_CLASSES:
            return [(k, None, cond)]
    if isinstance(e, ast.Name):
        v = _single_assignment(fn, e.id)
        if v is not None:
            return _arg_alternatives(fn, v, cond)
    raise AnalysisError(f"{fn._qualname}: instrumentation argument `{norm(e)}` is not understood")


def cond_holds(cond, opcode):
    """False if a condition of the form `instr.name == "X"` / `instr.name in (...)` contradicts the opcode; True otherwise."""
    for test, pol in cond:
        if opcode is None:
            continue
        val = None
        if isinstance(test, ast.Compare) and len(test.ops) == 1 and norm(test.left) == "instr.name":
            rhs = test.comparators[0]
            if isinstance(test.ops[0], ast.Eq) and isinstance(rhs, ast.Constant):
                val = opcode == rhs.value
            elif isinstance(test.ops[0], ast.NotEq) and isinstance(rhs, ast.Constant):
                val = opcode != rhs.value
            elif isinstance(test.ops[0], (ast.In, ast.NotIn)) and isinstance(rhs, (ast.Tuple, ast.Set, ast.List)) and all(isinstance(x, ast.Constant) for x in rhs.elts):
                val = (opcode in [x.value for x in rhs.elts]) == isinstance(test.ops[0], ast.In)
        if val is not None and val != pol:
            return False
    return True


def _method_call_parts(fn, e):
    if isinstance(e, ast.Name):
        v = _single_assignment(fn, e.id)
        if v is None:
            raise AnalysisError(f"{fn._qualname}: method call `{e.id}` has no single definition")
        e = v
    if not (isinstance(e, ast.Call) and norm(e.func).endswith("InstrumentationMethodCall") and len(e.args) == 3 and isinstance(e.args[2], ast.Tuple)):
        raise AnalysisError(f"{fn._qualname}: `{norm(e)[:60]}` is not an InstrumentationMethodCall(receiver, name, (args...))")
    meth = norm(e.args[1])
    meth = meth[: -len(".__name__")].split(".")[-1] if meth.endswith(".__name__") else meth
    return norm(e.args[0]), meth, [_arg_alternatives(fn, a) for a in e.args[2].elts]


def _case_opcodes(node):
    """Opcode names of the innermost enclosing `case "A" | "B":` arm (match over instr.name)."""
    n = node
    while n is not None:
        p = parent(n)
        if isinstance(p, ast.match_case) and n in p.body:
            pats = p.pattern.patterns if isinstance(p.pattern, ast.MatchOr) else [p.pattern]
            names = [x.value.value for x in pats if isinstance(x, ast.MatchValue) and isinstance(x.value, ast.Constant) and isinstance(x.value.value, str)]
            if names:
                return names
        n = p
    return []


def sites_in(fn):
    """Call sites of generate_instructions / generate_overriding_instructions on an instruction generator in `fn`."""
    out = []
    for c in own_nodes(fn):
        if not (isinstance(c, ast.Call) and isinstance(c.func, ast.Attribute) and c.func.attr in ("generate_instructions", "generate_overriding_instructions")):
            continue
        if not norm(c.func.value).endswith("instructions_generator"):
            continue
        overriding = c.func.attr == "generate_overriding_instructions"
        act = norm(c.args[0])
        if not act.startswith("InstrumentationSetupAction."):
            raise AnalysisError(f"{fn._qualname}: setup action `{act}` is not a literal member")
        _recv, meth, alts = _method_call_parts(fn, c.args[2 if overriding else 1])
        # placement: the call (or the variable / starred tuple holding it) is assigned to X[before|after|override(i)]
        placements = []
        holder = c
        p = parent(c)
        while isinstance(p, (ast.Starred, ast.Tuple)):
            holder, p = p, parent(p)
        if isinstance(p, ast.Assign) and isinstance(p.targets[0], ast.Subscript):
            placements.append((p, p.targets[0]))
        elif isinstance(p, ast.Assign) and isinstance(p.targets[0], ast.Name):
            var = p.targets[0].id
            for s in own_nodes(fn):
                if isinstance(s, ast.Assign) and isinstance(s.targets[0], ast.Subscript) and norm(s.value) == var:
                    placements.append((s, s.targets[0]))
        elif isinstance(p, ast.Return):
            placements.append((p, None))
        if not placements:
            raise AnalysisError(f"{fn._qualname}: instrumentation at line {c.lineno} is never spliced into a basic block")
        for stmt, sub in placements:
            if sub is None:
                out.append(Site(fn, c, overriding, act.split(".")[1], alts, "returned", _case_opcodes(stmt), None, meth))
                continue
            sl = sub.slice
            if not (isinstance(sl, ast.Call) and norm(sl.func) in ("before", "after", "override") and len(sl.args) == 1):
                raise AnalysisError(f"{fn._qualname}: splice target `{norm(sub)}` does not use before/after/override")
            out.append(Site(fn, c, overriding, act.split(".")[1], alts, norm(sl.func), _case_opcodes(stmt), sl.args[0], meth))
    return out


def effective_functions(repo, version: str, adapter: str):
    """Functions of an adapter class that are effective for a version: MRO-first definition per name, the functions its
    METHODS table refers to, and the definitions reached through super().name(...) from those."""
    modname = VMOD + version
    mod = repo.module(modname)
    if adapter not in mod.classes:
        return []
    mro = repo.mro(modname, adapter)
    eff = {}
    for m, c in mro:
        for name, fn in repo.methods(repo.modules[m].classes[c]).items():
            eff.setdefault(name, fn)
    picked = {id(f): f for f in eff.values()}
    tab = repo.class_attr(modname, adapter, "METHODS")
    if tab is not None and isinstance(tab[2], ast.Dict):
        tm, tc, d = tab
        tmod = repo.modules[tm]
        for v in d.values:
            t = norm(v)
            fn = None
            if isinstance(v, ast.Name):
                fn = repo.methods(tmod.classes[tc]).get(v.id)
            else:
                r = repo.resolve_name(tmod, t.rsplit(".", 1)[0])
                if r and r[0] in repo.modules and r[1] in repo.modules[r[0]].classes:
                    rm = repo.resolve_method(r[0], r[1], t.rsplit(".", 1)[1])
                    fn = rm[2] if rm else None
            if fn is None:
                raise AnalysisError(f"{version}.{adapter}.METHODS: `{t}` does not resolve to a method")
            picked[id(fn)] = fn
    # super() chains
    changed = True
    while changed:
        changed = False
        for fn in list(picked.values()):
            for c in own_nodes(fn):
                if isinstance(c, ast.Call) and norm(c.func).startswith("super()."):
                    name = c.func.attr
                    cls = getattr(fn, "_class", None)
                    owner = next(((m, k) for m, k in mro if repo.modules[m].classes[k] is cls), None)
                    chain = mro[mro.index(owner) + 1:] if owner in mro else []
                    for m, k in chain:
                        f2 = repo.methods(repo.modules[m].classes[k]).get(name)
                        if f2 is not None:
                            if id(f2) not in picked:
                                picked[id(f2)] = f2
                                changed = True
                            break
    return list(picked.values())


# ---------------------------------------------------------------------------------------------- basic-block nodes as keys
def node_key_uses(repo, module_prefixes):
    """BasicBlockNode compares and hashes by its index only, i.e. it identifies a block within ONE code object.
    Yields (ast node, ok: bool, description) for every place in the given modules where a node is used as the key of a
    mapping / member of a set: ok iff the container is restricted to one code object (a comprehension filtered by
    code_object_id) or the key carries the code object id; a container stored on `self` that is keyed by a bare node is not."""
    for mname, mod in repo.modules.items():
        if not mname.startswith(tuple(module_prefixes)):
            continue
        for qn, fn in mod.functions.items():
            typed = set()
            for a in [*fn.args.posonlyargs, *fn.args.args, *fn.args.kwonlyargs]:
                if a.annotation is not None and ("BasicBlockNode" in norm(a.annotation) or "ProgramNode" in norm(a.annotation)):
                    typed.add(a.arg)
            for n in own_nodes(fn):
                if isinstance(n, ast.AnnAssign) and isinstance(n.target, ast.Name) and "BasicBlockNode" in norm(n.annotation):
                    typed.add(n.target.id)
                if isinstance(n, ast.Assign) and isinstance(n.value, ast.Call) and len(n.targets) == 1:
                    # typed through the return annotation of the called function / method (same class or same module)
                    callee = None
                    cname = norm(n.value.func)
                    cls = getattr(fn, "_class", None)
                    if cname.startswith("self.") and cls is not None:
                        callee = repo.methods(cls).get(cname[5:])
                    elif cname in mod.functions:
                        callee = mod.functions[cname]
                    elif cname.endswith((".get_basic_block_node", ".first_basic_block_node")):
                        typed.update(t.id for t in ast.walk(n.targets[0]) if isinstance(t, ast.Name))
                    ret = norm(callee.returns) if callee is not None and callee.returns is not None else ""
                    if "BasicBlockNode" in ret:
                        tgt = n.targets[0]
                        if isinstance(tgt, ast.Name):
                            typed.add(tgt.id)
                        elif isinstance(tgt, ast.Tuple) and isinstance(callee.returns, ast.Subscript) and isinstance(callee.returns.slice, ast.Tuple):
                            for t, ann in zip(tgt.elts, callee.returns.slice.elts):
                                if isinstance(t, ast.Name) and "BasicBlockNode" in norm(ann):
                                    typed.add(t.id)
                if isinstance(n, (ast.For, ast.comprehension)) and norm(n.iter).endswith(".basic_block_nodes"):
                    for t in ast.walk(n.target):
                        if isinstance(t, ast.Name):
                            typed.add(t.id)

            def is_node(e):
                return (isinstance(e, ast.Name) and e.id in typed) or (isinstance(e, ast.Attribute) and e.attr == "node")

            def carries_code_object(e):
                return isinstance(e, ast.Tuple) and any("code_object" in norm(x) for x in e.elts)

            for n in own_nodes(fn):
                if isinstance(n, ast.DictComp) and is_node(n.key):
                    filt = any("code_object_id" in norm(c) and isinstance(c, ast.Compare) for g in n.generators for c in g.ifs)
                    yield n, filt, f"{qn}: mapping keyed by `{norm(n.key)}` built over `{norm(n.generators[0].iter)[:50]}`" + ("" if filt else " without restricting the entries to one code object")
                if isinstance(n, (ast.SetComp,)) and is_node(n.elt):
                    filt = any("code_object_id" in norm(c) for g in n.generators for c in g.ifs)
                    yield n, filt, f"{qn}: set of `{norm(n.elt)}`" + ("" if filt else " over several code objects")
                key = cont = None
                if isinstance(n, ast.Subscript) and norm(n.value).startswith("self."):
                    key, cont = n.slice, n.value
                elif isinstance(n, ast.Call) and isinstance(n.func, ast.Attribute) and n.func.attr in ("get", "setdefault", "pop", "add", "discard") and norm(n.func.value).startswith("self.") and n.args:
                    key, cont = n.args[0], n.func.value
                elif isinstance(n, ast.Compare) and len(n.ops) == 1 and isinstance(n.ops[0], (ast.In, ast.NotIn)) and norm(n.comparators[0]).startswith("self."):
                    key, cont = n.left, n.comparators[0]
                if key is not None and (is_node(key) or (isinstance(key, ast.Tuple) and any(is_node(x) for x in key.elts))):
                    if "graph" in norm(cont) or "_graph" in norm(cont):
                        continue  # a graph holds the nodes of one code object
                    ok = carries_code_object(key)
                    yield n, ok, f"{qn}: `{norm(cont)}` keyed by `{norm(key)}`" + ("" if ok else " - the container outlives one code object, blocks with the same index of different code objects share the entry")
