"""C18 — generated test files import cleanly and pass (no name used without an import).

Decides the clause "no test fails because of names that are not imported": every global name
an emitted template refers to (`pytest`, `sys`, `random`, exception classes, SUT names) has its
import statement emitted on every path on which the template can be emitted, and assertions
that did not hold when replayed are removed whatever the kind of failure; the enum classes that
rendered assertions name bare (`Color.RED`) are collected - collector found by behaviour and
interpreted over nested values - for every assertion and fed to the emitted from-imports; the
public-name import lists attributes of the module only and never the alias; the exception types to
import are accumulated over all test cases.  That the tests pass is not decided.
Further clauses (added later): The filter that removes non-holding assertions is called unconditionally before
export. C18.exc-import evaluates the writer's own reference / import expressions over a top-level, a nested
and a function-local exception class.
"""

from __future__ import annotations

import ast
import re

from sa.engine.cfg import CFG
from sa.engine.guards import nnf
from sa.engine.index import AnalysisError, last_attr, norm, own_nodes, parent

EX = "pynguin.testcase.export"
A2A = "pynguin.assertion.assertion_to_ast"
AG = "pynguin.assertion.assertiongenerator"
WRITER = "TestSuiteWriter"


def _uses_name_in_templates(repo, mod, fn, name: str, seen=None) -> bool:
    """fn (transitively through same-module helpers) builds cst.Name("<name>") or parses a template mentioning `<name>.`"""
    seen = seen or set()
    if id(fn) in seen:
        return False
    seen.add(id(fn))
    for n in ast.walk(fn):
        if isinstance(n, ast.Call) and norm(n.func) in ("cst.Name", "Name") and n.args and isinstance(n.args[0], ast.Constant) and n.args[0].value == name:
            return True
        if isinstance(n, ast.Constant) and isinstance(n.value, str) and re.search(rf"(^|[^\w.]){re.escape(name)}\.", n.value) and not isinstance(parent(n), ast.Expr):
            return True
        if isinstance(n, ast.Call):
            callee = None
            if isinstance(n.func, ast.Name):
                callee = mod.functions.get(n.func.id)
            elif isinstance(n.func, ast.Attribute) and norm(n.func.value) in ("self", "cls", WRITER):
                callee = mod.functions.get(f"{WRITER}.{n.func.attr}")
            if callee is not None and _uses_name_in_templates(repo, mod, callee, name, seen):
                return True
    return False


def _enclosing_conditions(stmt, stop):
    """[(test expr, polarity)] of the if-statements enclosing stmt up to `stop`."""
    out = []
    n, p = stmt, parent(stmt)
    while p is not None and p is not stop:
        if isinstance(p, ast.If):
            if n in p.body:
                out.append((p.test, True))
            elif n in p.orelse:
                out.append((p.test, False))
        n, p = p, parent(p)
    return out


def check(ctx) -> None:
    repo = ctx.repo
    ctx.rule("C18.pytest-flag", "needs_pytest is a sticky flag (False before the loop, only ever set to True inside it) with a trigger for every template that uses `pytest`; `import pytest` is emitted whenever the flag is set or the seed fixture is emitted", floor=7)
    ctx.rule("C18.module-body", "every cst.Module(body=...) built by the writer lists the import statements before the code that uses the imported names (sys before the alias binding, random/pytest before the seed patch and fixture, SUT and exception imports before the test functions)", floor=6)
    ctx.rule("C18.exc-import", "every exception class named in pytest.raises(...) is recorded and imported unless it is a builtin - no other exclusion; the rendered reference and the imported name agree and resolve for top-level, nested and function-local exception classes (writer's expressions evaluated over representatives)", floor=6)
    ctx.rule("C18.namespace-agree", "the statement re-execution namespace and the rendered import bind the same SUT names (one shared helper)", floor=2)
    ctx.rule("C18.public-names", "ABSINT: _public_sut_names yields only attributes of the module, each once, and never the module alias (the rendered from-import must succeed and must not rebind the alias)", floor=1)
    _public_names(ctx, repo)
    ctx.rule("C18.enum-import", "ABSINT + def-use: the writer has a collector that, interpreted over asserted values (enum members bare and nested in list / tuple / set / dict keys and values), yields every enum class the rendering names; write applies it to the asserted value of every assertion and what it yields feeds the emitted from-imports", floor=8)
    _enum_imports(ctx, repo)
    ctx.rule("C18.accumulate", "the exception types collected for the import lines are accumulated over all test cases (the accumulator is only updated inside the per-test loop, never rebound)", floor=1)
    _accumulate(ctx, repo)
    ctx.rule("C18.non-holding", "assertions that failed AND assertions that raised when replayed are both removed, each guarded only by its own membership test", floor=3)

    mod = repo.module(EX)
    write = repo.func(EX, f"{WRITER}.write")
    btf = repo.func(EX, f"{WRITER}._build_test_function")
    ctx.analysed(write)
    ctx.analysed(btf)

    # ------------------------------------------------------------------ C18.pytest-flag
    flag = "needs_pytest"
    assigns = [n for n in own_nodes(write) if isinstance(n, (ast.Assign, ast.AugAssign, ast.AnnAssign)) and any(isinstance(t, ast.Name) and t.id == flag for t in (n.targets if isinstance(n, ast.Assign) else [n.target]))]
    if not assigns:
        raise AnalysisError("TestSuiteWriter.write no longer has a needs_pytest flag: rule C18.pytest-flag cannot interpret the writer")

    def in_loop(n):
        p = parent(n)
        while p is not None and p is not write:
            if isinstance(p, (ast.For, ast.While)):
                return True
            p = parent(p)
        return False

    for a in assigns:
        val = norm(a.value) if a.value is not None else ""
        sticky = val == "True" or (isinstance(a, ast.AugAssign) and isinstance(a.op, ast.BitOr)) or re.fullmatch(rf"{flag} or .+", val) is not None or re.fullmatch(rf".+ or {flag}", val) is not None
        if in_loop(a):
            ctx.check("C18.pytest-flag", a, sticky, f"`{norm(a)[:100]}` inside the per-test-case loop overwrites the flag: a later test case without pytest usage clears what an earlier one required, and `import pytest` is omitted", what="flag only raised inside the loop")
        else:
            ctx.check("C18.pytest-flag", a, sticky or val == "False", f"`{norm(a)[:100]}`: unexpected value for the flag", what=f"flag assignment `{val}` outside the loop")
    first = min(assigns, key=lambda a: a.lineno)
    ctx.check("C18.pytest-flag", first, norm(first.value) == "False" and not in_loop(first), "needs_pytest is not initialised to False before the loop", what="initialised False before the loop", stmt="[init]")

    # triggers: (a) some statement raised, (b) every assertion class rendered with pytest
    def trigger_tests():
        out = []
        for a in assigns:
            if norm(a.value) != "True":
                continue
            for test, pol in _enclosing_conditions(a, write):
                if pol:
                    out.append(test)
        return out

    tests = trigger_tests()
    exc_trigger = [t for t in tests if isinstance(t, ast.Call) and norm(t.func) == "any" and "exc_types" in norm(t)]
    ctx.check("C18.pytest-flag", write, bool(exc_trigger), "no trigger raises needs_pytest when a statement raised (pytest.raises / pytest.mark.xfail are then emitted without `import pytest`)", what="trigger: any statement raised", stmt="[trigger-exc]")
    a2a = repo.module(A2A)
    disp = repo.func(A2A, "assertion_to_cst")
    ctx.analysed(disp)
    pytest_classes = []
    for n in own_nodes(disp):
        if isinstance(n, ast.If) and isinstance(n.test, ast.Call) and norm(n.test.func) == "isinstance":
            cls = norm(n.test.args[1]).split(".")[-1]
            for r in ast.walk(n):
                if isinstance(r, ast.Return) and isinstance(r.value, ast.Call) and isinstance(r.value.func, ast.Name):
                    helper = a2a.functions.get(r.value.func.id)
                    if helper is not None and _uses_name_in_templates(repo, a2a, helper, "pytest"):
                        pytest_classes.append(cls)
    if not pytest_classes:
        raise AnalysisError("no assertion renderer uses pytest any more: C18.pytest-flag trigger table is empty")
    for cls in pytest_classes:
        hit = None
        for t in tests:
            if isinstance(t, ast.Call) and norm(t.func) == "any" and t.args and isinstance(t.args[0], ast.GeneratorExp):
                ge = t.args[0]
                if re.fullmatch(rf"isinstance\(\w+, (\w+\.)?{cls}\)", norm(ge.elt)) and not any(g.ifs for g in ge.generators):
                    its = [norm(g.iter) for g in ge.generators]
                    if any(i.endswith(".statements()") for i in its) and any(i.endswith(".assertions") for i in its):
                        hit = t
        ctx.check("C18.pytest-flag", write, hit is not None, f"{cls} is rendered with `pytest.` but no trigger raises needs_pytest when any statement of the test case carries one", what=f"trigger: any {cls} on any statement", stmt=f"[trigger-{cls}]")
    # templates of the writer itself that use pytest: xfail decorator, pytest.raises -> only when an exception was seen
    for fn_name in ("_xfail_decorator",):
        f = mod.functions.get(fn_name)
        if f is not None:
            ctx.check("C18.pytest-flag", f, _uses_name_in_templates(repo, mod, f, "pytest"), "", what="xfail decorator uses pytest (covered by the exception trigger)")
    # in _build_test_function every use of pytest templates is in the `exc_type is not None` region
    for n in own_nodes(btf):
        is_pytest_tpl = (isinstance(n, ast.Call) and norm(n.func) in ("cst.Name", "Name") and n.args and isinstance(n.args[0], ast.Constant) and n.args[0].value == "pytest") or (isinstance(n, ast.Call) and last_attr(n) == "_xfail_decorator")
        if not is_pytest_tpl:
            continue
        conds = _enclosing_conditions(_stmt(n), btf)
        if last_attr(n) == "_xfail_decorator":
            # decorators = (...) if is_failing else (): is_failing set only where exc_type is not None
            sets = [a for a in own_nodes(btf) if isinstance(a, ast.Assign) and norm(a.targets[0]) == "is_failing" and norm(a.value) == "True"]
            ok = bool(sets) and all(any(norm(t) == "exc_type is None" and not pol for t, pol in _enclosing_conditions(a, btf)) for a in sets)
        else:
            ok = any(norm(t) == "exc_type is None" and not pol for t, pol in conds)
        ctx.check("C18.pytest-flag", _stmt(n), ok, "a pytest template is emitted for a statement that did not raise: the exception trigger does not cover it", what="pytest template only for statements that raised")

    # ------------------------------------------------------------------ C18.module-body
    def list_def(name):
        """Elements (normalised) assigned/appended/extended to local list `name` in write, with conditions."""
        elems = []
        for n in sorted((x for x in own_nodes(write) if hasattr(x, "lineno")), key=lambda x: (x.lineno, x.col_offset)):
            if isinstance(n, (ast.Assign, ast.AnnAssign)):
                tg = n.targets[0] if isinstance(n, ast.Assign) else n.target
                if isinstance(tg, ast.Name) and tg.id == name and isinstance(n.value, ast.List):
                    for e in n.value.elts:
                        elems.append((norm(e), _enclosing_conditions(n, write)))
            if isinstance(n, ast.Call) and isinstance(n.func, ast.Attribute) and norm(n.func.value) == name and n.func.attr in ("append", "extend", "insert"):
                arg = n.args[-1]
                items = arg.elts if isinstance(arg, ast.List) else [arg]
                for e in items:
                    elems.append((norm(e), _enclosing_conditions(_stmt(n), write)))
        return elems

    modules = [n for n in own_nodes(write) if isinstance(n, ast.Call) and norm(n.func) == "cst.Module"]
    if len(modules) < 2:
        raise AnalysisError("TestSuiteWriter.write: the two cst.Module constructions (seeded / unseeded) were not found")
    sut_elems = [e for e, _c in list_def("sut_import_stmts")]
    pos_sys = next((i for i, e in enumerate(sut_elems) if "import sys" in e), None)
    pos_alias = next((i for i, e in enumerate(sut_elems) if "sys.modules" in e), None)
    pos_imp = next((i for i, e in enumerate(sut_elems) if re.search(r"import \{canonical_name\}", e)), None)
    ctx.check("C18.module-body", write, pos_sys is not None and pos_alias is not None and pos_imp is not None and pos_sys < pos_alias and pos_imp < pos_alias, "sut_import_stmts no longer has `import sys` and `import <module>` before the `alias = sys.modules[...]` binding", what="import sys; import M; alias = sys.modules[M] in this order", stmt="[sut-imports]")
    star = [c for e, c in list_def("sut_import_stmts") if e == "star_stmt"]
    ctx.check("C18.module-body", write, len(star) == 1 and all(norm(t) == "star_stmt is not None" and pol for t, pol in star[0]), "`from M import <public names>` is not appended to the SUT imports whenever it exists", what="from-import of the public names appended when present", stmt="[star]")
    for m in modules:
        body = next((k.value for k in m.keywords if k.arg == "body"), None)
        if not isinstance(body, ast.List):
            ctx.undecide("C18.module-body", m, "Module body is not a list display")
            continue
        order = [norm(e.value) if isinstance(e, ast.Starred) else norm(e) for e in body.elts]
        conds = _enclosing_conditions(_stmt(m), write)
        seeded = any(norm(t) == "seed is not None" and pol for t, pol in conds)

        def before(a, b):
            return a in order and b in order and order.index(a) < order.index(b)

        if seeded:
            sp = [e for e, _c in list_def("seed_preamble")]
            ok = any("import random" in e for e in sp) and any("import pytest" in e for e in sp)
            ctx.check("C18.module-body", m, ok, "the seeded file's preamble no longer imports both random and pytest (used by the seed patch and the autouse fixture)", what="seed preamble imports random and pytest", stmt="[seed-preamble]")
            ok = before("seed_preamble", "patch_nodes") and before("seed_preamble", "fixture") and before("sut_import_stmts", "functions") and before("exc_import_stmts", "functions") and before("seed_preamble", "functions")
            ctx.check("C18.module-body", m, ok, f"seeded module body order {order} uses a name before its import", what=f"seeded body order {order}", stmt="[seeded-order]")
        else:
            imp = list_def("import_stmts")
            py = [c for e, c in imp if "import pytest" in e]
            ok = len(py) == 1 and len(py[0]) >= 1 and all((norm(t) == flag and pol) or (norm(t) == "seed is not None" and not pol) for t, pol in py[0])
            ctx.check("C18.module-body", m, ok, "`import pytest` is not emitted exactly when needs_pytest is set in the unseeded file", what="import pytest iff needs_pytest", stmt="[unseeded-pytest]")
            has_sut = any(e == "sut_import_stmts" for e, _c in imp)
            ok = ("import_stmts" in order and has_sut or "sut_import_stmts" in order) and before("import_stmts", "functions") and before("exc_import_stmts", "functions")
            ctx.check("C18.module-body", m, ok, f"unseeded module body order {order} puts test functions before an import they need", what=f"unseeded body order {order}", stmt="[unseeded-order]")

    # ------------------------------------------------------------------ C18.exc-import
    _exc_reference(ctx, repo, btf, write)
    loops = [n for n in own_nodes(write) if isinstance(n, ast.For) and norm(n.iter) == "used_exc_types"]
    if len(loops) != 1:
        raise AnalysisError("TestSuiteWriter.write: loop over used_exc_types not found")
    lp = loops[0]
    v = norm(lp.target)
    stores = [n for n in ast.walk(lp) if isinstance(n, ast.Call) and last_attr(n) in ("append", "add") and (f"{v}.__name__" in norm(n) or f"{v}.__qualname__" in norm(n))]
    ok = len(stores) == 1
    if ok:
        conds = _enclosing_conditions(_stmt(stores[0]), lp)
        allowed = {f"{v}.__module__ != 'builtins'", f"{v}.__module__ not in ('builtins',)", f"{v}.__module__ not in {{'builtins'}}"}
        bad = [norm(t) for t, pol in conds if not (pol and norm(t) in allowed)]
        ok = not bad and "__module__" in norm(stores[0])
        ctx.check("C18.exc-import", stores[0], ok, f"exception imports are skipped under `{'; '.join(bad)}`: only builtins may be left without an import (e.g. an underscore-prefixed SUT exception is not among the imported public names)", what="only builtins excluded from exception imports")
    else:
        ctx.fail("C18.exc-import", lp, "the loop over used_exc_types no longer records (module, name) of each exception")
    emits = [n for n in own_nodes(write) if isinstance(n, ast.Call) and norm(n.func) == "exc_import_stmts.append" and "from {" in norm(n)]
    ctx.check("C18.exc-import", write, len(emits) == 1 and not _enclosing_conditions(_stmt(emits[0]), write), "`from <module> import <exception names>` is not emitted for every recorded module", what="from-import emitted per recorded module", stmt="[emit]")

    # ------------------------------------------------------------------ C18.namespace-agree
    pse = repo.func(EX, f"{WRITER}._per_statement_exceptions")
    ctx.analysed(pse)
    c1 = [n for n in own_nodes(pse) if isinstance(n, ast.Call) and last_attr(n) == "_public_sut_names"]
    c2 = [n for n in own_nodes(write) if isinstance(n, ast.Call) and last_attr(n) == "_public_sut_names"]
    ctx.check("C18.namespace-agree", pse, len(c1) == 1 and len(c2) == 1 and [norm(a) for a in c1[0].args][1:] == [norm(a) for a in c2[0].args][1:], "the re-execution namespace and the rendered `from M import ...` no longer derive their names from the same _public_sut_names(module, alias) call", what="both sites call _public_sut_names(<module>, module_alias)")
    ns = [n for n in own_nodes(pse) if isinstance(n, (ast.Assign, ast.AnnAssign)) and isinstance(n.value, ast.Dict) and norm(n.targets[0] if isinstance(n, ast.Assign) else n.target) == "namespace"]
    keys = {norm(k) for n in ns for k in n.value.keys}
    ctx.check("C18.namespace-agree", pse, {"module_alias", "'pytest'", "'__builtins__'"} <= keys, f"re-execution namespace lacks one of alias/pytest/builtins (has {sorted(keys)}): exception detection would see NameErrors the rendered file does not have", what="namespace binds alias, pytest and builtins", stmt="[keys]")

    # ------------------------------------------------------------------ C18.non-holding
    rm = repo.func(AG, "AssertionGenerator.__remove_non_holding_assertions")
    ctx.analysed(rm)
    upd = [n for n in own_nodes(rm) if isinstance(n, ast.Call) and last_attr(n) == "update" and re.search(r"\.(failed|error)\[", norm(n))]
    kinds = {}
    for u in upd:
        k = re.search(r"\.(failed|error)\[", norm(u)).group(1)
        kinds.setdefault(k, []).append(u)
    for k in ("failed", "error"):
        if k not in kinds:
            ctx.fail("C18.non-holding", rm, f"assertions recorded under `{k}` by the verification run are no longer removed", stmt=f"[{k}]")
            continue
        for u in kinds[k]:
            conds = _enclosing_conditions(_stmt(u), rm)
            foreign = [f"{'' if pol else 'not '}{norm(t)}" for t, pol in conds if not (pol and re.search(rf"\.{k}$", norm(t).split(" in ")[-1]))]
            ctx.check("C18.non-holding", _stmt(u), not foreign, f"removal of `{k}` assertions also depends on `{'; '.join(foreign)}`: when a statement has both failed and erroring assertions only one kind is removed and the other is exported", what=f"`{k}` removal guarded only by its own membership test")
    # the filter is applied to every re-executed test case: its call is not conditional on what the result looks like
    ag = repo.module(AG)
    callers = [(qn, c) for qn, f in ag.functions.items() for c in own_nodes(f) if isinstance(c, ast.Call) and last_attr(c) and last_attr(c).endswith("remove_non_holding_assertions")]
    if not callers:
        raise AnalysisError("no call of __remove_non_holding_assertions found")
    for qn, c in callers:
        f = ag.functions[qn]
        conds = [norm(t) for t, _pol in _enclosing_conditions(_stmt(c), f)]
        skips = []
        p_ = parent(_stmt(c))
        while p_ is not None and p_ is not f:
            if isinstance(p_, (ast.For, ast.While)):
                skips += [norm(i.test) for i in p_.body if isinstance(i, ast.If) and i.lineno < c.lineno and any(isinstance(x, (ast.Continue, ast.Break)) for x in ast.walk(i))]
            p_ = parent(p_)
        ctx.check("C18.non-holding", c, not conds and not skips, f"{qn}: the assertions of a re-executed test case are only filtered under `{'; '.join(conds + skips)[:100]}`: for the other test cases assertions that do not hold (a NaN comparison, a value that differs between executions) stay on the test; a test that ends in an expected exception is exported inside pytest.raises and must pass", what=f"{qn}: every re-executed test case is filtered", stmt=f"[{qn}] filter call")
    rem = [n for n in own_nodes(rm) if isinstance(n, ast.Call) and norm(n.func).endswith("assertions.remove")]
    ok = len(rem) == 1 and not [c for c in _enclosing_conditions(_stmt(rem[0]), rm)]
    ctx.check("C18.non-holding", rm, ok, "collected positions are not all removed from statement.assertions", what="every collected position removed", stmt="[remove]")


class _TopLevelError(Exception):
    pass


class _Outer:
    class Inner(Exception):
        pass

    class Mid:
        class Deep(KeyError):
            pass


def _local_error():
    class Local(ValueError):
        pass

    return Local


def _exc_reference(ctx, repo, btf, write) -> None:
    """The class named in pytest.raises(...) and the name that is imported for it agree and resolve in the test file,
    for top-level classes, classes nested in classes and classes defined inside a function (evaluating the writer's own
    expressions over representative exception classes)."""
    from sa.engine import peval

    mod = repo.module(EX)
    # the template: Call(func=Attribute(pytest.raises), args=[Arg(value=E)])
    tpl = [c for c in own_nodes(btf) if isinstance(c, ast.Call) and any(k.arg == "func" and "raises" in norm(k.value) and "pytest" in norm(k.value) for k in c.keywords)]
    if len(tpl) != 1:
        raise AnalysisError(f"C18.exc-import: expected one pytest.raises template in _build_test_function, found {len(tpl)}")
    args_kw = next((k.value for k in tpl[0].keywords if k.arg == "args"), None)
    inner = [x for x in ast.walk(args_kw) if isinstance(x, ast.Attribute) and x.attr in ("__name__", "__qualname__") and isinstance(x.value, ast.Name)] if args_kw is not None else []
    if len(inner) != 1:
        raise AnalysisError("C18.exc-import: the pytest.raises template does not name the class through __name__ / __qualname__ of a variable")
    named = inner[0]
    var = named.value.id
    adds = [n for n in own_nodes(btf) if isinstance(n, ast.Call) and isinstance(n.func, ast.Attribute) and n.func.attr == "add" and n.args and any(_same_arm(n, tpl[0], btf) for _ in (0,))]
    rec = [a for a in adds if norm(a.args[0]) == var]
    ctx.check("C18.exc-import", tpl[0], bool(rec), f"the class named in pytest.raises(...) (`{var}`) is not the one recorded for the imports ({[norm(a.args[0]) for a in adds]}): its import is never emitted", what="the class named in pytest.raises is the one recorded", stmt="[record]")
    # where does `var` come from: the raised class itself, or a helper applied to it
    defs = [n for n in own_nodes(btf) if isinstance(n, ast.Assign) and len(n.targets) == 1 and norm(n.targets[0]) == var]
    loops = [n for n in own_nodes(write) if isinstance(n, ast.For) and norm(n.iter) == "used_exc_types"]
    if len(loops) != 1:
        raise AnalysisError("TestSuiteWriter.write: loop over used_exc_types not found")
    lv = norm(loops[0].target)
    stores = [n for n in ast.walk(loops[0]) if isinstance(n, ast.Call) and last_attr(n) in ("append", "add") and n.args and lv in {x.id for x in ast.walk(n.args[0]) if isinstance(x, ast.Name)}]
    if len(stores) != 1:
        ctx.fail("C18.exc-import", loops[0], "the loop over used_exc_types no longer records one name per exception class", stmt="[name]")
        return
    local = _local_error()
    for label, cls in (("a top-level class", _TopLevelError), ("a class nested in a class", _Outer.Inner), ("a class nested two levels deep", _Outer.Mid.Deep), ("a class defined inside a function", local)):
        tag = f"[reference] {label} ({cls.__qualname__})"
        it = peval.Interp(resolver=peval.repo_resolver(repo), native_types=(type,), max_steps=20000)
        try:
            if defs:
                src_names = [x.id for x in ast.walk(defs[0].value) if isinstance(x, ast.Name) and x.id not in ("self",)]
                env = {nm: cls for nm in src_names if nm not in peval.PURE}
                chosen = it.ev(defs[0].value, env, mod)
            else:
                chosen = cls
            rendered = it.ev(named, {var: chosen}, mod)
            imported = it.ev(stores[0].args[0], {lv: chosen}, mod)
        except (peval.Undecided, peval.Raises) as exc:
            ctx.undecide("C18.exc-import", btf, f"{tag}: {exc}")
            continue
        problem = None
        if not (isinstance(chosen, type) and issubclass(cls, chosen)):
            problem = f"the class expected in pytest.raises ({chosen!r}) is no base of the raised class"
        elif "<locals>" in str(rendered):
            problem = f"pytest.raises({rendered}) names a class defined inside a function: the generated file is not valid Python"
        elif str(rendered) != chosen.__qualname__:
            problem = f"pytest.raises({rendered}) does not reach {chosen.__qualname__} from the imported names: `from <module> import {rendered}` fails for a nested class (ImportError at collection, the whole file fails)"
        elif str(rendered).split(".")[0] != imported:
            problem = f"pytest.raises({rendered}) needs `{str(rendered).split('.')[0]}`, but `{imported}` is imported"
        ctx.check("C18.exc-import", tpl[0], problem is None, f"{tag}: {problem}", what=f"{tag}: pytest.raises({rendered}) with `import {imported}`", stmt=tag)


def _stmt(n):
    while n is not None and not isinstance(n, ast.stmt):
        n = parent(n)
    return n


def _same_arm(a, b, stop):
    def arm(n):
        chain = []
        c, p = _stmt(n), parent(_stmt(n))
        while p is not None and p is not stop:
            if isinstance(p, ast.If):
                chain.append((id(p), c in p.body))
            c, p = p, parent(p)
        return chain

    return arm(a) == arm(b)


def _public_names(ctx, repo) -> None:
    import types as _types

    from sa.engine import peval

    EX = "pynguin.testcase.export"
    fn = repo.func(EX, "_public_sut_names")
    ctx.analysed(fn)
    import enum as _enum
    import http as _http

    mod = _types.ModuleType("sut")
    mod.module_0 = mod                      # the alias the module is bound to
    mod.HTTPStatus = _http.HTTPStatus       # imported into the SUT, enum members are rendered as HTTPStatus.OK
    mod.helper = _enum.unique               # imported function

    def own():
        return 1

    own.__module__ = "sut"
    mod.own = own
    mod.LIMIT = 3
    mod._private = 5
    want = sorted(n for n in dir(mod) if not n.startswith("_") and n != "module_0")
    own_defined = ["LIMIT", "own"]  # names the module defines itself; names it imported are bound by the enum / exception imports when the rendered code needs them
    try:
        got = peval.Interp(resolver=peval.repo_resolver(repo), native_types=(_types.ModuleType,)).run_function(fn, [mod, "module_0"], {}, repo.module(EX))
    except (peval.Undecided, peval.Raises) as exc:
        ctx.undecide("C18.public-names", fn, str(exc))
        return
    # necessary for the rendered `from <module> import <names>` line: every name is an attribute of the module (else the
    # whole test file fails to import) and the alias is not rebound; which further names are listed is not prescribed -
    # what rendered code names bare (enum and exception classes) is imported separately
    ctx.check("C18.public-names", fn, "module_0" not in got and set(got) <= set(dir(mod)) and len(list(got)) == len(set(got)), f"_public_sut_names yields {list(got)} for a module with the attributes {want} bound under the alias module_0: a listed name that is not an attribute makes `from <module> import ...` fail (every test of the file fails at import), the alias among the names rebinds it", what=f"names are attributes of the module, alias excluded: {list(got)}", stmt="[public names]")


def _enum_imports(ctx, repo) -> None:
    """Enum members are rendered as `ClassName.MEMBER`; the class name must be bound in the file."""
    import enum as _enum

    from sa.engine import peval

    EX = "pynguin.testcase.export"
    A2A = "pynguin.assertion.assertion_to_ast"
    v2c = repo.func(A2A, "_value_to_cst")
    bare = [n for n in own_nodes(v2c) if isinstance(n, ast.Call) and norm(n.func) == "cst.Name" and n.args and isinstance(n.args[0], ast.Name)]
    uses_class_name = any("__name__" in norm(st) and "type(" in norm(st) for st in own_nodes(v2c) if isinstance(st, ast.Assign))
    if not (bare and uses_class_name):
        ctx.ok("C18.enum-import", v2c, "_value_to_cst no longer renders a bare class name: nothing to import")
        return
    ctx.analysed(v2c)

    class Shade(_enum.Enum):
        DARK = 1

    class Level(_enum.IntEnum):
        LOW = 1

    values = [("a member", Shade.DARK, {Shade}), ("an IntEnum member", Level.LOW, {Level}), ("a list", [1, Shade.DARK], {Shade}), ("a nested tuple", (("x", (Level.LOW,)),), {Level}), ("a set", {Shade.DARK}, {Shade}),
              ("a dict value", {"k": Shade.DARK}, {Shade}), ("a dict key", {Level.LOW: 1}, {Level}), ("two classes", [Shade.DARK, {Level.LOW: Shade.DARK}], {Shade, Level}), ("no enum", [1, "a", None], set())]
    mod = repo.module(EX)
    collectors = []
    for qn, fn in mod.functions.items():
        if "." in qn or len(fn.args.args) != 1 or fn.args.kwonlyargs or fn.args.vararg:
            continue
        try:
            got = peval.Interp(resolver=peval.repo_resolver(repo), max_steps=20000).run_function(fn, [Shade.DARK], {}, mod)
            if not isinstance(got, (str, bytes)) and Shade in set(got):
                collectors.append((qn, fn))
        except Exception:  # noqa: BLE001 - not a collector
            continue
    write = repo.func(EX, "TestSuiteWriter.write")
    if not collectors:
        ctx.fail("C18.enum-import", write, "_value_to_cst renders an enum member as the bare `ClassName.MEMBER`, but no function of the writer maps an asserted value to its enum classes: the class is imported only when it happens to be a public name of the module under test - an assertion on a member of `class _Mode(enum.Enum)` fails with NameError in the exported file", stmt="[collector]")
        return
    qn, fn = collectors[0]
    ctx.analysed(fn)
    for label, value, want in values:
        try:
            got = set(peval.Interp(resolver=peval.repo_resolver(repo), max_steps=50000).run_function(fn, [value], {}, mod))
        except (peval.Undecided, peval.Raises) as exc:
            ctx.undecide("C18.enum-import", fn, f"{label}: {exc}")
            continue
        ctx.check("C18.enum-import", fn, got == want, f"{qn}({label}) yields {sorted(c.__name__ for c in got)}, the rendering names {sorted(c.__name__ for c in want)}: a class that is named but not collected is not imported (NameError in the exported test)", what=f"{qn}: {label}", stmt=f"[collect] {label}")
    # def-use in write: collector applied to the asserted value of the assertions, result reaches the from-imports
    calls = [c for c in own_nodes(write) if isinstance(c, ast.Call) and last_attr(c) == qn]
    on_value = [c for c in calls if any(isinstance(x, (ast.Attribute, ast.Constant)) and (getattr(x, "attr", None) == "object" or getattr(x, "value", None) == "object") for a in c.args for x in ast.walk(a))]
    ctx.check("C18.enum-import", calls[0] if calls else write, bool(on_value), f"TestSuiteWriter.write does not apply {qn} to the asserted value (`.object`) of the assertions", what=f"{qn} applied to assertion.object", stmt="[applied]")
    if not on_value:
        return
    in_loops = [lp for lp in ast.walk(write) if isinstance(lp, ast.For) and any(c is on_value[0] for c in ast.walk(lp))]
    over_all = any("assertions" in norm(lp.iter) for lp in in_loops) and any("statements()" in norm(lp.iter) for lp in in_loops) and any("test_case_chromosomes" in norm(lp.iter) for lp in in_loops)
    conds = [norm(t) for t, _pol in _enclosing_conditions(_stmt(on_value[0]), write)]
    ctx.check("C18.enum-import", on_value[0], over_all and not conds, f"the enum classes are not collected for every assertion of every statement of every test case (loops: {[norm(lp.iter)[:40] for lp in in_loops]}, conditions: {conds})", what="collected for every assertion of every statement of every test case", stmt="[every assertion]")
    # the accumulator the call feeds
    st = _stmt(on_value[0])
    acc = norm(st.value.func.value) if isinstance(st, ast.Expr) and isinstance(st.value, ast.Call) and isinstance(st.value.func, ast.Attribute) and st.value.func.attr in ("update", "extend", "append", "add") else norm(st.target) if isinstance(st, ast.AugAssign) else None
    feeds = [lp for lp in own_nodes(write) if isinstance(lp, ast.For) and acc is not None and norm(lp.iter) == acc]
    stores = [n for lp in feeds for n in ast.walk(lp) if isinstance(n, ast.Call) and last_attr(n) in ("append", "add") and "__name__" in norm(n) and "__module__" in norm(n)]
    emits = [n for n in own_nodes(write) if isinstance(n, ast.Call) and last_attr(n) == "append" and "from {" in norm(n)]
    same_table = bool(stores) and bool(emits) and any(norm(stores[0].func).split(".")[0].split("[")[0] in norm(_enclosing_for_iter(e, write)) for e in emits)
    ctx.check("C18.enum-import", feeds[0] if feeds else write, bool(stores) and same_table, f"what {qn} yields (`{acc}`) does not reach the emitted `from <module> import <names>` statements", what=f"`{acc}` feeds the from-imports", stmt="[feeds imports]")
    if stores:
        # the only classes that may be left out: not importable under their name, or already bound by the public-name import
        conds = _enclosing_conditions(_stmt(stores[0]), feeds[0])
        txt = " and ".join(norm(t) for t, pol in conds if pol)
        neg = [norm(t) for t, pol in conds if not pol]
        ok = "startswith" not in txt and not any("startswith" in n for n in neg)
        ctx.check("C18.enum-import", stores[0], ok, f"an enum class is left without an import depending on the spelling of its name (`{txt}` / not `{neg}`): a private enum class of the module under test is exactly the one the public-name import does not bind", what="no exclusion by name prefix", stmt="[exclusion]")


def _enclosing_for_iter(node, root) -> ast.AST:
    p = parent(node)
    while p is not None and p is not root:
        if isinstance(p, ast.For):
            return p.iter
        p = parent(p)
    return ast.Constant(value=None)


def _accumulate(ctx, repo) -> None:
    EX = "pynguin.testcase.export"
    fn = repo.func(EX, "TestSuiteWriter.write")
    ctx.analysed(fn)
    # accumulators: names bound to an empty set()/list()/dict() before a loop and read after it
    for loop in [n for n in fn.body if isinstance(n, ast.For)]:
        before = [st for st in fn.body if st.lineno < loop.lineno]
        accs = set()
        for st in before:
            tgt = st.targets[0] if isinstance(st, ast.Assign) else st.target if isinstance(st, ast.AnnAssign) else None
            val = getattr(st, "value", None)
            if isinstance(tgt, ast.Name) and isinstance(val, (ast.Call, ast.List, ast.Dict, ast.Set)) and norm(val) in ("set()", "[]", "{}", "list()", "dict()", "OrderedSet()"):
                accs.add(tgt.id)
        after_reads = {n.id for st in fn.body if st.lineno > loop.end_lineno for n in ast.walk(st) if isinstance(n, ast.Name)}
        for name in sorted(accs & after_reads):
            rebound = [n for n in ast.walk(loop) if isinstance(n, (ast.Assign, ast.AnnAssign)) and any(isinstance(t, ast.Name) and t.id == name for tg in (n.targets if isinstance(n, ast.Assign) else [n.target]) for t in ast.walk(tg))]
            updated = [n for n in ast.walk(loop) if (isinstance(n, ast.Call) and isinstance(n.func, ast.Attribute) and norm(n.func.value) == name and n.func.attr in ("update", "add", "append", "extend")) or (isinstance(n, ast.AugAssign) and norm(n.target) == name)]
            if not updated and not rebound:
                continue
            ctx.check("C18.accumulate", loop, not rebound, f"TestSuiteWriter.write rebinds `{name}` inside the loop over the test cases (line {rebound[0].lineno if rebound else 0}): what earlier test cases contributed is lost, e.g. `with pytest.raises(X):` is written without the import of X", what=f"`{name}` is accumulated over all test cases", stmt=f"[accumulator {name}]")
