"""C01 — instrumentation does not change the behaviour of the module under test.

Decides the clauses whose truth is in the shape of pynguin's code:
 * C01.stack    every instruction template an adapter splices into a code object leaves the operand
                stack as the untouched instruction(s) would (symbolic stack over the literal sequence
                the instruction generators produce, interpreted from source), reads nothing below the
                operands of the instruction it is attached to, hands the overridden instruction its
                operands in their order, and passes the tracer only copies of operands (never the
                result of the overridden instruction);
 * C01.opcodes  the spliced sequences consist of stack shuffles, loads and the tracer call only - no
                opcode that applies an operator to values of the module under test;
 * C01.unbound  (3.12+) a local variable is never read with the unchecked LOAD_FAST, and not at all
                where an inlined comprehension saves or restores it;
 * C01.index    the index BasicBlockNode hands out for an instruction addresses that instruction in the
                basic block (pseudo-instructions counted), and positions counted over instructions reach
                a splice only through block_index_of (except -1, the jump that ends the block);
 * C01.observe  ABSINT over adversarial representatives: the tracer callbacks and the seeding entry
                points, interpreted from source, raise nothing into the module under test, leave a
                one-shot iterator unconsumed, do not ask an object for its size that defines its own
                truth value, and call no method of a value that is not a string;
 * C01.seeding  install_import_hook always installs the seeding adapter (the rules cover it).
Equality of results and side effects for arbitrary programs is not decided; the tracer still evaluates
the mirrored and the complementary comparison on the operands (user operators run twice / the
complementary one runs at all) - contained, but not removed.
Further clauses (added later): Tracer callbacks are also interpreted for receivers whose attribute lookup
raises KeyError / ZeroDivisionError / decimal signals (nothing may escape into the module under test).
"""

from __future__ import annotations

import ast
import decimal
import fractions
import numbers
import itertools
import math
import types

from sa.checks import _instr as I
from sa.engine import peval
from sa.engine.index import AnalysisError, norm, own_nodes, parent

TR = "pynguin.instrumentation.tracer"
CF = "pynguin.instrumentation.controlflow"
CONSTS = "pynguin.analyses.constants"
MACH = "pynguin.instrumentation.machinery"

# opcodes that only move, copy or load values, or call the tracer
NEUTRAL = {"COPY", "SWAP", "POP_TOP", "DUP_TOP", "DUP_TOP_TWO", "ROT_TWO", "ROT_THREE", "ROT_FOUR", "LOAD_CONST", "LOAD_METHOD", "LOAD_ATTR", "PRECALL", "CALL",
           "CALL_METHOD", "LOAD_FAST", "LOAD_FAST_CHECK", "LOAD_FAST_LOAD_FAST", "LOAD_NAME", "LOAD_GLOBAL", "LOAD_DEREF", "LOAD_CLASSDEREF", "LOAD_LOCALS",
           "LOAD_FROM_DICT_OR_DEREF", "BUILD_TUPLE", "<INSTR>"}
UNCHECKED_FAST_FROM = {"python3_12": {"LOAD_FAST"}, "python3_13": {"LOAD_FAST"}, "python3_14": {"LOAD_FAST"}}
# LOAD_FAST_LOAD_FAST (3.13+) does not check either; whether the pairs it is used for can be unbound cannot be shown on the running interpreter: observation only

# operands on the stack where an arm-less site splices (function name -> (depth, why))
AVAILABLE = {
    "visit_compare_based_conditional_jump": (2, "before COMPARE_OP / IS_OP / CONTAINS_OP: both operands"),
    "visit_exception_based_conditional_jump": (2, "before CHECK_EXC_MATCH / JUMP_IF_NOT_EXC_MATCH: exception and match type"),
    "visit_bool_based_conditional_jump": (1, "before the conditional jump: the tested value"),
    "visit_none_based_conditional_jump": (1, "before POP_JUMP_IF_(NOT_)NONE: the tested value"),
    "visit_subscr_access": (2, "before BINARY_SUBSCR: container and key"),
    "visit_for_loop_body": (0, "block entry"), "visit_for_loop_natural_exit": (0, "block entry / after END_FOR"), "visit_cfg": (0, "code object entry"),
    "visit_line": (0, "start of a line"), "visit_generic": (0, "before the instruction, no operand read"), "visit_call": (0, "before the call, no operand read"),
    "visit_jump": (0, "before the jump, no operand read"), "visit_return": (0, "before the return, no operand read"),
    "visit_import_name_access": (1, "after IMPORT_NAME: the module"), "visit_compare_op": (2, "before COMPARE_OP: both operands"),
    "visit_string_function_without_arg": (1, "after the method load: the receiver"), "visit_startswith_function": (2, "after the argument load: receiver and argument"),
    "visit_endswith_function": (2, "after the argument load: receiver and argument"), "generate_instructions": (0, "after the instruction, no operand read"),
}


def _sym_ok(sym: str) -> bool:
    return sym.startswith(("x", "load_", "deref#", "tuple("))


def check(ctx) -> None:
    repo = ctx.repo
    ctx.rule("C01.stack", "ABSINT/stack: setup + (instruction) + tracer call + teardown leaves the operand stack as the instruction alone does; operands in order; tracer sees copies of operands only; nothing below the operands is touched", floor=60)
    ctx.rule("C01.opcodes", "WHO-MAY: spliced sequences contain only stack shuffles, loads and the tracer call", floor=60)
    ctx.rule("C01.unbound", "3.12+: no unchecked LOAD_FAST in a template; a variable saved/restored by an inlined comprehension is not read", floor=3)
    ctx.rule("C01.index", "ABSINT: BasicBlockNode index providers address the instruction in the basic block; instruction positions reach a splice only via block_index_of (or are -1)", floor=12)
    ctx.rule("C01.observe", "ABSINT: tracer callbacks and seeding entry points over adversarial representatives raise nothing, consume no iterator, call nothing the module under test does not call", floor=20)
    ctx.rule("C01.seeding", "install_import_hook passes a dynamic constant provider on every path", floor=1)

    ctx.rule("C01.total", "the instrumentation handles every argument shape of the opcodes it is dispatched for (instrumenting a module must not fail)", floor=5)

    cur = I.running_version()
    ctx.extra["running_version"] = cur
    _total(ctx, repo)
    _templates(ctx, repo, cur)
    _unbound_condition(ctx, repo, cur)
    _index_space(ctx, repo)
    _observe(ctx, repo)
    _seeding(ctx, repo)


# ------------------------------------------------------------------------------------------------ totality
# argument shapes the `bytecode` library gives name-carrying instructions (3.11+: flags in front of the name)
ARG_SHAPES = {"LOAD_ATTR (3.10/3.11)": "n", "LOAD_ATTR (3.12+)": (True, "n"), "LOAD_GLOBAL (3.11+)": (False, "n"), "LOAD_SUPER_ATTR (3.12+)": (True, False, "n"), "LOAD_METHOD": "n"}
TARGETLESS_JUMPS = {"BEFORE_WITH", "BEFORE_ASYNC_WITH"}


def _total(ctx, repo) -> None:
    common = repo.module(I.COMMON)
    en = repo.func(I.COMMON, "extract_name")
    ctx.analysed(en)
    for label, arg in ARG_SHAPES.items():
        try:
            r = peval.Interp().run_function(en, [arg], {}, common)
        except (peval.Undecided, peval.Raises) as exc:
            ctx.undecide("C01.total", en, f"extract_name({arg!r}): {exc}")
            continue
        ctx.check("C01.total", en, r == "n", f"extract_name({arg!r}) [{label}] returns {r!r}: the checked-coverage adapter asserts a name and fails to instrument any module that contains the instruction", what=f"extract_name handles {label}", stmt=f"[extract_name {label}]")
    # jumps without a target block
    for v in I.VERSIONS:
        names = repo.fold(repo.module(I.VMOD + v), ast.Name(id="JUMP_NAMES", ctx=ast.Load()))
        if names is None:
            tgt = repo.module(I.VMOD + v).assigns.get("JUMP_NAMES")
            names = repo.fold(repo.module(I.VMOD + v), tgt) if tgt is not None else None
        if names is None:
            # inherited through an import
            continue
        targetless = sorted(set(names) & TARGETLESS_JUMPS)
        for fn in I.effective_functions(repo, v, "CheckedCoverageInstrumentation"):
            if fn.name != "visit_jump":
                continue
            ctx.analysed(fn)
            for c in own_nodes(fn):
                if isinstance(c, ast.Call) and norm(c.func).endswith("get_block_index") and norm(c.args[0]) == "instr.arg":
                    guarded = False
                    n = c
                    while n is not None and n is not fn:
                        p = parent(n)
                        if isinstance(p, ast.IfExp) and n is p.body and "isinstance(instr.arg" in norm(p.test):
                            guarded = True
                        if isinstance(p, ast.If) and n in p.body and "isinstance(instr.arg" in norm(p.test):
                            guarded = True
                        n = p
                    ctx.check("C01.total", c, guarded or not targetless, f"[{v}] visit_jump asks for the block index of `instr.arg` for every opcode in JUMP_NAMES, but {targetless} carry no target block: get_block_index raises and a module with a `with` statement cannot be instrumented for checked coverage", what=f"[{v}] target lookup only for block arguments", stmt=f"[{v} visit_jump target]")


# ------------------------------------------------------------------------------------------------ templates
def _templates(ctx, repo, cur) -> None:
    for v in I.VERSIONS:
        gens = I.Generators(repo, v)
        for f in gens.generator_functions():
            ctx.analysed(f)
        cache = {}
        for ad in I.ADAPTERS:
            for fn in I.effective_functions(repo, v, ad):
                sites = I.sites_in(fn)
                if sites:
                    ctx.analysed(fn)
                for site in sites:
                    ctx.call_sites += 1
                    for op in site.opcodes or [None]:
                        for var in site.variants(op):
                            _one_template(ctx, gens, cache, v, ad, site, op, var)


def _one_template(ctx, gens, cache, v, ad, site, op, var) -> None:
    fn = site.fn
    kinds = tuple((a[0], a[1]) for a in var)
    tag = f"[{v} {ad.replace('Instrumentation', '')} {fn.name} {op or '-'} {site.placement} {site.action} ({', '.join(k.replace('Instrumentation', '') for k, _p in kinds)})]"
    key = (site.action, kinds, site.overriding)
    if key not in cache:
        try:
            cache[key] = gens.sequence(site.action, list(var), site.overriding)
        except peval.Raises as exc:
            cache[key] = exc
        except peval.Undecided as exc:
            cache[key] = exc
    seq = cache[key]
    if isinstance(seq, peval.Raises):
        # a generator that rejects the request (e.g. 3.10 cannot implement an action) fails the instrumentation loudly; only report for opcodes the version has
        ctx.observe(f"{tag}: the generator raises {seq.name} ({seq.detail[:60]})")
        return
    if isinstance(seq, peval.Undecided):
        ctx.undecide("C01.stack", site.call, f"{tag}: {seq}")
        return
    # ---- opcodes
    bad = sorted({o for o, _a in seq if o not in NEUTRAL})
    ctx.check("C01.opcodes", site.call, not bad, f"{tag}: the spliced sequence applies {bad} to values of the module under test (an operator the original code does not execute; it raises for operands that cannot be combined)", what=f"{tag}: neutral opcodes", stmt=f"{tag} opcodes")
    unchecked = sorted({o for o, _a in seq if o in UNCHECKED_FAST_FROM.get(v, ())})
    if unchecked and v != I.running_version():
        # whether the variable can be unbound at that point is a fact about that interpreter version
        ctx.observe(f"{tag}: reads a local with the unchecked {unchecked}")
        unchecked = []
    ctx.check("C01.unbound", site.call, not unchecked, f"{tag}: reads a local variable with {unchecked}, which does not check that the variable is bound (a NULL reaches the tracer call and crashes the interpreter)", what=f"{tag}: checked local reads", stmt=f"{tag} unchecked")
    if any(o == "LOAD_FAST_LOAD_FAST" for o, _a in seq):
        ctx.observe(f"{tag}: reads two locals with the unchecked LOAD_FAST_LOAD_FAST")
    # ---- placement
    if site.placement != "returned":
        ok = site.overriding == (site.placement == "override")
        ctx.check("C01.stack", site.call, ok, f"{tag}: {'generate_overriding_instructions' if site.overriding else 'generate_instructions'} is spliced with {site.placement}(): the instrumented instruction is {'duplicated' if site.overriding else 'dropped'}", what=f"{tag}: splice kind matches", stmt=f"{tag} placement")
    # ---- stack
    if op is not None:
        if op not in I.OPERANDS:
            ctx.undecide("C01.stack", site.call, f"{tag}: opcode {op} is not in the operand table")
            return
        reads, pushes = I.OPERANDS[op]
        avail = pushes if site.placement == "after" else reads
    else:
        if fn.name not in AVAILABLE:
            ctx.undecide("C01.stack", site.call, f"{tag}: no operand depth known for {fn.name}")
            return
        avail = AVAILABLE[fn.name][0]
    init = [f"x{i}" for i in range(avail, 0, -1)]
    eff = None
    if site.overriding:
        if op is None:
            ctx.undecide("C01.stack", site.call, f"{tag}: overriding site without an opcode arm")
            return
        eff = I.OPERANDS[op]
    try:
        final, calls, consumed = I.run_stack(seq, init, eff)
    except I.StackError as exc:
        ctx.fail("C01.stack", site.call, f"{tag}: {exc} - with {avail} operand(s) available at this point the template reads a value that is not an operand of the instruction", stmt=f"{tag} depth")
        return
    except peval.Undecided as exc:
        ctx.undecide("C01.stack", site.call, f"{tag}: {exc}")
        return
    if site.overriding:
        p, q = eff
        want = init[: len(init) - p] + [f"r{i + 1}" for i in range(q)]
        okc = consumed == init[len(init) - p:]
        ctx.check("C01.stack", site.call, okc, f"{tag}: the overridden {op} receives operands {consumed}, the original receives {init[len(init) - p:]}", what=f"{tag}: operands in order", stmt=f"{tag} operands")
    else:
        want = init
    ctx.check("C01.stack", site.call, final == want, f"{tag}: stack after the template is {final}, the uninstrumented code leaves {want}", what=f"{tag}: stack neutral", stmt=f"{tag} neutral")
    okargs = len(calls) == 1 and all(_sym_ok(a) for a in calls[0][1])
    ctx.check("C01.stack", site.call, okargs, f"{tag}: the tracer call receives {[c[1] for c in calls]} - not (only) copies of operands / loads", what=f"{tag}: tracer sees operand copies", stmt=f"{tag} args")


# ------------------------------------------------------------------------------------------------ unbound locals
def _unbound_condition(ctx, repo, cur) -> None:
    """Where the arm contains LOAD_FAST_AND_CLEAR (or STORE_FAST of a saved variable) the variant that reads the local must be excluded by its condition."""
    for v in I.VERSIONS:
        if v < "python3_12":
            continue
        for fn in I.effective_functions(repo, v, "CheckedCoverageInstrumentation"):
            if fn.name != "visit_local_access":
                continue
            for site in I.sites_in(fn):
                for op, saved in (("LOAD_FAST_AND_CLEAR", True), ("STORE_FAST", True)):
                    if site.opcodes and op not in site.opcodes:
                        continue
                    if not site.opcodes:
                        continue
                    for var in site.variants(op):
                        reads = [a for a in var if a[0] in ("InstrumentationFastLoad", "InstrumentationFastLoadTuple")]
                        if not reads:
                            continue
                        chosen = _cond_selects(repo, v, fn, reads[0][2], op)
                        tag = f"[{v} visit_local_access {op}]"
                        if chosen is None:
                            ctx.undecide("C01.unbound", site.call, f"{tag}: condition of the local read not interpretable")
                            continue
                        ctx.check("C01.unbound", site.call, not chosen, f"{tag}: the value of the local is read {site.placement} {op} although an inlined comprehension saves/restores it there unbound (NULL argument -> interpreter crash, or UnboundLocalError raised into the module under test)", what=f"{tag}: local not read where it may be unbound", stmt=f"{tag} read")


def _cond_selects(repo, v, fn, cond, op):
    """Is the alternative guarded by `cond` selected for a variable `v` that a LOAD_FAST_AND_CLEAR in the code object saves?"""
    mod = fn._module
    instr = peval.Obj("Instr", fields={"name": op, "arg": "v"}, classes=["Instr"])
    saver = instr if op == "LOAD_FAST_AND_CLEAR" else peval.Obj("Instr", fields={"name": "LOAD_FAST_AND_CLEAR", "arg": "v"}, classes=["Instr"])
    swap = peval.Obj("Instr", fields={"name": "SWAP", "arg": 2}, classes=["Instr"])
    blocks = [[saver], [swap, instr]] if saver is not instr else [[instr]]
    cfg = peval.Obj("CFG", fields={"bytecode_cfg": blocks})
    node = peval.Obj("BasicBlockNode", fields={"original_instructions": blocks[-1], "instructions": blocks[-1]})
    it = peval.Interp(resolver=peval.repo_resolver(repo), consts={"Instr": peval.Token("Instr")})
    selfobj = peval.Obj("adapter")
    for f2 in I.effective_functions(repo, v, "CheckedCoverageInstrumentation"):
        static = any(norm(d) == "staticmethod" for d in f2.decorator_list)
        selfobj.methods.setdefault(f2.name, (lambda g, st: (lambda *a, **k: it.run_function(g, list(a) if st else [selfobj, *a], k, g._module)))(f2, static))
    env = {"self": selfobj, "cfg": cfg, "instr": instr, "node": node}
    try:
        for test, pol in cond:
            if I.cond_holds(((test, pol),), op) is False:
                return False
            if isinstance(test, ast.Compare) and norm(test.left) == "instr.name":
                continue
            if bool(it.ev(test, env, mod)) != pol:
                return False
        return True
    except (peval.Undecided, peval.Raises):
        return None


# ------------------------------------------------------------------------------------------------ index spaces
def _index_space(ctx, repo) -> None:
    bbn = repo.cls(CF, "BasicBlockNode")
    cmod = repo.module(CF)
    mro = [(bbn, cmod)]
    T = peval.Token

    def mk(kind, label):
        classes = {"I": ["Instr"], "A": ["ArtificialInstr", "Instr"], "P": ["TryEnd"]}[kind]
        return peval.Obj(f"{kind}:{label}", fields={"name": label}, classes=classes)

    shapes = {
        "pseudo in the middle": "I P I A I",
        "pseudo first": "P I I",
        "two pseudo entries": "I P P I A A I",
        "no pseudo": "I A I I",
        "pseudo last": "I I P",
    }
    for label, shape in shapes.items():
        block = [mk(k, f"{k.lower()}{i}") for i, k in enumerate(shape.split())]
        originals = [o for o in block if o.classes == ["Instr"]]

        def node():
            it = peval.Interp(resolver=peval.repo_resolver(repo), consts={"Instr": T("Instr"), "ArtificialInstr": T("ArtificialInstr")}, max_steps=400000)
            return it.instantiate("BasicBlockNode", mro, [1, list(block)], {})

        for meth in ("instrumentation_original_instructions",):
            fn = repo.methods(bbn).get(meth)
            if fn is None:
                raise AnalysisError(f"anchor vanished: BasicBlockNode.{meth}")
            ctx.analysed(fn)
            try:
                n = node()
                res = n.props[meth]() if meth in n.props else n.methods[meth]()
                ok = [r[1] for r in res] == originals and all(isinstance(r[0], int) and 0 <= r[0] < len(block) and block[r[0]] is r[1] for r in res)
                got = [(r[0], block.index(r[1])) for r in res]
            except (peval.Undecided,) as exc:
                ctx.undecide("C01.index", fn, f"{label}: {exc}")
                continue
            except peval.Raises as exc:
                ctx.fail("C01.index", fn, f"{meth} over a block with {label} ({shape}) raises {exc.name}", stmt=f"[{meth} {label}]")
                continue
            ctx.check("C01.index", fn, ok, f"{meth} over a block with {label} ({shape}) hands out (index, position of that instruction in the block) = {got}: a probe spliced at the index lands on another entry of the block", what=f"{meth}: {label}", stmt=f"[{meth} {label}]")
        fn = repo.methods(bbn).get("find_instruction_by_original_index")
        if fn is None:
            raise AnalysisError("anchor vanished: BasicBlockNode.find_instruction_by_original_index")
        ctx.analysed(fn)
        bad = []
        try:
            for k in range(-len(originals), len(originals)):
                n = node()
                idx, ins = n.methods["find_instruction_by_original_index"](k)
                if ins is not originals[k] or not (isinstance(idx, int) and block[idx] is ins):
                    bad.append((k, idx, block.index(ins)))
        except peval.Undecided as exc:
            ctx.undecide("C01.index", fn, f"{label}: {exc}")
            continue
        except peval.Raises as exc:
            bad.append((exc.name,))
        ctx.check("C01.index", fn, not bad, f"find_instruction_by_original_index over a block with {label} ({shape}): (original index, returned index, position in block) = {bad}", what=f"find_instruction_by_original_index: {label}", stmt=f"[find {label}]")
        # the translation used by the adapters for positions counted over instructions
        fn = repo.methods(bbn).get("block_index_of")
        if fn is not None:
            ctx.analysed(fn)
            instrs = [o for o in block if "Instr" in o.classes]
            bad = []
            try:
                for k in range(-len(instrs), len(instrs)):
                    idx = node().methods["block_index_of"](k)
                    if not (isinstance(idx, int) and block[idx] is instrs[k]):
                        bad.append((k, idx))
            except peval.Undecided as exc:
                ctx.undecide("C01.index", fn, f"{label}: {exc}")
                continue
            except peval.Raises as exc:
                bad.append((exc.name,))
            ctx.check("C01.index", fn, not bad, f"block_index_of over a block with {label}: (instruction position, returned index) = {bad}", what=f"block_index_of: {label}", stmt=f"[block_index_of {label}]")

    # consumers: which index expressions reach a splice / an instruction lookup
    for v in I.VERSIONS:
        for ad in I.ADAPTERS:
            for fn in I.effective_functions(repo, v, ad):
                _index_consumers(ctx, repo, v, ad, fn)


def _fold_int(repo, fn, e, depth=0):
    if depth > 4:
        return None
    if isinstance(e, ast.UnaryOp) and isinstance(e.op, ast.USub) and isinstance(e.operand, ast.Constant):
        return -e.operand.value
    if isinstance(e, ast.Constant) and isinstance(e.value, int):
        return e.value
    if isinstance(e, ast.Name):
        v = I._single_assignment(fn, e.id)
        if v is not None:
            return _fold_int(repo, fn, v, depth + 1)
        mod = fn._module
        r = repo.resolve_name(mod, e.id)
        if r and r[0] in repo.modules and r[1] in repo.modules[r[0]].assigns:
            return _fold_int(repo, fn, repo.modules[r[0]].assigns[r[1]], depth + 1)
    if isinstance(e, ast.Attribute) and norm(e.value) == "self":
        cls = getattr(fn, "_class", None)
        if cls is not None:
            for m, c in repo.mro(fn._module.name, cls.name):
                for s in repo.modules[m].classes[c].body:
                    tgt = s.targets[0] if isinstance(s, ast.Assign) else s.target if isinstance(s, ast.AnnAssign) else None
                    if tgt is not None and norm(tgt) == e.attr and getattr(s, "value", None) is not None:
                        return _fold_int(repo, fn, s.value, depth + 1)
    return None


def _index_consumers(ctx, repo, v, ad, fn) -> None:
    provided = set()  # names bound to a block index by a provider
    for n in own_nodes(fn):
        if isinstance(n, ast.For) and "instrumentation_original_instructions" in norm(n.iter):
            for t in ast.walk(n.target):
                if isinstance(t, ast.Name):
                    provided.add(t.id)
        if isinstance(n, ast.Assign) and isinstance(n.value, ast.Call) and norm(n.value.func).endswith("find_instruction_by_original_index"):
            for t in ast.walk(n.targets[0]):
                if isinstance(t, ast.Name):
                    provided.add(t.id)
    tag = f"[{v} {ad.replace('Instrumentation', '')} {fn.name}]"
    for c in own_nodes(fn):
        if not isinstance(c, ast.Call):
            continue
        name = norm(c.func)
        # (a) instruction lookups take positions counted over instructions: never an index handed out for the block
        if name.endswith((".try_get_instruction", "._get_instruction")) and c.args:
            used = {x.id for x in ast.walk(c.args[0]) if isinstance(x, ast.Name)}
            mixes = used & (provided | {"instr_index"})
            ctx.check("C01.index", c, not mixes, f"{tag}: `{norm(c)}` looks up an instruction by position with the block index {sorted(mixes)}: behind a pseudo-instruction this is another instruction", what=f"{tag}: lookup by instruction position", stmt=f"{tag} {norm(c)[:70]}")
        # (b) a visit_* call handing an index to a splice
        if name.startswith("self.visit_") and len(c.args) >= 6:
            callee = next((f2 for f2 in I.effective_functions(repo, v, ad) if f2.name == c.func.attr), None)
            if callee is None:
                continue
            ps = [a.arg for a in callee.args.args]
            if "instr_index" not in ps:
                continue
            pos = ps.index("instr_index") - 1
            if pos >= len(c.args):
                continue
            a = c.args[pos]
            txt = norm(a)
            if isinstance(a, ast.Name) and a.id in provided:
                ctx.ok("C01.index", c, f"{tag}: {c.func.attr} gets a block index from a provider")
                continue
            if isinstance(a, ast.Call) and norm(a.func).endswith(".block_index_of"):
                ctx.ok("C01.index", c, f"{tag}: {c.func.attr} gets block_index_of(...)")
                continue
            if isinstance(a, ast.Name) and a.id == "instr_index":
                ctx.ok("C01.index", c, f"{tag}: {c.func.attr} forwards its own block index")
                continue
            k = _fold_int(repo, fn, a)
            if k is None:
                ctx.undecide("C01.index", c, f"{tag}: index `{txt}` handed to {c.func.attr} has no known origin")
                continue
            ctx.check("C01.index", c, k == -1, f"{tag}: {c.func.attr} splices at `{txt}` = {k}, a position counted over the instructions of the block; with a pseudo-instruction (TryEnd) behind it the splice lands after the instruction (negative stack size: the module cannot be loaded)", what=f"{tag}: {c.func.attr} at the final jump (-1)", stmt=f"{tag} {c.func.attr}({txt})")


# ------------------------------------------------------------------------------------------------ adversarial representatives
class _Counter:
    calls: list = []


class LtOnly:
    """Implements < only (a partial comparison protocol)."""

    def __init__(self, v):
        self.v = v

    def __lt__(self, other):
        return self.v < other.v


class NeRaises:
    def __eq__(self, other):
        return False

    def __ne__(self, other):
        raise RuntimeError("__ne__ is not called by the module under test")

    __hash__ = None


class EqRaisesInNe:
    def __eq__(self, other):
        raise RuntimeError("__eq__ is not called by `!=`")

    def __ne__(self, other):
        return True

    __hash__ = None


class ContainsOnly:
    def __contains__(self, item):
        return True

    def __iter__(self):
        raise RuntimeError("__iter__ is not called by `in` when __contains__ exists")


class BoolAndLen:
    def __init__(self):
        self.len_calls = 0

    def __bool__(self):
        return True

    def __len__(self):
        self.len_calls += 1
        raise RuntimeError("__len__ is not called for the truth value when __bool__ exists")


class NotAString:
    """Has the str predicate methods; the seeding must not call them."""

    def __init__(self):
        self.calls = []

    def _m(self, name):
        self.calls.append(name)
        return True

    def isupper(self):
        return self._m("isupper")

    def isalnum(self):
        return self._m("isalnum")

    def lower(self):
        self.calls.append("lower")
        raise AttributeError("lower")

    def upper(self):
        self.calls.append("upper")
        raise AttributeError("upper")

    def __format__(self, spec):
        self.calls.append("__format__")
        return "x"

    def __add__(self, other):
        self.calls.append("__add__")
        raise TypeError("+")

    __radd__ = __add__


class RaisingProperty:
    @property
    def attr(self):
        raise RuntimeError("property getter run by the tracer")


class DivZeroNumber(numbers.Real):
    """a user-defined number: comparisons work, arithmetic raises ZeroDivisionError"""

    def _bad(self, *a):
        raise ZeroDivisionError("user-defined arithmetic")

    __abs__ = __add__ = __ceil__ = __floor__ = __floordiv__ = __mod__ = __mul__ = __neg__ = __pos__ = __pow__ = __radd__ = __rfloordiv__ = __rmod__ = __rmul__ = __round__ = __rpow__ = __rtruediv__ = __truediv__ = __trunc__ = __sub__ = __rsub__ = _bad

    def __float__(self):
        return 1.0

    def __eq__(self, other):
        return False

    def __lt__(self, other):
        return False

    def __le__(self, other):
        return False

    __hash__ = None


class GetattrKeyError:
    """`__getattr__` answers unknown names with KeyError (a record that looks fields up in a dict): hasattr() only
    swallows AttributeError."""

    def __init__(self):
        self._fields = {"a": 1}

    def __getattr__(self, name):
        return self._fields[name]

    def total(self):
        return 4


class RaisingDictAttr:
    """reading `__dict__` runs code of the module under test that raises"""

    @property
    def __dict__(self):
        raise RuntimeError("__dict__ computed by the module under test")

    def method(self):
        return 1


NATIVE = (LtOnly, NeRaises, EqRaisesInNe, ContainsOnly, BoolAndLen, NotAString, RaisingProperty, GetattrKeyError, RaisingDictAttr, DivZeroNumber, decimal.Decimal, fractions.Fraction)


def _tracer_interp(repo, sinks=("self._update_metrics",)):
    return peval.Interp(resolver=peval.repo_resolver(repo), identity={"tt.unwrap", "unwrap"}, sinks=set(sinks), native_types=NATIVE, max_steps=400000)


def _observe(ctx, repo) -> None:
    tmod = repo.module(TR)
    ecp = repo.func(TR, "ExecutionTracer.executed_compare_predicate")
    ebp = repo.func(TR, "ExecutionTracer.executed_bool_predicate")
    taa = repo.func(TR, "ExecutionTracer.track_attribute_access")
    for f in (ecp, ebp, taa):
        ctx.analysed(f)
    T = peval.Token
    import operator

    PY = {"EQ": operator.eq, "NE": operator.ne, "LT": operator.lt, "LE": operator.le, "GT": operator.gt, "GE": operator.ge, "IN": lambda a, b: a in b, "NOT_IN": lambda a, b: a not in b}
    cases = [
        ("LT", lambda: (LtOnly(1), LtOnly(2)), "operands that implement only <"),
        ("LT", lambda: (LtOnly(2), LtOnly(1)), "operands that implement only < (false outcome)"),
        ("GT", lambda: (LtOnly(2), LtOnly(1)), "operands that implement only < (reflected >)"),
        ("EQ", lambda: (NeRaises(), 1), "an operand whose __ne__ raises"),
        ("NE", lambda: (EqRaisesInNe(), 1), "an operand whose __eq__ raises"),
        ("IN", lambda: (1, ContainsOnly()), "a container with __contains__ whose __iter__ raises"),
        ("NOT_IN", lambda: (1, ContainsOnly()), "a container with __contains__ whose __iter__ raises (not in)"),
        ("EQ", lambda: (10**400, 1.5), "an int beyond the float range"),
        ("LT", lambda: (float("nan"), 1.0), "NaN"),
        ("LE", lambda: (10**400, 10**400 + 1), "huge ints"),
        ("EQ", lambda: ({1}, {2}), "sets"),
        ("LT", lambda: ({1}, {2}), "unordered sets"),
        ("EQ", lambda: (b"\x89PNG", b"\xff\xfe"), "bytes that are not UTF-8"),
        ("LT", lambda: (b"\xff", b"\xfe\xff"), "bytes that are not UTF-8 (<)"),
        ("IN", lambda: (b"\xff", (b"\xfe", b"\x80")), "bytes in a tuple of bytes"),
        ("EQ", lambda: (decimal.Decimal("9E+999999"), decimal.Decimal("-9E+999999")), "decimals whose difference leaves the exponent range (decimal.Overflow is an ArithmeticError)"),
        ("IN", lambda: (decimal.Decimal("9E+999999"), [decimal.Decimal("-9E+999999")]), "such a decimal searched in a list"),
        ("EQ", lambda: (fractions.Fraction(1, 3), DivZeroNumber()), "a number whose subtraction raises ZeroDivisionError"),
    ]
    for kind, mk, what in cases:
        a, b = mk()
        try:
            PY[kind](a, b)
        except Exception:  # noqa: BLE001 - the module under test raises itself for this pair: nothing to compare
            continue
        it = _tracer_interp(repo)
        selfobj = peval.Obj("tracer")
        tag = f"[compare {kind}] {what}"
        try:
            it.run_function(ecp, [selfobj, a, b, 0, T(f"PynguinCompare.{kind}")], {}, tmod)
            ctx.ok("C01.observe", ecp, f"{tag}: nothing raised")
        except peval.Undecided as exc:
            ctx.undecide("C01.observe", ecp, f"{tag}: {exc}")
        except peval.Raises as exc:
            ctx.fail("C01.observe", ecp, f"{tag}: executed_compare_predicate raises {exc.name} ({exc.detail[:60]}) into the module under test, where the comparison itself evaluates without an error", stmt=tag)
        except Exception as exc:  # noqa: BLE001 - raised by a representative's own operator, i.e. by an operator the tracer called
            ctx.fail("C01.observe", ecp, f"{tag}: executed_compare_predicate lets {type(exc).__name__}: {exc} escape into the module under test", stmt=tag)
    # one-shot iterators
    for kind, (label, mkit) in itertools.product(("IN", "NOT_IN"), (("list iterator", lambda: iter([1, 2, 3])), ("generator", lambda: (v for v in [1, 2, 3])), ("map object", lambda: map(int, "123")))):
        itr = mkit()
        it = _tracer_interp(repo)
        tag = f"[compare {kind}] one-shot iterator as container ({label})"
        try:
            it.run_function(ecp, [peval.Obj("tracer"), 2, itr, 0, T(f"PynguinCompare.{kind}")], {}, tmod)
            left = list(itr)
            ctx.check("C01.observe", ecp, left == [1, 2, 3], f"{tag}: after the tracer call the iterator yields {left} instead of [1, 2, 3]: the membership test of the module under test searches an iterator the tracer already consumed", what=f"{tag}: iterator untouched", stmt=tag)
        except peval.Undecided as exc:
            ctx.undecide("C01.observe", ecp, f"{tag}: {exc}")
        except (peval.Raises, Exception) as exc:  # noqa: BLE001
            ctx.fail("C01.observe", ecp, f"{tag}: raises {exc}", stmt=tag)
    # boolean predicate
    for mk, what in ((lambda: 10**400, "an int beyond the float range"), (BoolAndLen, "an object with __bool__ and a raising __len__"), (lambda: [1], "a list"), (lambda: [], "an empty list"),
                     (lambda: float("nan"), "NaN"), (lambda: 0.0, "zero"), (lambda: "", "empty string"), (object, "a plain object"), (lambda: 1 + 2j, "a complex number"), (lambda: True, "True")):
        val = mk()
        it = _tracer_interp(repo)
        tag = f"[bool] {what}"
        try:
            it.run_function(ebp, [peval.Obj("tracer"), val, 0], {}, tmod)
            extra = isinstance(val, BoolAndLen) and val.len_calls
            ctx.check("C01.observe", ebp, not extra, f"{tag}: the tracer calls __len__, which the truth test of the module under test does not call", what=f"{tag}: nothing raised, no foreign call", stmt=tag)
        except peval.Undecided as exc:
            ctx.undecide("C01.observe", ebp, f"{tag}: {exc}")
        except peval.Raises as exc:
            ctx.fail("C01.observe", ebp, f"{tag}: executed_bool_predicate raises {exc.name} ({exc.detail[:60]}) into the module under test", stmt=tag)
        except Exception as exc:  # noqa: BLE001
            ctx.fail("C01.observe", ebp, f"{tag}: executed_bool_predicate lets {type(exc).__name__}: {exc} escape into the module under test", stmt=tag)
    # attribute access tracking
    lookup = repo.func(TR, "ExecutionTracer.attribute_lookup")
    ctx.analysed(lookup)
    import inspect as _inspect

    for mkobj, attr, tag in ((RaisingProperty, "attr", "[attribute] a property whose getter raises, traced after STORE_ATTR"),
                             (GetattrKeyError, "total", "[attribute] an object whose __getattr__ raises KeyError for unknown names (method access)"),
                             (RaisingDictAttr, "method", "[attribute] an object whose __dict__ is computed and raises")):
        holder = {}

        def real_lookup(o, n, _h=holder):
            # the tracer's own lookup, interpreted from source on the object of the module under test
            return _h["it"].run_function(lookup, [o, n], {}, tmod)

        it = peval.Interp(resolver=peval.repo_resolver(repo), sinks={"self._thread_local_state.trace.add_attribute_instruction"}, native_types=(*NATIVE, type, types.MappingProxyType),
                          externs={"self.attribute_lookup": real_lookup, "inspect.isdatadescriptor": _inspect.isdatadescriptor}, max_steps=100000,
                          consts={"BuiltinMethodType": types.BuiltinMethodType, "BuiltinFunctionType": types.BuiltinFunctionType, "MethodType": types.MethodType, "immutable_types": (int, float, str, bool, tuple, frozenset, bytes, type(None))})
        holder["it"] = it
        try:
            it.run_function(taa, [peval.Obj("tracer"), "m", 1, 2, 95, 3, 4, attr, mkobj()], {}, tmod)
            ctx.ok("C01.observe", taa, f"{tag}: contained")
        except peval.Undecided as exc:
            ctx.undecide("C01.observe", taa, f"{tag}: {exc}")
        except (peval.Raises, Exception) as exc:  # noqa: BLE001
            ctx.fail("C01.observe", taa, f"{tag}: track_attribute_access lets {type(exc).__name__}: {exc} escape into the module under test (the traced instruction does not run this code, or not again)", stmt=tag)
    # the tracer's own lookups run with tracing switched off
    guarded = any(isinstance(w, ast.With) and any("temporarily_disable" in norm(i.context_expr) for i in w.items) and any(isinstance(c, ast.Call) and norm(c.func) == "getattr" for c in ast.walk(w)) for w in own_nodes(taa))
    has_getattr = any(isinstance(c, ast.Call) and norm(c.func) == "getattr" for c in own_nodes(taa))
    ctx.check("C01.observe", taa, guarded or not has_getattr, "track_attribute_access reads the attribute with tracing enabled: instrumented code run by the lookup (__getattribute__, a property) is traced again and looks attributes up again - unbounded recursion in the module under test", what="attribute lookup runs under temporarily_disable()", stmt="[attribute] lookup under temporarily_disable")

    # seeding entry points
    cmod = repo.module(CONSTS)
    cres = peval.repo_class_resolver(repo, only={"DynamicConstantProvider", "DelegatingConstantProvider", "ConstantProvider"})

    def provider():
        it = peval.Interp(resolver=peval.repo_resolver(repo), class_resolver=cres, identity={"unwrap"}, native_types=NATIVE, max_steps=100000)
        obj = it.instantiate("DynamicConstantProvider", cres("DynamicConstantProvider", cmod), ["pool", "delegate", 0.0, 100], {})
        added = []
        obj.methods["add_value"] = lambda v: added.append(v)
        return obj, added

    for meth, mkargs, what in (
        ("add_value_for_strings", lambda o: (o, "isupper"), "a receiver that is not a string"),
        ("add_value_for_strings", lambda o: (o, "isalnum"), "a receiver that is not a string (isalnum)"),
        ("add_value_for_concatenation", lambda o: (("a", "b"), "abc"), "a tuple of prefixes"),
        ("add_value_for_concatenation", lambda o: ("abc", ("a", "b")), "a tuple of suffixes"),
        ("add_value_for_concatenation", lambda o: (o, "abc"), "a receiver that is not a string"),
        ("add_value_for_concatenation", lambda o: (3, "abc"), "an int argument"),
    ):
        tag = f"[seeding {meth}] {what}"
        fn = repo.try_func(CONSTS, f"DynamicConstantProvider.{meth}")
        if fn is None:
            if meth == "add_value_for_strings":
                raise AnalysisError(f"anchor vanished: DynamicConstantProvider.{meth}")
            continue
        ctx.analysed(fn)
        o = NotAString()
        try:
            obj, added = provider()
            obj.methods[meth](*mkargs(o))
            ctx.check("C01.observe", fn, not o.calls and not added, f"{tag}: the entry point calls {o.calls} on the value / records {added!r}: methods and operators of an object of the module under test that the original code does not call", what=f"{tag}: value only observed", stmt=tag)
        except peval.Undecided as exc:
            ctx.undecide("C01.observe", fn, f"{tag}: {exc}")
        except peval.Raises as exc:
            ctx.fail("C01.observe", fn, f"{tag}: {meth} raises {exc.name} ({exc.detail[:50]}) into the module under test (calls made on the value: {o.calls})", stmt=tag)
        except Exception as exc:  # noqa: BLE001
            ctx.fail("C01.observe", fn, f"{tag}: {meth} lets {type(exc).__name__} escape into the module under test", stmt=tag)
    # positive twin: strings are still seeded
    fn = repo.try_func(CONSTS, "DynamicConstantProvider.add_value_for_concatenation")
    if fn is not None:
        try:
            obj, added = provider()
            obj.methods["add_value_for_concatenation"]("ab", "xyz")
            ctx.check("C01.observe", fn, added == ["abxyz"], f"[seeding] add_value_for_concatenation('ab', 'xyz') records {added!r}", what="[seeding] strings are concatenated", stmt="[seeding concat positive]")
        except (peval.Undecided, peval.Raises) as exc:
            ctx.undecide("C01.observe", fn, f"[seeding] positive twin: {exc}")


# ------------------------------------------------------------------------------------------------ seeding always on
def _seeding(ctx, repo) -> None:
    fn = repo.func(MACH, "install_import_hook")
    ctx.analysed(fn)
    guard = next((s for s in fn.body if isinstance(s, ast.If) and norm(s.test) == "dynamic_constant_provider is None"), None)
    ok = guard is not None and any(isinstance(s, ast.Assign) and norm(s.targets[0]) == "dynamic_constant_provider" and isinstance(s.value, ast.Call) for s in guard.body)
    if ok:
        ctx.ok("C01.seeding", fn, "install_import_hook substitutes a DynamicConstantProvider for None: the seeding adapter is part of every configuration")
    else:
        ctx.observe("install_import_hook no longer substitutes a provider for None: seeding instrumentation is optional")
        ctx.ok("C01.seeding", fn, "seeding adapter optional")
