"""C19 — generated regression assertions are kept in the exported file.

Decides: (copy) every TestCase operation on the post-processing / export path
that rebuilds a statement carries the assertions of the statement it replaces;
(live) unused-binding removal counts the reads made by a statement's own
assertions; (export) the writer emits every assertion of every statement on all
emission paths and the renderer has an arm for every assertion class;
(removers) assertions are removed only by the assertion generator / minimiser.
"""

from __future__ import annotations

import ast

from sa.engine.cfg import CFG
from sa.engine.index import AnalysisError, kwarg, last_attr, norm, own_nodes, parent, qualname

TC = "pynguin.testcase.testcase"
EXP = "pynguin.testcase.export"
A2A = "pynguin.assertion.assertion_to_ast"
ASS = "pynguin.assertion.assertion"

# functions that may remove assertions (assertion generation / minimisation themselves)
REMOVERS_ALLOWED = {
    ("pynguin.ga.postprocess", "AssertionMinimization.visit_test_case_chromosome"): "checked-coverage based assertion minimisation (the step the property names)",
    ("pynguin.assertion.assertiongenerator", "AssertionGenerator.__remove_non_holding_assertions"): "assertion generation drops assertions that do not hold on re-execution",
    ("pynguin.assertion.assertiongenerator", "MutationAnalysisAssertionGenerator.__remove_non_relevant_assertions"): "mutation-based generation keeps only assertions that kill a mutant",
    ("pynguin.assertion.assertiongenerator", "MutationAnalysisAssertionGenerator.__minimize_assertions"): "mutation-based assertion minimisation",
}
LIST_MUTATORS = {"remove", "clear", "pop", "__delitem__"}


def _anc(n):
    p = parent(n)
    while p is not None:
        yield p
        p = parent(p)


def check(ctx) -> None:
    repo = ctx.repo
    ctx.rule("C19.copy", "FIELD-COMPLETE: a Statement built in TestCase to replace/clone an existing statement passes assertions= derived from that statement (or uses dataclasses.replace on it)", floor=3)
    ctx.rule("C19.live", "remove_unused_variables adds the sources of a statement's reference assertions to the live set before it decides whether the binding is dead", floor=1)
    ctx.rule("C19.export", "the test-function builder appends assertion_to_cst(a) for every a in stmt.assertions on every emission path; assertion_to_cst has an arm for every Assertion class", floor=6)
    ctx.rule("C19.removers", "WHO-MAY: statement.assertions is shrunk / reassigned only inside assertion generation and assertion minimisation", floor=3)

    # ------------------------------------------------------------------ C19.copy
    tcdef = repo.cls(TC, "TestCase")
    n_sites = 0
    for mname, fn in repo.methods(tcdef).items():
        for n in own_nodes(fn):
            if not isinstance(n, ast.Call):
                continue
            fname = norm(n.func)
            if fname == "Statement":
                kws = {k.arg: k.value for k in n.keywords}
                # a rebuild: some argument reads a field of an existing statement variable
                srcs = set()
                for v in [*n.args, *kws.values()]:
                    for x in ast.walk(v):
                        if isinstance(x, ast.Attribute) and x.attr in ("node", "bound_variable", "bound_type", "accessible", "ml_info", "assertions") and isinstance(x.value, ast.Name):
                            srcs.add(x.value.id)
                replaces = any(
                    (isinstance(a, ast.Assign) and any(isinstance(t, ast.Subscript) and norm(t.value) == "self._statements" for t in a.targets))
                    or (isinstance(a, ast.Call) and last_attr(a) == "replace_statement")
                    for a in _anc(n)
                )
                if not srcs and not replaces:
                    continue
                if replaces and not srcs:
                    # replacing a statement without reading it: find the statement variable of the enclosing loop
                    srcs = {"stmt"}
                n_sites += 1
                ctx.analysed(fn)
                av = kws.get("assertions")
                ok = av is not None and any(isinstance(x, ast.Attribute) and x.attr == "assertions" and isinstance(x.value, ast.Name) and x.value.id in srcs for x in ast.walk(av))
                ctx.check("C19.copy", n, ok, f"TestCase.{mname} rebuilds a statement from `{sorted(srcs)[0]}` without carrying over its assertions: the oracle is silently dropped", what=f"TestCase.{mname}: assertions carried over")
                for fld in ("accessible", "ml_info"):
                    if fld not in kws:
                        ctx.observe(f"TestCase.{mname}: rebuilt Statement does not pass {fld}=")
            elif fname == "dataclasses.replace" and n.args:
                n_sites += 1
                ctx.analysed(fn)
                kws = {k.arg: k.value for k in n.keywords}
                av = kws.get("assertions")
                src = norm(n.args[0])
                ok = av is None or f"{src}.assertions" in norm(av)
                ctx.check("C19.copy", n, ok, f"TestCase.{mname}: dataclasses.replace overrides assertions with a value not derived from `{src}.assertions`", what=f"TestCase.{mname}: dataclasses.replace keeps assertions")

    # ------------------------------------------------------------------ C19.live
    ruv = repo.func(TC, "TestCase.remove_unused_variables")
    ctx.analysed(ruv)
    cfg = CFG(ruv)
    # the statement loop
    loops = [n for n in cfg.nodes if n.kind == "for" and any(isinstance(x, ast.Attribute) and x.attr == "_statements" for x in ast.walk(n.stmt))]
    if not loops:
        raise AnalysisError("remove_unused_variables: loop over self._statements not found")
    loop = loops[0]
    # live-set name: the set that receives used variables
    live = None
    for n in own_nodes(ruv):
        if isinstance(n, ast.Call) and last_attr(n) == "update" and isinstance(n.func.value, ast.Name) and any("_get_used_variables" in norm(a) or "used_variables" in norm(a) for a in n.args):
            live = n.func.value.id
    if live is None:
        raise AnalysisError("remove_unused_variables: live set not identified")
    seed_nodes = set()
    for n in cfg.nodes:
        if n.stmt is None or n.kind not in ("stmt", "for", "for_iter"):
            continue
        s = n.stmt
        txt = norm(s) if n.kind == "stmt" else norm(s.iter) + " " + " ".join(norm(b) for b in s.body)
        if ".assertions" in txt and "source" in txt and (f"{live}.update(" in txt or f"{live}.add(" in txt or f"{live} |=" in txt):
            seed_nodes.add(n.id)
    # decision points: tests that ask whether the bound variable is live
    decisions = [n.id for n in cfg.nodes if n.kind == "test" and isinstance(n.stmt, ast.If) and any(isinstance(c, ast.Compare) and any(isinstance(o, (ast.In, ast.NotIn)) for o in c.ops) and norm(c.comparators[0]) == live for c in ast.walk(n.stmt.test))]
    if not decisions:
        ctx.undecide("C19.live", ruv, "no `<bound variable> in <live set>` decision found")
    else:
        starts = [b for b, lab in cfg.succ[loop.id] if lab == "body"]
        p = cfg.path(starts, decisions, avoid_nodes=seed_nodes)
        ctx.paths += 1
        ctx.check(
            "C19.live",
            cfg.nodes[decisions[0]].stmt,
            p is None and bool(seed_nodes),
            "remove_unused_variables decides that a binding is dead without first counting the reads made by the statement's own assertions: "
            "an asserted variable loses its binding (and the assertion then fails with NameError)",
            what="assertion sources seeded into the live set before the liveness decision",
            path=cfg.describe_path(p) if p else [],
        )

    # sources may be dotted paths (`var_0.field`, produced by the assertion trace observer): a reader that
    # matches them against variable names must take the root of the path
    for fn_mod, fn_qn in ((TC, "TestCase.remove_unused_variables"), ("pynguin.ga.postprocess", "_directly_asserted_variables")):
        f = repo.func(fn_mod, fn_qn)
        ctx.analysed(f)
        src_reads = [x for x in own_nodes(f) if isinstance(x, ast.Attribute) and x.attr == "source" and isinstance(x.ctx, ast.Load)]
        names_bound_to_source = {n.targets[0].id for n in own_nodes(f) if isinstance(n, ast.Assign) and isinstance(n.targets[0], ast.Name) and isinstance(n.value, ast.Attribute) and n.value.attr == "source"}
        uses = list(src_reads) + [x for x in own_nodes(f) if isinstance(x, ast.Name) and x.id in names_bound_to_source and isinstance(x.ctx, ast.Load)]
        sinks = []
        for u in uses:
            p1 = parent(u)
            if isinstance(p1, ast.Assign):
                continue  # `source = assertion.source`
            if isinstance(p1, ast.Call) and norm(p1.func) == "isinstance":
                continue
            rooted = isinstance(p1, ast.Attribute) and p1.attr in ("split", "partition") and isinstance(parent(p1), ast.Call) and isinstance(parent(parent(p1)), ast.Subscript) and norm(parent(parent(p1)).slice) == "0"
            sinks.append((u, rooted))
        if not sinks:
            ctx.undecide("C19.live", f, "no use of an assertion source found")
        for u, rooted in sinks:
            st = u
            while not isinstance(st, ast.stmt):
                st = parent(st)
            ctx.check("C19.live", st, rooted, f"{fn_qn} matches a (possibly dotted) assertion source `{norm(u)}` against variable names without taking the root of the path: a variable asserted through an attribute is treated as unused", what=f"{fn_qn}: root of assertion source used", stmt=norm(st)[:120] + " [root]")

    # ------------------------------------------------------------------ C19.export
    btf = repo.func(EXP, "TestSuiteWriter._build_test_function")
    ctx.analysed(btf)
    cfg = CFG(btf)
    stmt_loops = [n for n in cfg.nodes if n.kind == "for" and "statements()" in norm(n.stmt.iter)]
    if not stmt_loops:
        raise AnalysisError("_build_test_function: loop over tc.statements() not found")
    sl = stmt_loops[0]
    svar = None
    tgt = sl.stmt.target
    svar = tgt.elts[0].id if isinstance(tgt, ast.Tuple) else tgt.id
    a_loops = {n.id for n in cfg.nodes if n.kind == "for" and norm(n.stmt.iter) == f"{svar}.assertions"}
    ctx.check("C19.export", sl.stmt, bool(a_loops), "_build_test_function has no loop over stmt.assertions", what="loop over stmt.assertions present")
    if a_loops:
        starts = [b for b, lab in cfg.succ[sl.id] if lab == "body"]
        p = cfg.path(starts, [sl.id], avoid_nodes=a_loops, labels_excluded=("exc",))
        ctx.paths += 1
        ctx.check("C19.export", sl.stmt, p is None, "an emission path of _build_test_function skips the assertions of a statement", what="assertions emitted on every emission path", path=cfg.describe_path(p) if p else [], stmt="[every-path]")
        # inside the assertion loop: append(assertion_to_cst(a)) guarded only by `is not None`
        for aid in a_loops:
            al = cfg.nodes[aid].stmt
            avar = al.target.id
            calls = [x for x in ast.walk(al) if isinstance(x, ast.Call) and norm(x.func) == "assertion_to_cst" and x.args and norm(x.args[0]) == avar]
            appends = [x for x in ast.walk(al) if isinstance(x, ast.Call) and last_attr(x) == "append"]
            tests = [x for x in ast.walk(al) if isinstance(x, ast.If)]
            only_none = all(isinstance(t.test, ast.Compare) and isinstance(t.test.ops[0], ast.IsNot) and norm(t.test.comparators[0]) == "None" for t in tests)
            no_skip = not any(isinstance(x, (ast.Continue, ast.Break)) for x in ast.walk(al))
            ctx.check("C19.export", al, bool(calls) and bool(appends) and only_none and no_skip, "the assertion loop filters or skips assertions instead of rendering each one", what="each assertion rendered and appended (filter: `is not None` only)")
    # renderer exhaustive over Assertion classes
    a2c = repo.func(A2A, "assertion_to_cst")
    ctx.analysed(a2c)
    arms = {}
    for n in own_nodes(a2c):
        if isinstance(n, ast.If) and isinstance(n.test, ast.Call) and norm(n.test.func) == "isinstance":
            cls = norm(n.test.args[1]).split(".")[-1]
            ret = next((s for s in n.body if isinstance(s, ast.Return)), None)
            arms[cls] = ret
    base = (ASS, "Assertion")
    repo.cls(*base)
    for m, c in sorted(repo.subclasses(*base)):
        cdef = repo.modules[m].classes[c]
        if m != ASS:
            continue
        abstract = any("ABC" in norm(b) for b in cdef.bases) or any(any(norm(d) == "abstractmethod" for d in f.decorator_list) for f in repo.methods(cdef).values())
        if abstract:
            continue
        ret = arms.get(c)
        if c == "ExceptionAssertion":
            ctx.check("C19.export", a2c, c in arms, "ExceptionAssertion has no arm in assertion_to_cst", what="ExceptionAssertion handled structurally (pytest.raises)", stmt=f"[{c}]")
            continue
        ok = ret is not None and not (isinstance(ret.value, ast.Constant) and ret.value.value is None)
        ctx.check("C19.export", a2c, ok, f"assertion_to_cst has no rendering arm for {c}: such assertions are silently dropped at export", what=f"arm for {c}", stmt=f"[{c}]")

    # ------------------------------------------------------------------ C19.removers
    for mod, qn, fn in repo.all_functions():
        if mod.name.startswith(("pynguin.large_language_model", "pynguin.refinement")):
            continue
        for n in own_nodes(fn):
            hit = None
            if isinstance(n, ast.Call) and isinstance(n.func, ast.Attribute) and n.func.attr in LIST_MUTATORS and isinstance(n.func.value, ast.Attribute) and n.func.value.attr == "assertions":
                hit = n
            if isinstance(n, (ast.Assign, ast.AugAssign)):
                ts = n.targets if isinstance(n, ast.Assign) else [n.target]
                if any(isinstance(t, ast.Attribute) and t.attr == "assertions" and norm(t.value) != "self" for t in ts):
                    hit = n
            if isinstance(n, ast.Delete) and any(isinstance(t, (ast.Subscript, ast.Attribute)) and "assertions" in norm(t) for t in n.targets):
                hit = n
            if hit is None:
                continue
            ctx.analysed(fn)
            key = (mod.name, qn.split("#")[0])
            allowed = next((why for (m_, q_), why in REMOVERS_ALLOWED.items() if m_ == key[0] and (q_ == key[1] or key[1].startswith(q_ + ".<locals>"))), None)
            st = hit
            while not isinstance(st, ast.stmt):
                st = parent(st)
            ctx.check("C19.removers", st, allowed is not None, f"{mod.name}:{qn} removes or replaces statement assertions outside assertion generation/minimisation", what=f"remover {qn}: {allowed}")
